"""C15 - registered subclasses are used on every creation path.

Correspondence with M-Classes (lean/DefconModel/Classes.lean over the regenerated Gen/ClassWiring.lean)
and a direct oracle.

A case = a configuration (marker subclasses for a random subset of the 17 roles), generated font content
(written to a scratch UFO for cases that load), a plain source font and a list of operations, each of which
runs one creation path of the public API on a font built with the marker classes.  After every operation (or
every k-th, see `schedule`) the adaptor sweeps every object reachable through the public API; the objects
that were not there before (plus what the calls returned) are reported as a set of (role, class) pairs.

* model side: `(multi (<path name> (<roles>)) ...)` - the model answers, from the wiring and the configuration, which
  class each site of that creation path instantiates for those roles.  Which roles an operation creates is
  computed from the GENERATED CONTENT by `Tracker` (generator-side knowledge of what it generated), not
  from the implementation run.
* oracle: `isinstance(obj, registered_or_default[role])` for every reachable object and every returned
  object, after every operation - written without reference to the Lean model.
"""
import copy
import math
import os
import shutil
import tempfile

from sexp import Atom

import extract_classwiring
import c15_census

MODEL = "classes"
SHRINKABLE = True
RULE = ("fonts built with marker subclasses for a random subset of the 17 roles (none / one / some / all); every case "
        "starts by loading a generated UFO or creating an empty font and then runs 3-14 creation-path operations "
        "(newGlyph/newLayer, insertGlyph/copyDataFromGlyph from a plain font, dict/foreign-object/list appends of anchors "
        "and guidelines at glyph and font level, every instantiate* factory, point and segment pens, reverse/clockwise, "
        "split, removeSegment, appendPoint/insertPoint, decompose, reloadGlyphs/reloadLayers/reloadInfo..Lib after an "
        "external edit, font/glyph/contour deserialisation incl. shallow-loaded contours, class properties); the public API is "
        "swept after every operation or only after every 2nd/3rd/last one (operations then run on partly loaded fonts), "
        "info/kerning/groups/features are read eagerly or only when an operation touches them; non-trivial = "
        "at least one role customised AND at least one operation created an object of a customised role; distinct = "
        "distinct (configuration, content, op list).  Round 3: the source font of insertGlyph/copyData/deserialize carries "
        "OTHER marker classes; reloadImages/reloadData, LayerSet/Layer/sub-object setDataFromSerialization; free-standing glyphs "
        "and contours (made by the factories, or constructed by the caller as an object of defcon's own / of the registered "
        "class with the registered classes handed in) driven through pens, dict appends, point-level API, reversal; pens used "
        "after their glyph left its layer; every entry point that accepts an object handed an object of defcon's class, of the "
        "registered class and of an unrelated subclass (model: adopted as it is / rebuilt with which class); RUN-TIME SITE "
        "CENSUS: every construction of an instance of a role class is recorded with the defcon source position that asked "
        "for it, every such position must be a creation site of the regenerated table, every reachable object must have been "
        "recorded, and the directed histories must hit every site of the table with the role the catalogue gives it")
ASSUMPTIONS = [
    "registered classes are subclasses of defcon's default class for the role that do not override __init__ or the "
    "instantiate* factories (marker subclasses)",
    "contours, components and points the user constructs himself and hands in (appendContour/appendComponent/appendPoint) "
    "are stored as they are - the model says so (`adopt`), the code is compared with it, the oracle does not demand their "
    "class: points are inserted through contour.pointClass, which is what the class properties are for; anchors, guidelines "
    "and glyphs handed in ARE demanded to come out as objects of the registered class",
    "an 'unrelated subclass' is a marker subclass of the role's defcon class that is registered nowhere",
    "objects inside a representation (the flattened contour's points) are not demanded (exercised as noise only)",
    "UFO 3 on disk; single process",
]
TRUSTED = [
    "harness/c15_census.py records every construction (wrappers on __init__ of defcon's 17 role classes; an object made "
    "without __init__ would show up as an unrecorded reachable object) - with it, that the AST extractor sees every "
    "creation site is CHECKED on every executed site, not trusted; sites no history executes remain covered by the "
    "extractor's fail-closed shapes only (the census prints them: none for the directed histories)",
    "Tracker (generator-side bookkeeping of the generated content) decides which roles an operation is expected to create",
]

ROLES = ["glyph", "contour", "point", "component", "anchor", "image", "guideline", "lib", "layer", "layerSet",
         "info", "kerning", "groups", "features", "unicodeData", "imageSet", "dataSet"]
KW = dict(glyph="glyphClass", contour="glyphContourClass", point="glyphPointClass", component="glyphComponentClass",
          anchor="glyphAnchorClass", image="glyphImageClass", guideline="guidelineClass", lib="libClass", layer="layerClass",
          layerSet="layerSetClass", info="infoClass", kerning="kerningClass", groups="groupsClass", features="featuresClass",
          unicodeData="unicodeDataClass", imageSet="imageSetClass", dataSet="dataSetClass")
LAZY_PARTS = ["info", "kerning", "groups", "features"]
DEFAULT_LAYER = "public.default"
SRC_ID_OFFSET = 20      # marker classes of the SOURCE font: other classes than the receiving font's
UNRELATED_ID = 99       # a subclass of the role's defcon class that is registered nowhere

# entry points that accept an object -> (role, owner kind); the harness' own list (the model has its own, Spec/Classes.lean)
ENTRIES = {
    "Contour.appendPoint": "point", "Contour.insertPoint": "point",
    "Font.insertGlyph": "glyph", "Layer.insertGlyph": "glyph",
    "Font._set_guidelines": "guideline", "Font.appendGuideline": "guideline", "Font.insertGuideline": "guideline",
    "Info.appendGuideline": "guideline", "Info.insertGuideline": "guideline",
    "Glyph.appendContour": "contour", "Glyph.insertContour": "contour",
    "Glyph.appendComponent": "component", "Glyph.insertComponent": "component",
    "Glyph._set_anchors": "anchor", "Glyph.appendAnchor": "anchor", "Glyph.insertAnchor": "anchor",
    "Glyph._set_guidelines": "guideline", "Glyph.appendGuideline": "guideline", "Glyph.insertGuideline": "guideline",
}
# the roles for which the property demands conversion of whatever is handed in (dict-based appending, insertion from
# another font); contours, components and points a caller constructs himself are documented to be taken as they are
CONVERTED_ROLES = ("anchor", "guideline", "glyph")
FOREIGN_KINDS = ("base", "registered", "unrelated")
# sites of the table the directed histories are not expected to execute (none)
CENSUS_NEVER = []

FACTORIES = {
    # which -> (role, owner kind)
    "font.layerSet": "layerSet", "font.info": "info", "font.kerning": "kerning", "font.groups": "groups",
    "font.features": "features", "font.lib": "lib", "font.imageSet": "imageSet", "font.dataSet": "dataSet",
    "font.guideline": "guideline", "layerSet.layer": "layer", "layer.glyph": "glyph", "layer.lib": "lib",
    "layer.unicodeData": "unicodeData", "glyph.contour": "contour", "glyph.contourDict": "contour",
    "glyph.component": "component", "glyph.componentDict": "component", "glyph.anchor": "anchor",
    "glyph.guideline": "guideline", "glyph.lib": "lib", "glyph.image": "image",
}


def extract(repo, lean_dir):
    return extract_classwiring.extract(repo, lean_dir)


# ---------------------------------------------------------------------------------------
# content
# ---------------------------------------------------------------------------------------

def contour_points(C, k=0):
    """integer point list [(pt, segmentType)] of contour spec C = dict(closed, segs) - on-curves on a circle"""
    segs = C["segs"]
    n = len(segs)
    pts = []
    R = 200 + 40 * (k % 3)
    ox = 500 * (k % 4)

    def on(i):
        a = 2 * math.pi * i / max(n, 1)
        return (ox + int(round(R * math.cos(a))), int(round(R * math.sin(a))))

    for i, t in enumerate(segs):
        p1 = on(i)
        p0 = on(i - 1)
        if t == "curve":
            pts.append(((p0[0] + (p1[0] - p0[0]) // 3 + 7, p0[1] + (p1[1] - p0[1]) // 3 + 11), None))
            pts.append(((p0[0] + 2 * (p1[0] - p0[0]) // 3 + 5, p0[1] + 2 * (p1[1] - p0[1]) // 3 + 13), None))
            pts.append((p1, "curve"))
        elif t == "qcurve":
            pts.append((((p0[0] + p1[0]) // 2 + 9, (p0[1] + p1[1]) // 2 + 9), None))
            pts.append((p1, "qcurve"))
        else:
            pts.append((p1, t))
    return pts


def draw_contour(pointPen, C, k=0):
    pointPen.beginPath()
    for pt, t in contour_points(C, k):
        pointPen.addPoint(pt, segmentType=t, smooth=False)
    pointPen.endPath()


def draw_contour_segments(pen, C, k=0):
    """the same outline through a segment pen (closed line/curve contours only)"""
    pts = contour_points(C, k)
    segs = C["segs"]
    # start at the last on-curve point
    pen.moveTo(pts[-1][0])
    i = 0
    for si, t in enumerate(segs):
        if t == "curve":
            pen.curveTo(pts[i][0], pts[i + 1][0], pts[i + 2][0])
            i += 3
        else:
            if si != len(segs) - 1:
                pen.lineTo(pts[i][0])
            i += 1
    pen.closePath()


IMAGE = dict(fileName="img.png", xScale=1, xyScale=0, yxScale=0, yScale=1, xOffset=0, yOffset=0, color=None)


def anchor_dict(i):
    return dict(x=10 + i, y=20 + i, name="a%d" % i)


def guideline_dict(i):
    return dict(x=10 * i + 1, y=5 + i, angle=30, name="g%d" % i)


def build_glyph(g, G):
    """fill the (plain or customised) glyph object g from the spec G through the public API"""
    pen = g.getPointPen()
    for k, C in enumerate(G["contours"]):
        draw_contour(pen, C, k)
    for k, base in enumerate(G["components"]):
        pen.addComponent(base, (1, 0, 0, 1, 0, 0) if k % 2 == 0 else (1, 0, 0, 1, 30 * k, 10))
    for i in range(G["anchors"]):
        g.appendAnchor(anchor_dict(i))
    for i in range(G["guidelines"]):
        g.appendGuideline(guideline_dict(i))
    if G["image"]:
        g.image = dict(IMAGE)
    if G["lib"]:
        g.lib["com.verif.k"] = 1
    if G.get("unicodes"):
        g.unicodes = list(G["unicodes"])
    g.width = 500


def build_font(F, content):
    """fill a plain font from a content spec"""
    for L in content["layers"]:
        if L["name"] == DEFAULT_LAYER:
            layer = F.layers.defaultLayer
        else:
            layer = F.newLayer(L["name"])
        for name in sorted(L["glyphs"]):
            build_glyph(layer.newGlyph(name), L["glyphs"][name])
        if L.get("lib"):
            layer.lib["com.verif.layer"] = 1
    for i in range(content.get("fontGuidelines", 0)):
        F.appendGuideline(guideline_dict(i))
    F.info.familyName = "Verif"
    if content.get("kerning"):
        F.kerning[("A", "B")] = -10
    if content.get("groups"):
        F.groups["public.kern1.A"] = ["A"]
    if content.get("features"):
        F.features.text = "# nothing\n"
    if content.get("lib"):
        F.lib["com.verif.font"] = 1


def glyph_roles(G):
    """roles of the objects that building G creates inside an existing glyph"""
    res = set()
    if G["contours"]:
        res.add("contour")
        if any(C["segs"] for C in G["contours"]):
            res.add("point")
    if G["components"]:
        res.add("component")
    if G["anchors"]:
        res.add("anchor")
    if G["guidelines"]:
        res.add("guideline")
    return res


GLYPH_SHELL = {"glyph", "lib", "image"}
LAYER_SHELL = {"layer", "lib", "unicodeData"}
FONT_SHELL = {"layerSet", "imageSet", "dataSet", "lib", "unicodeData"}


def fresh_order(C):
    """segment types in the order of defcon's Contour.segments for a closed contour drawn from C"""
    s = list(C["segs"])
    if not C["closed"] or not s:
        return None
    return s[1:] + s[:1]


def tcontour(C):
    return dict(closed=C["closed"], n=len(C["segs"]), order=fresh_order(C),
                plain=C["closed"] and bool(C["segs"]) and all(t in ("line", "curve") for t in C["segs"]),
                pts=bool(C["segs"]))


def tglyph(G):
    return dict(contours=[tcontour(C) for C in G["contours"]], components=list(G["components"]),
                anchors=G["anchors"], guidelines=G["guidelines"])


# ---------------------------------------------------------------------------------------
# Tracker: what the generated content makes each operation create (generator-side knowledge)
# ---------------------------------------------------------------------------------------

class Tracker(object):
    def __init__(self, case):
        self.case = case
        self.lazy = bool(case.get("lazy"))
        self.layers = None       # name -> {glyph name -> tglyph}
        self.disk = None         # content spec on disk (when the font has a path)
        self.has_path = False
        self.touched = set()
        self.fg_mem = 0
        self.started = False
        self.closed_fs = set()   # layers added by reloadLayers: their glyph set sits on a closed filesystem
        self.extra = []          # further (path, roles) queries of the operation just applied
        self.foreign_src = bool(case.get("src_custom"))

    # -- helpers ----------------------------------------------------------------------
    def glyph(self, layer, name):
        L = self.layers.get(layer) if self.layers is not None else None
        if L is None:
            return None
        return L.get(name)

    def touch(self, part, expect):
        if part in self.touched:
            return
        parts = [part]
        if part in ("kerning", "groups") and self.has_path:
            parts = ["kerning", "groups"]
        for p in parts:
            if p in self.touched:
                continue
            self.touched.add(p)
            expect.add(p)
            if p == "info" and self.has_path and self.disk.get("fontGuidelines", 0) > 0:
                self.fg_mem = self.disk["fontGuidelines"]
                expect.add("guideline")

    def content_roles(self, layers, fg):
        res = set()
        for L in layers.values():
            res |= LAYER_SHELL
            for G in L.values():
                res |= GLYPH_SHELL
                res |= self.tglyph_roles(G)
        if fg:
            res.add("guideline")
        return res

    @staticmethod
    def tglyph_roles(G):
        res = set()
        if G["contours"]:
            res.add("contour")
            if any(c["pts"] for c in G["contours"]):
                res.add("point")
        if G["components"]:
            res.add("component")
        if G["anchors"]:
            res.add("anchor")
        if G["guidelines"]:
            res.add("guideline")
        return res

    def flat_contours(self, layer, base, depth=0):
        """contours that drawing glyph `base` through the decompose pen produces (components flattened)"""
        G = self.glyph(layer, base)
        if G is None or depth > 20:
            return []
        res = [dict(c) for c in G["contours"]]
        for b in G["components"]:
            res.extend(self.flat_contours(layer, b, depth + 1))
        return res

    def comps_ok(self, comps, name):
        return all(b < name for b in comps)

    def copy_path(self):
        return "copyForeign" if self.foreign_src else "insertGlyph"

    # -- operations -------------------------------------------------------------------
    def apply(self, op):
        """-> (valid, path name, expected new roles)"""
        self.extra = []
        try:
            r = self._apply(op)
        except (KeyError, IndexError, TypeError, ValueError):
            r = None
        if r is None:
            return False, "create", set()
        path, expect = r
        return True, path, expect

    def sweep_touch(self, expect):
        """an eager sweep reads font.info/kerning/groups/features: they are created at that moment"""
        if not self.lazy and self.started:
            for p in LAZY_PARTS:
                self.touch(p, expect)

    def destructive(self, op):
        """may the operation remove objects created since the last sweep? (then a sweep is taken before it,
        so that `expected new roles` stays a statement about objects that are still reachable)"""
        k = op[0]
        if k in ("copyData", "deserializeGlyph", "deserializeContour", "deserialize", "reloadGlyphs", "removeSegment",
                 "decompose", "deserializeLayer", "stalePen"):
            return True
        if k in ("appendAnchor", "appendGuideline") and op[3] in ("list", "empty"):
            return True
        if k == "fontGuideline" and op[1] == "list":
            return True
        if k == "reloadPart" and op[1] == "info":
            return True
        try:
            if k == "newGlyph":
                return op[2] in self.layers[op[1]]
            if k == "insertGlyph":
                return op[3] in self.layers[op[2]]
        except (KeyError, TypeError, IndexError):
            return True
        return False

    def _apply(self, op):
        k = op[0]
        case = self.case
        if k in ("open", "new"):
            if self.started:
                return None
            self.started = True
            self.touched = set()
            if k == "open":
                content = case["content"]
                self.disk = copy.deepcopy(content)
                self.has_path = True
                self.layers = dict((L["name"], dict((n, tglyph(G)) for n, G in L["glyphs"].items()))
                                   for L in content["layers"])
                self.fg_mem = 0
                return "load", FONT_SHELL | self.content_roles(self.layers, 0)
            self.layers = {DEFAULT_LAYER: {}}
            self.has_path = False
            self.fg_mem = 0
            return "create", FONT_SHELL | LAYER_SHELL
        if not self.started:
            return None
        if k == "newGlyph":
            _, layer, name = op
            self.layers[layer][name] = tglyph(dict(contours=[], components=[], anchors=0, guidelines=0))
            return "create", set(GLYPH_SHELL)
        if k == "newLayer":
            _, name = op
            if name in self.layers:
                return None
            self.layers[name] = {}
            return "create", set(LAYER_SHELL)
        if k in ("insertGlyph", "copyData", "deserializeGlyph"):
            _, src, layer, dst = op
            G = case["src"]["layers"][0]["glyphs"][src]
            if not self.comps_ok(G["components"], dst):
                return None
            if k == "insertGlyph":
                if layer not in self.layers:
                    return None
                self.layers[layer][dst] = tglyph(G)
                return self.copy_path(), GLYPH_SHELL | glyph_roles(G)
            T = self.layers[layer][dst]
            if k == "copyData":
                # copyDataFromGlyph replaces anchors/guidelines, ADDS outlines
                new = tglyph(G)
                T["anchors"] = new["anchors"]
                T["guidelines"] = new["guidelines"]
                T["contours"].extend(new["contours"])
                if not self.comps_ok(T["components"] + new["components"], dst):
                    return None
                T["components"].extend(new["components"])
                return self.copy_path(), glyph_roles(G)
            self.layers[layer][dst] = tglyph(G)
            return "deserialize", glyph_roles(G)
        if k in ("appendAnchor", "appendGuideline"):
            _, layer, g, kind = op
            T = self.layers[layer][g]
            key = "anchors" if k == "appendAnchor" else "guidelines"
            role = "anchor" if k == "appendAnchor" else "guideline"
            if kind == "list":
                T[key] = 2
            elif kind == "empty":
                T[key] = 0
                return "dictAppend", set()
            else:
                T[key] += 1
            return "dictAppend", {role}
        if k == "fontGuideline":
            _, kind = op
            expect = set()
            # Incidental defcon behaviour (not a C15 matter): the first access to font.info of a font that has a
            # path reads fontinfo.plist, whose `guidelines` entry REPLACES the guidelines in memory - and
            # insertGuideline touches font.info only AFTER inserting.  So a guideline appended before info was
            # first read is dropped again (it was created with the right class, but is not reachable).
            # (Before the F36 fix a guideline appended before info was first read was dropped again when the
            # lazy info load replaced the list; insertGuideline/clearGuidelines now read info first.)
            replace = "info" not in self.touched and self.has_path
            fg_disk = self.disk.get("fontGuidelines", 0) if self.has_path else 0
            self.touch("info", expect)
            if replace:
                self.fg_mem = fg_disk
            expect.add("guideline")
            if kind == "list":
                self.fg_mem = 2
            else:
                self.fg_mem += 1
            return "dictAppend", expect
        if k == "factory":
            _, which = op
            role = FACTORIES[which]
            expect = {role}
            if which == "glyph.contourDict":
                expect.add("point")
            return "factory", expect
        if k == "penDraw":
            _, layer, g, C, kind, comp = op
            T = self.layers[layer][g]
            if kind == "segment" and not tcontour(C)["plain"]:
                return None
            if comp is not None and not (comp < g):
                return None
            tc = tcontour(C)
            if kind == "segment":
                tc["order"] = None
            T["contours"].append(tc)
            expect = {"contour"}
            if tc["pts"]:
                expect.add("point")
            if comp is not None:
                T["components"].append(comp)
                expect.add("component")
            return "penDraw", expect
        if k == "reverse":
            _, layer, g, ci, how = op
            c = self.layers[layer][g]["contours"][ci]
            if ci < 0:
                return None
            c["order"] = None
            return "reverse", ({"point"} if c["pts"] else set())
        if k == "split":
            _, layer, g, ci, kk = op
            c = self.layers[layer][g]["contours"][ci]
            if ci < 0 or not c["plain"] or c["n"] < 2:
                return None
            c["n"] += 1
            c["order"] = None
            return "pointInsertion", {"point"}
        if k == "removeSegment":
            _, layer, g, ci, kk, preserve = op
            c = self.layers[layer][g]["contours"][ci]
            if ci < 0 or not c["plain"] or c["order"] is None or c["n"] < 3:
                return None
            o = c["order"]
            n = len(o)
            i = kk % n
            prev, seg, nxt = o[i - 1], o[i], o[(i + 1) % n]
            new = bool(preserve) and not (prev == seg == nxt == "line") and nxt != "curve"
            c["n"] -= 1
            c["order"] = None
            return "pointInsertion", ({"point"} if new else set())
        if k == "appendPoint":
            _, layer, g, ci, how = op
            c = self.layers[layer][g]["contours"][ci]
            if ci < 0:
                return None
            c["order"] = None
            c["pts"] = True
            c["n"] += 1
            if not c["closed"]:
                c["plain"] = False
            return "pointInsertion", {"point"}
        if k == "decompose":
            _, layer, g, which = op
            T = self.layers[layer][g]
            if not T["components"]:
                return None
            if which == "all":
                bases = list(T["components"])
                T["components"] = []
            else:
                if which < 0 or which >= len(T["components"]):
                    return None
                bases = [T["components"].pop(which)]
            new = []
            for b in bases:
                new.extend(self.flat_contours(layer, b))
            T["contours"].extend(new)
            expect = set()
            if new:
                expect.add("contour")
                if any(c["pts"] for c in new):
                    expect.add("point")
            return "decompose", expect
        if k == "reloadGlyphs":
            _, layer, items = op
            if not self.has_path or layer not in self.layers or layer in self.closed_fs:
                return None
            dl = [L for L in self.disk["layers"] if L["name"] == layer]
            if not dl:
                return None
            for name, G in items:
                if not self.comps_ok(G["components"], name):
                    return None
                # only glyphs the layer's glyph set knows (on disk when the layer was read) and that are in
                # memory can be reloaded: the glyph set's contents are not refreshed by reloadGlyphs
                if name not in self.layers[layer] or name not in dl[0]["glyphs"]:
                    return None
            expect = set()
            for name, G in items:
                expect |= glyph_roles(G)
                self.layers[layer][name] = tglyph(G)
                dl[0]["glyphs"][name] = copy.deepcopy(G)
            return "reload", expect
        if k == "reloadLayers":
            _, name, glyphs = op
            if not self.has_path or name in self.layers or any(L["name"] == name for L in self.disk["layers"]):
                return None
            for gname, G in glyphs.items():
                if not self.comps_ok(G["components"], gname):
                    return None
            self.disk["layers"].append(dict(name=name, glyphs=copy.deepcopy(glyphs), lib=True))
            self.layers[name] = dict((n, tglyph(G)) for n, G in glyphs.items())
            # (LayerSet.reloadLayers used to hand the new layer a glyph set of a reader it closed on return, so that
            # reloadGlyphs on it raised; repaired in /repo 3897bb3: such layers are reloaded like any other)
            expect = set(LAYER_SHELL)
            for G in glyphs.values():
                expect |= GLYPH_SHELL | glyph_roles(G)
            return "reload", expect
        if k == "reloadPart":
            _, part = op
            if not self.has_path:
                return None
            expect = set()
            if part in ("lib", "images", "data"):
                # the image set and the data set are made with the font; reloading re-reads their files
                return "reload", expect
            if part in self.touched:
                if part == "info":
                    # reloadInfo reloads the font guidelines stored in fontinfo.plist (repaired in /repo 2953b5b;
                    # it used to drop them): new guideline objects, made by the font's guideline slot
                    self.fg_mem = self.disk.get("fontGuidelines", 0)
                    if self.fg_mem:
                        expect.add("guideline")
                return "reload", expect
            self.touch(part, expect)
            return "reload", expect
        if k == "touch":
            _, part = op
            expect = set()
            self.touch(part, expect)
            return ("load" if self.has_path else "create"), expect
        if k == "deserialize":
            _, source, how = op
            if source == "self":
                layers = copy.deepcopy(self.layers)
                fg = self.fg_mem
                if "info" not in self.touched and self.has_path:
                    fg = self.disk.get("fontGuidelines", 0) or fg
            elif source == "src":
                content = case["src"]
                layers = dict((L["name"], dict((n, tglyph(G)) for n, G in L["glyphs"].items())) for L in content["layers"])
                fg = content.get("fontGuidelines", 0)
            else:
                if not self.has_path:
                    return None
                layers = dict((L["name"], dict((n, tglyph(G)) for n, G in L["glyphs"].items())) for L in self.disk["layers"])
                fg = self.disk.get("fontGuidelines", 0)
            self.layers = layers
            self.fg_mem = fg
            self.has_path = False
            self.disk = None
            self.closed_fs = set()
            self.touched = set(LAZY_PARTS)
            return "deserialize", FONT_SHELL | set(LAZY_PARTS) | self.content_roles(layers, fg)
        if k == "deserializeContour":
            _, layer, g, ci, C = op
            c = self.layers[layer][g]["contours"][ci]
            if ci < 0:
                return None
            self.layers[layer][g]["contours"][ci] = tcontour(C)
            return "deserialize", ({"point"} if C["segs"] else set())
        if k == "props":
            return "props", set()
        if k in ("foreign", "census"):
            return k, set()
        if k == "deserializeLayers":
            # LayerSet.setDataFromSerialization: a NEW layer filled from the source font's default layer
            _, name = op
            if name in self.layers:
                return None
            glyphs = case["src"]["layers"][0]["glyphs"]
            self.layers[name] = dict((n, tglyph(G)) for n, G in glyphs.items())
            expect = set(LAYER_SHELL)
            for G in glyphs.values():
                expect |= GLYPH_SHELL | glyph_roles(G)
            return "deserializeParts", expect
        if k == "deserializeLayer":
            # Layer.setDataFromSerialization on an existing layer: the source's glyphs replace / join its glyphs
            _, layer = op
            if layer not in self.layers:
                return None
            glyphs = case["src"]["layers"][0]["glyphs"]
            expect = set()
            for n, G in glyphs.items():
                self.layers[layer][n] = tglyph(G)
                expect |= GLYPH_SHELL | glyph_roles(G)
            return "deserializeParts", expect
        if k == "deserializeSub":
            # anchor / guideline / component / image / lib .setDataFromSerialization with their own data: nothing new
            _, layer, g = op
            self.layers[layer][g]
            return "deserializeParts", set()
        if k == "free":
            # a glyph / contour that is in no layer / glyph, driven through the creating API
            _, what, how, spec = op
            if how not in ("factory", "own", "registered"):
                return None
            if what == "glyph":
                if spec["components"] and not self.comps_ok(spec["components"], "Z"):
                    return None
                expect = {"lib", "image"} | glyph_roles(spec)
                if how == "factory":
                    expect.add("glyph")
                    return "freeStanding", expect
                return "free:Glyph:" + how, expect
            if what == "contour":
                expect = {"point"}       # the script always appends a point made by contour.pointClass
                if how == "factory":
                    expect.add("contour")
                    return "freeStanding", expect
                return "free:Contour:" + how, expect
            return None
        if k == "stalePen":
            # a pen obtained from the glyph, the glyph leaves its layer (deleted / replaced by newGlyph), then the pen draws
            _, layer, g, C, kind, how = op
            T = self.layers[layer][g]
            if kind == "segment" and not tcontour(C)["plain"]:
                return None
            if how == "deleted":
                del self.layers[layer][g]
            elif how == "replaced":
                self.layers[layer][g] = tglyph(dict(contours=[], components=[], anchors=0, guidelines=0))
                self.extra.append(("create", set(GLYPH_SHELL)))
            else:
                return None
            expect = {"contour", "component"}
            if tcontour(C)["pts"]:
                expect.add("point")
            return "stalePen", expect
        if k == "noise":
            _, kind, layer, g = op
            T = self.layers[layer][g]
            if kind == "flattened" and not any(c["plain"] for c in T["contours"]):
                return None
            return "create", set()
        return None


# ---------------------------------------------------------------------------------------
# generation
# ---------------------------------------------------------------------------------------

GLYPH_NAMES = ["A", "B", "C", "D", "E"]


def gen_contour(rng, odd=True):
    r = rng.random()
    if odd and r < 0.06:
        return dict(closed=True, segs=[])
    if odd and r < 0.18:
        return dict(closed=False, segs=["move"] + [rng.choice(["line", "curve"]) for _ in range(rng.randint(1, 3))])
    if odd and r < 0.26:
        s = [rng.choice(["line", "curve", "qcurve"]) for _ in range(rng.randint(3, 4))]
        s[rng.randrange(len(s))] = "qcurve"
        return dict(closed=True, segs=s)
    n = rng.randint(3, 5)
    s = [rng.choice(["line", "curve"]) for _ in range(n)]
    if rng.random() < 0.6:
        # make sure both kinds occur: removeSegment(preserveCurve) only makes points next to a curve
        s[rng.randrange(n)] = "curve"
        s[rng.randrange(n)] = "line"
    return dict(closed=True, segs=s)


def gen_glyph(rng, name, rich=None):
    rich = rng.random() < 0.6 if rich is None else rich
    bases = [b for b in GLYPH_NAMES if b < name]
    if not rich and rng.random() < 0.3:
        return dict(contours=[], components=[], anchors=0, guidelines=0, image=False, lib=False, unicodes=[])
    return dict(
        contours=[gen_contour(rng) for _ in range(rng.choice([0, 1, 1, 2, 3]))],
        components=[rng.choice(bases) for _ in range(rng.choice([0, 0, 1, 2]))] if bases else [],
        anchors=rng.choice([0, 0, 1, 2]),
        guidelines=rng.choice([0, 0, 1, 2]),
        image=rng.random() < 0.4,
        lib=rng.random() < 0.5,
        unicodes=[65 + GLYPH_NAMES.index(name)] if name in GLYPH_NAMES and rng.random() < 0.5 else [],
    )


def gen_content(rng, min_glyphs=0):
    layers = []
    names = [n for n in GLYPH_NAMES if rng.random() < 0.6]
    while len(names) < min_glyphs:
        names = sorted(set(names + [rng.choice(GLYPH_NAMES)]))
    layers.append(dict(name=DEFAULT_LAYER, glyphs=dict((n, gen_glyph(rng, n)) for n in names), lib=rng.random() < 0.5))
    if rng.random() < 0.4:
        bn = [n for n in GLYPH_NAMES if rng.random() < 0.3]
        layers.append(dict(name="background", glyphs=dict((n, gen_glyph(rng, n)) for n in bn), lib=rng.random() < 0.5))
    return dict(layers=layers, fontGuidelines=rng.choice([0, 0, 1, 2]), kerning=rng.random() < 0.6,
                groups=rng.random() < 0.6, features=rng.random() < 0.6, lib=rng.random() < 0.6)


def gen_custom(rng):
    r = rng.random()
    if r < 0.15:
        roles = list(ROLES)
    elif r < 0.22:
        roles = []
    elif r < 0.37:
        roles = [rng.choice(ROLES)]
    else:
        p = rng.choice([0.2, 0.5, 0.8])
        roles = [x for x in ROLES if rng.random() < p]
    return dict((x, rng.randint(1, 9)) for x in roles)


def _pick_glyph(rng, tr, pred=None):
    cands = []
    for ln, L in tr.layers.items():
        for gn, G in L.items():
            if pred is None or pred(G):
                cands.append((ln, gn))
    if not cands:
        return None
    return rng.choice(sorted(cands))


def gen_op(rng, tr, case):
    """a candidate operation (validity is decided by the tracker)"""
    kinds = ["newGlyph", "newLayer", "insertGlyph", "copyData", "appendAnchor", "appendGuideline", "fontGuideline",
             "factory", "penDraw", "penDraw", "reverse", "reverse", "split", "removeSegment", "removeSegment", "appendPoint",
             "decompose", "decompose", "reloadGlyphs", "reloadLayers", "reloadPart", "reloadPart", "touch", "deserialize",
             "deserializeGlyph", "deserializeContour", "props", "noise",
             "deserializeLayers", "deserializeLayer", "deserializeSub", "free", "free", "stalePen", "stalePen", "foreign",
             "foreign"]
    k = rng.choice(kinds)
    src_names = sorted(case["src"]["layers"][0]["glyphs"])
    layers = sorted(tr.layers)
    if k == "newGlyph":
        return [k, rng.choice(layers), rng.choice(GLYPH_NAMES)]
    if k == "newLayer":
        return [k, rng.choice(["background", "sketch", "L3"])]
    if k in ("insertGlyph",):
        return [k, rng.choice(src_names), rng.choice(layers), rng.choice(GLYPH_NAMES + ["Z"])]
    if k in ("copyData", "deserializeGlyph"):
        t = _pick_glyph(rng, tr)
        if t is None:
            return None
        return [k, rng.choice(src_names), t[0], t[1]]
    if k in ("appendAnchor", "appendGuideline"):
        t = _pick_glyph(rng, tr)
        if t is None:
            return None
        return [k, t[0], t[1], rng.choice(["dict", "dict", "foreign", "list", "empty"])]
    if k == "fontGuideline":
        return [k, rng.choice(["dict", "dict", "foreign", "list"])]
    if k == "factory":
        return [k, rng.choice(sorted(FACTORIES))]
    if k == "penDraw":
        t = _pick_glyph(rng, tr)
        if t is None:
            return None
        kind = rng.choice(["point", "point", "segment"])
        C = gen_contour(rng, odd=(kind == "point"))
        comp = None
        if rng.random() < 0.35:
            bases = [b for b in GLYPH_NAMES if b < t[1]]
            comp = rng.choice(bases) if bases else None
        return [k, t[0], t[1], C, kind, comp]
    if k in ("reverse", "appendPoint", "deserializeContour"):
        t = _pick_glyph(rng, tr, lambda G: G["contours"])
        if t is None:
            return None
        ci = rng.randrange(len(tr.layers[t[0]][t[1]]["contours"]))
        if k == "reverse":
            return [k, t[0], t[1], ci, rng.choice(["reverse", "reverse", "clockwise", "detached-reverse", "detached-clockwise"])]
        if k == "appendPoint":
            return [k, t[0], t[1], ci, rng.choice(["append", "insert"])]
        return [k, t[0], t[1], ci, gen_contour(rng)]
    if k in ("split", "removeSegment"):
        t = _pick_glyph(rng, tr, lambda G: any(c["plain"] and (k == "split" or c["order"]) for c in G["contours"]))
        if t is None:
            return None
        cs = tr.layers[t[0]][t[1]]["contours"]
        ci = rng.choice([i for i, c in enumerate(cs) if c["plain"] and (k == "split" or c["order"])])
        if k == "split":
            return [k, t[0], t[1], ci, rng.randrange(6)]
        return [k, t[0], t[1], ci, rng.randrange(6), rng.random() < 0.8]
    if k == "decompose":
        t = _pick_glyph(rng, tr, lambda G: G["components"])
        if t is None:
            return None
        n = len(tr.layers[t[0]][t[1]]["components"])
        return [k, t[0], t[1], rng.choice(["all", rng.randrange(n)])]
    if k == "reloadGlyphs":
        if not tr.has_path:
            return None
        ln = rng.choice([L["name"] for L in tr.disk["layers"]])
        names = [n for n in GLYPH_NAMES if rng.random() < 0.4] or [rng.choice(GLYPH_NAMES)]
        return [k, ln, [[n, gen_glyph(rng, n, rich=True)] for n in names]]
    if k == "reloadLayers":
        names = [n for n in GLYPH_NAMES if rng.random() < 0.4]
        return [k, rng.choice(["ext1", "ext2"]), dict((n, gen_glyph(rng, n, rich=True)) for n in names)]
    if k == "reloadPart":
        return [k, rng.choice(["info", "kerning", "groups", "features", "lib", "images", "data"])]
    if k == "deserializeLayers":
        return [k, rng.choice(["ds1", "ds2"])]
    if k == "deserializeLayer":
        return [k, rng.choice(layers)]
    if k == "deserializeSub":
        t = _pick_glyph(rng, tr)
        if t is None:
            return None
        return [k, t[0], t[1]]
    if k == "free":
        how = rng.choice(["factory", "own", "registered"])
        if rng.random() < 0.5:
            return [k, "glyph", how, gen_glyph(rng, "E", rich=True)]
        return [k, "contour", how, gen_contour(rng)]
    if k == "stalePen":
        t = _pick_glyph(rng, tr)
        if t is None:
            return None
        kind = rng.choice(["point", "point", "segment"])
        return [k, t[0], t[1], gen_contour(rng, odd=(kind == "point")), kind, rng.choice(["deleted", "replaced"])]
    if k == "foreign":
        return [k, rng.choice(sorted(ENTRIES)), rng.choice(FOREIGN_KINDS)]
    if k == "touch":
        return [k, rng.choice(LAZY_PARTS)]
    if k == "deserialize":
        return [k, rng.choice(["self", "self", "src", "shallow"]), rng.choice(["data", "pickle"])]
    if k == "props":
        return [k, rng.choice(["Glyph", "Contour"])]
    if k == "noise":
        t = _pick_glyph(rng, tr, lambda G: any(c["plain"] for c in G["contours"]))
        if t is None:
            return None
        return [k, "flattened", t[0], t[1]]
    return None


def gen_case(rng, maxops):
    case = dict(custom=gen_custom(rng), lazy=rng.random() < 0.5, sweep=rng.choice([1, 1, 1, 2, 3, 99]),
                content=gen_content(rng), src=gen_content(rng, min_glyphs=2), ops=[])
    # the source font of insertGlyph / copyData / deserialize is itself built with (other) registered classes, or plain
    case["src_custom"] = gen_custom(rng) if rng.random() < 0.6 else {}
    case["src"]["layers"] = case["src"]["layers"][:1]
    tr = Tracker(case)
    first = ["open"] if rng.random() < 0.7 else ["new"]
    tr.apply(first)
    case["ops"].append(first)
    n = rng.randint(3, maxops)
    tries = 0
    while len(case["ops"]) < n + 1 and tries < 200:
        tries += 1
        op = gen_op(rng, tr, case)
        if op is None:
            continue
        saved = copy.deepcopy((tr.layers, tr.disk, tr.has_path, tr.touched, tr.fg_mem, tr.closed_fs))
        ok, _, _ = tr.apply(op)
        if ok:
            case["ops"].append(op)
        else:
            tr.layers, tr.disk, tr.has_path, tr.touched, tr.fg_mem, tr.closed_fs = saved
    return case


def kitchen_sink(rng, custom, sweep=1, src_custom=None, reload_tail=False):
    """one long directed history that runs every creation path on a rich font"""
    G1 = dict(contours=[dict(closed=True, segs=["line", "curve", "line", "line"]), dict(closed=False, segs=["move", "line", "curve"])],
              components=[], anchors=2, guidelines=1, image=True, lib=True, unicodes=[65])
    G2 = dict(contours=[dict(closed=True, segs=["curve", "curve", "line"])], components=["A"], anchors=1, guidelines=1,
              image=False, lib=False, unicodes=[])
    G3 = dict(contours=[], components=["A", "B"], anchors=0, guidelines=0, image=False, lib=False, unicodes=[])
    content = dict(layers=[dict(name=DEFAULT_LAYER, glyphs=dict(A=G1, B=G2, C=G3), lib=True),
                           dict(name="background", glyphs=dict(A=dict(G1)), lib=False)],
                   fontGuidelines=1, kerning=True, groups=True, features=True, lib=True)
    src = dict(layers=[dict(name=DEFAULT_LAYER, glyphs=dict(A=G1, B=G2), lib=True)], fontGuidelines=1, kerning=True,
               groups=True, features=True, lib=True)
    D = DEFAULT_LAYER
    ops = [["open"], ["props", "Glyph"], ["props", "Contour"], ["touch", "info"], ["touch", "kerning"], ["touch", "features"],
           ["newGlyph", D, "D"], ["newLayer", "sketch"], ["insertGlyph", "B", D, "E"], ["copyData", "A", D, "D"],
           ["appendAnchor", D, "A", "dict"], ["appendAnchor", D, "A", "foreign"], ["appendAnchor", D, "A", "list"],
           ["appendGuideline", D, "A", "dict"], ["appendGuideline", D, "A", "foreign"], ["appendGuideline", D, "A", "list"],
           ["fontGuideline", "dict"], ["fontGuideline", "foreign"], ["fontGuideline", "list"]]
    ops += [["factory", w] for w in sorted(FACTORIES)]
    ops += [["penDraw", D, "D", dict(closed=True, segs=["line", "curve", "line"]), "point", "A"],
            ["penDraw", D, "D", dict(closed=True, segs=["line", "curve", "line"]), "segment", None],
            ["reverse", D, "A", 0, "reverse"], ["reverse", D, "A", 1, "clockwise"], ["reverse", D, "A", 0, "reverse"],
            ["reverse", D, "A", 0, "detached-reverse"], ["reverse", D, "A", 1, "detached-clockwise"],
            ["split", D, "B", 0, 1], ["split", D, "B", 0, 2],
            ["removeSegment", "background", "A", 0, 0, True], ["removeSegment", D, "E", 0, 1, True],
            ["appendPoint", D, "A", 0, "append"], ["appendPoint", D, "A", 1, "insert"],
            ["decompose", D, "C", 0], ["decompose", D, "C", "all"], ["decompose", D, "E", "all"],
            ["reloadGlyphs", D, [["A", dict(G1, anchors=1)], ["B", G2]]],
            ["reloadLayers", "ext1", dict(A=dict(G1), B=G2)],
            ["reloadPart", "info"], ["reloadPart", "kerning"], ["reloadPart", "groups"], ["reloadPart", "features"],
            ["reloadPart", "lib"],
            ["deserializeGlyph", "A", D, "D"], ["deserializeContour", D, "A", 0, dict(closed=True, segs=["line", "line", "curve"])],
            ["noise", "flattened", D, "B"],
            ["deserialize", "shallow", "data"], ["reverse", D, "A", 0, "reverse"], ["decompose", D, "B", "all"],
            ["deserialize", "self", "pickle"], ["reverse", D, "A", 0, "reverse"], ["split", D, "A", 0, 0],
            ["deserialize", "src", "data"], ["reverse", D, "A", 0, "reverse"], ["appendAnchor", D, "A", "dict"]]
    # round 3: reloads of every part, serialisation below the font, free-standing objects, stale pens, objects handed in
    GF = dict(contours=[dict(closed=True, segs=["line", "curve", "line", "line", "curve"]), dict(closed=False, segs=["move", "line", "curve"])],
              components=["A"], anchors=2, guidelines=1, image=True, lib=True, unicodes=[])
    CF = dict(closed=True, segs=["line", "curve", "line", "line", "curve"])
    ops += [["deserializeLayers", "ds1"], ["deserializeLayer", D], ["deserializeSub", D, "A"],
            ["insertGlyph", "B", D, "E"], ["copyData", "A", D, "E"]]
    for how in ("factory", "own", "registered"):
        ops += [["free", "glyph", how, GF], ["free", "contour", how, CF]]
    ops += [["stalePen", D, "A", dict(closed=True, segs=["line", "curve", "line"]), "point", "deleted"],
            ["stalePen", D, "B", dict(closed=True, segs=["line", "curve", "line"]), "segment", "replaced"],
            ["stalePen", "ds1", "A", dict(closed=False, segs=["move", "line"]), "point", "replaced"]]
    ops += [["foreign", e, kind] for e in sorted(ENTRIES) for kind in FOREIGN_KINDS]
    if reload_tail:
        # a second font read from the UFO: reloads after external edits of parts that were / were not read before
        ops2 = [["open"], ["reloadPart", "info"], ["reloadPart", "kerning"], ["touch", "info"], ["reloadPart", "info"],
                ["reloadPart", "images"], ["reloadPart", "data"], ["reloadPart", "lib"], ["reloadPart", "groups"],
                ["reloadPart", "features"], ["reloadGlyphs", D, [["A", dict(G1, anchors=1, guidelines=2)], ["C", G3]]],
                ["reloadLayers", "ext1", dict(A=dict(G1), B=G2)], ["reloadGlyphs", "background", [["A", dict(G1, image=False)]]]]
        return dict(custom=custom, lazy=True, sweep=sweep, content=content, src=src, src_custom=src_custom or {}, ops=ops2)
    ops.append(["census", list(CENSUS_NEVER)])
    return dict(custom=custom, lazy=True, sweep=sweep, content=content, src=src, src_custom=src_custom or {}, ops=ops,
                census_ops=len(ops))


def generate(rng, tier):
    n, maxops = (600, 9) if tier == "quick" else (10000, 14)
    # directed histories first: every path, all roles / one role at a time
    allc = dict((r, i + 1) for i, r in enumerate(ROLES))
    srcc = dict((r, 9 - i % 9) for i, r in enumerate(ROLES))
    yield kitchen_sink(rng, allc, src_custom=srcc)
    yield kitchen_sink(rng, {})
    yield kitchen_sink(rng, allc, sweep=4)
    yield kitchen_sink(rng, allc, src_custom=srcc, reload_tail=True)
    yield kitchen_sink(rng, {}, src_custom=srcc, reload_tail=True)
    for r in (ROLES if tier == "thorough" else rng.sample(ROLES, 5)):
        yield kitchen_sink(rng, {r: 7}, src_custom={r: 3})
    for _ in range(n):
        yield gen_case(rng, maxops)


def neighbourhood(case, step, rng):
    """variants around a diverging step: customise everything / only what the step touches, and follow the
    prefix with the operations that re-create objects"""
    ops = case["ops"]
    prefix = ops[:step + 1] if step >= 1 else ops[:1]
    allc = dict((r, i + 1) for i, r in enumerate(ROLES))
    yield dict(case, custom=allc)
    yield dict(case, custom=allc, ops=prefix)
    tr = Tracker(dict(case, ops=prefix))
    for op in prefix:
        tr.apply(op)
    follow = []
    if tr.layers:
        for ln in sorted(tr.layers):
            for gn in sorted(tr.layers[ln]):
                G = tr.layers[ln][gn]
                for ci in range(len(G["contours"])):
                    follow.append(["reverse", ln, gn, ci, "reverse"])
                    follow.append(["reverse", ln, gn, ci, "detached-reverse"])
                    follow.append(["split", ln, gn, ci, 0])
                    follow.append(["appendPoint", ln, gn, ci, "append"])
                if G["components"]:
                    follow.append(["decompose", ln, gn, "all"])
                follow.append(["appendAnchor", ln, gn, "dict"])
                follow.append(["appendGuideline", ln, gn, "dict"])
    follow += [["deserialize", "self", "data"], ["fontGuideline", "dict"], ["props", "Glyph"], ["props", "Contour"]]
    follow += [["foreign", e, kind] for e in sorted(ENTRIES) if ENTRIES[e] in CONVERTED_ROLES for kind in FOREIGN_KINDS]
    follow += [["free", "glyph", "own", gen_glyph(rng, "E", rich=True)], ["free", "contour", "own", gen_contour(rng, odd=False)],
               ["free", "glyph", "factory", gen_glyph(rng, "E", rich=True)]]
    follow += [["factory", w] for w in sorted(FACTORIES)]
    for f in follow:
        yield dict(case, custom=allc, ops=prefix + [f])
    for r in ROLES:
        yield dict(case, custom={r: 5})


def search(rng, tier, broken):
    """directed search when an obligation over the regenerated table broke: every path, every role"""
    yield kitchen_sink(rng, dict((r, i + 1) for i, r in enumerate(ROLES)))
    for r in ROLES:
        yield kitchen_sink(rng, {r: 3})
    for _ in range(150 if tier == "quick" else 2000):
        c = gen_case(rng, 10)
        c["custom"] = dict((r, i + 1) for i, r in enumerate(ROLES))
        yield c


# ---------------------------------------------------------------------------------------
# model side
# ---------------------------------------------------------------------------------------

def schedule(case):
    """per operation: is it valid, and is the public API swept after it - with the creation-path queries
    (path name, expected new roles) that sweep answers for.  `case["sweep"]` = k sweeps after every k-th
    operation (1 = after each); a sweep is always taken at the end, around a `props` query and before an
    operation that may remove objects.  Between sweeps operations run on whatever is loaded so far."""
    tr = Tracker(case)
    k = max(1, int(case.get("sweep", 1)))
    ops = case["ops"]
    res = []
    pending = []
    since = 0
    for i, op in enumerate(ops):
        ok, path, expect = tr.apply(op)
        e = dict(ok=ok, path=path, expect=expect, props=bool(ok and op[0] == "props"), sweep=False, queries=[],
                 direct=None)
        since += 1
        if e["props"]:
            res.append(e)
            continue
        if ok and op[0] in ("foreign", "census"):
            # answered by the model directly, run on a scratch font: no sweep, nothing pending
            e["direct"] = op[0]
            since -= 1
            res.append(e)
            continue
        if ok:
            pending.append((path, set(expect)))
            pending.extend((p2, set(x2)) for p2, x2 in tr.extra)
        nxt = ops[i + 1] if i + 1 < len(ops) else None
        j = i + 1
        while nxt is not None and nxt[0] in ("foreign", "census"):
            j += 1
            nxt = ops[j] if j < len(ops) else None
        if tr.started and (nxt is None or since >= k or nxt[0] == "props" or tr.destructive(nxt)):
            extra = set()
            tr.sweep_touch(extra)
            if extra:
                pending.append(("load" if tr.has_path else "create", extra))
            e["sweep"] = True
            e["queries"] = pending
            pending = []
            since = 0
        res.append(e)
    return res


def model_lines(case):
    lines = [[Atom("config")] + [[Atom(r), int(i)] for r, i in sorted(case["custom"].items())]]
    for op, e in zip(case["ops"], schedule(case)):
        if e["props"]:
            lines.append([Atom("props"), Atom(op[1])])
        elif e["direct"] == "foreign":
            lines.append([Atom("foreign"), str(op[1]), Atom(op[2])])
        elif e["direct"] == "census":
            if census_live(case):
                lines.append([Atom("census")] + [str(x) for x in op[1]])
            else:
                lines.append([Atom("multi")])
        else:
            lines.append([Atom("multi")] + [query_sexp(path, expect) for path, expect in e["queries"]])
    return lines


def census_live(case):
    """the census of a directed history is compared only while the history is complete (a shrunk or truncated variant
    executes fewer sites by construction: both sides then answer with the empty set)"""
    return case.get("census_ops") == len(case["ops"])


def query_sexp(path, expect):
    roles = [Atom(r) for r in ROLES if r in expect]
    if path.startswith("free:"):
        _, cls, how = path.split(":")
        return [Atom("free"), Atom(cls), Atom(how), roles]
    return [Atom(path), roles]


# ---------------------------------------------------------------------------------------
# implementation side
# ---------------------------------------------------------------------------------------

_DEFAULTS = None
_MARKERS = {}


def defaults():
    global _DEFAULTS
    if _DEFAULTS is None:
        from defcon import (Glyph, Contour, Point, Component, Anchor, Image, Guideline, Lib, Layer, LayerSet, Info,
                            Kerning, Groups, Features, UnicodeData)
        from defcon.objects.imageSet import ImageSet
        from defcon.objects.dataSet import DataSet
        _DEFAULTS = dict(glyph=Glyph, contour=Contour, point=Point, component=Component, anchor=Anchor, image=Image,
                         guideline=Guideline, lib=Lib, layer=Layer, layerSet=LayerSet, info=Info, kerning=Kerning,
                         groups=Groups, features=Features, unicodeData=UnicodeData, imageSet=ImageSet, dataSet=DataSet)
    return _DEFAULTS


def marker(role, i):
    key = (role, i)
    if key not in _MARKERS:
        base = defaults()[role]
        cls = type("U%d_%s" % (i, base.__name__), (base,), {"_verif_marker": (int(i), base.__name__)})
        _MARKERS[key] = cls
    return _MARKERS[key]


def class_tag(obj):
    t = type(obj)
    m = t.__dict__.get("_verif_marker")
    if m is not None:
        return [Atom("user"), m[0], m[1]]
    return [Atom("builtin"), t.__name__]


PNG = b"\x89PNG\r\n\x1a\n" + b"\x00" * 16

_TABLE = {}


def site_table():
    """the creation sites of the regenerated table with their source positions (same extractor run as Gen/ClassWiring.lean)"""
    repo = os.environ.get("DEFCON_REPO", "/repo")
    if repo not in _TABLE:
        t = c15_census.SiteTable(repo)
        lean_dir = os.path.join(os.path.dirname(os.path.dirname(os.path.dirname(os.path.abspath(__file__)))), "lean")
        t.tied = t.error is None and t.tied_to(lean_dir)
        _TABLE[repo] = t
    return _TABLE[repo]


class World(object):
    def __init__(self, case, tmpd):
        c15_census.install(defaults())
        self.census = c15_census.start()
        self.handed = set()     # indices of census records whose object was handed out (swept or returned)
        self.anomalies = []     # census anomalies of the current operation
        self.cmark = 0
        self.X = None           # scratch font with the same registered classes: objects handed in
        self.case = case
        self.tmpd = tmpd
        self.registered = dict((r, marker(r, i)) for r, i in case["custom"].items())
        self.kw = dict((KW[r], c) for r, c in self.registered.items())
        self.required = dict(defaults())
        self.required.update(self.registered)
        self.F = None
        self.S = None
        self.path = None
        self.keep = []          # every object ever seen stays alive (ids unique, no __del__ side effects)
        self.seen = set()
        self.tr = Tracker(case)
        self.viol = []
        self.stats = {}
        self.created_custom = False

    # -- plain source font --------------------------------------------------------------
    def src(self):
        if self.S is None:
            from defcon import Font
            # the source font has its OWN registered classes (other marker classes than the receiving font's)
            kw = dict((KW[r], marker(r, int(i) + SRC_ID_OFFSET)) for r, i in (self.case.get("src_custom") or {}).items())
            self.S = Font(**kw)
            build_font(self.S, self.case["src"])
            self.keep.append(self.S)
        return self.S

    def scratch(self):
        if self.X is None:
            from defcon import Font
            self.X = Font(**self.kw)
            self.keep.append(self.X)
        return self.X

    # -- census ---------------------------------------------------------------------------
    def census_step(self):
        """the constructions since the last call: each one asked for from inside defcon must be a tabled site"""
        tab = site_table()
        recs = self.census.since(self.cmark)
        self.cmark = self.census.mark()
        for role, rel, line, fn, cn, col in recs:
            if rel is None:
                self.stats["census.external." + role] = self.stats.get("census.external." + role, 0) + 1
                continue
            if tab.error is not None:
                continue
            s = tab.lookup(rel, line, fn, col)
            if s is None:
                loc = "%s:%d in %s made %s" % (rel, line, fn, cn)
                self.stats["census.untabled." + loc] = self.stats.get("census.untabled." + loc, 0) + 1
                if loc not in self.anomalies:
                    self.anomalies.append(loc)
            else:
                self.stats["census.site." + s["id"]] = self.stats.get("census.site." + s["id"], 0) + 1

    def census_answer(self):
        """every tabled site this history executed, with the role of what it made - `scratch` when none of the objects
        made there was ever handed out (swept through the public API or returned by a call)"""
        tab = site_table()
        if tab.error is not None:
            return [Atom("extractor-failed"), tab.error[:200]]
        if not tab.tied:
            return [Atom("table-not-the-one-of-Gen/ClassWiring.lean")]
        never = set(self.case["ops"][-1][1]) if self.case["ops"][-1][0] == "census" else set()
        res = {}
        for i, (role, rel, line, fn, cn, col) in enumerate(self.census.records):
            if rel is None:
                continue
            s = tab.lookup(rel, line, fn, col)
            key = s["id"] if s is not None else "?%s:%d" % (rel, line)
            if key in never:
                continue
            d = res.setdefault(key, dict(roles=set(), handed=False))
            d["roles"].add(role)
            if i in self.handed:
                d["handed"] = True
        items = []
        for key in sorted(res):
            for role in sorted(res[key]["roles"]):
                items.append([key, Atom(role if res[key]["handed"] else "scratch")])
        return [Atom("set")] + items

    def write_disk(self, content):
        from defcon import Font
        P = Font()
        build_font(P, content)
        self.path = os.path.join(self.tmpd, "font.ufo")
        P.save(self.path)
        P.close()
        self.keep.append(P)

    def edit_disk(self, fn):
        """an external edit of the UFO by a separate plain font object"""
        from defcon import Font
        P = Font(self.path)
        fn(P)
        P.save()
        P.close()
        self.keep.append(P)

    # -- observation ------------------------------------------------------------------------
    def sweep(self):
        F = self.F
        out = []
        add = out.append
        touched = self.tr.touched
        add(("layerSet", F.layers, "font.layers"))
        add(("imageSet", F.images, "font.images"))
        add(("dataSet", F.data, "font.data"))
        add(("lib", F.lib, "font.lib"))
        add(("lib", F.tempLib, "font.tempLib"))
        add(("unicodeData", F.unicodeData, "font.unicodeData"))
        if "info" in touched:
            add(("info", F.info, "font.info"))
            for g in F.guidelines:
                add(("guideline", g, "font.guidelines"))
        if "kerning" in touched:
            add(("kerning", F.kerning, "font.kerning"))
        if "groups" in touched:
            add(("groups", F.groups, "font.groups"))
        if "features" in touched:
            add(("features", F.features, "font.features"))
        for layer in F.layers:
            add(("layer", layer, "font.layers[]"))
            add(("lib", layer.lib, "layer.lib"))
            add(("lib", layer.tempLib, "layer.tempLib"))
            add(("unicodeData", layer.unicodeData, "layer.unicodeData"))
            for name in sorted(layer.keys()):
                g = layer[name]
                add(("glyph", g, "layer[]"))
                add(("lib", g.lib, "glyph.lib"))
                add(("lib", g.tempLib, "glyph.tempLib"))
                add(("image", g.image, "glyph.image"))
                for c in g:
                    add(("contour", c, "glyph[]"))
                    for p in c:
                        add(("point", p, "contour[]"))
                for c in g.components:
                    add(("component", c, "glyph.components"))
                for a in g.anchors:
                    add(("anchor", a, "glyph.anchors"))
                for a in g.guidelines:
                    add(("guideline", a, "glyph.guidelines"))
        return out

    def observe(self, step, op, returned):
        """new objects since the last observation + what the call returned -> canonical set; oracle on everything"""
        items = list(returned) + self.sweep()
        new = set()
        for role, obj, where in items:
            ci = self.census.by_id.get(id(obj))
            if ci is None:
                loc = "unrecorded %s object at %s" % (role, where)
                if loc not in self.anomalies:
                    self.anomalies.append(loc)
            else:
                self.handed.add(ci)
            if not isinstance(obj, self.required[role]):
                sig = "C15/%s/%s/%s" % (role, op[0], where)
                if not any(v["signature"] == sig for v in self.viol):
                    self.viol.append(dict(clause="C15/" + role, signature=sig, step=step, op=op, where=where,
                                          expected=self.required[role].__name__, observed=type(obj).__name__,
                                          customised=role in self.registered))
            if id(obj) not in self.seen:
                self.seen.add(id(obj))
                self.keep.append(obj)
                tag = class_tag(obj)
                new.add((role, tuple(tag)))
                self.stats["new." + role] = self.stats.get("new." + role, 0) + 1
                if role in self.registered:
                    self.created_custom = True
        return [Atom("set")] + [[Atom(r), list(t)] for r, t in sorted(new, key=repr)]

    # -- operations -------------------------------------------------------------------------
    def glyph(self, layer, name):
        return self.F.layers[layer][name]

    def run(self, step, op):
        from defcon import Font
        k = op[0]
        F = self.F
        ret = []
        if k == "open":
            self.write_disk(self.case["content"])
            self.F = Font(self.path, **self.kw)
            self.keep.append(self.F)
        elif k == "new":
            self.F = Font(**self.kw)
            self.keep.append(self.F)
        elif k == "newGlyph":
            g = F.layers[op[1]].newGlyph(op[2]) if op[1] != DEFAULT_LAYER or step % 2 else F.newGlyph(op[2])
            ret.append(("glyph", g, "newGlyph()"))
        elif k == "newLayer":
            ret.append(("layer", F.newLayer(op[1]), "newLayer()"))
        elif k == "insertGlyph":
            _, src, layer, dst = op
            sg = self.src()[src]
            if layer == DEFAULT_LAYER and step % 2:
                g = F.insertGlyph(sg, name=dst)
            else:
                g = F.layers[layer].insertGlyph(sg, name=dst)
            ret.append(("glyph", g, "insertGlyph()"))
        elif k == "copyData":
            _, src, layer, dst = op
            self.glyph(layer, dst).copyDataFromGlyph(self.src()[src])
        elif k == "deserializeGlyph":
            _, src, layer, dst = op
            data = self.src()[src].getDataForSerialization(blacklist=["name"])
            self.glyph(layer, dst).setDataFromSerialization(data)
        elif k in ("appendAnchor", "appendGuideline"):
            _, layer, gname, kind = op
            g = self.glyph(layer, gname)
            mk = anchor_dict if k == "appendAnchor" else guideline_dict
            n = len(g.anchors) if k == "appendAnchor" else len(g.guidelines)
            if kind == "dict":
                (g.appendAnchor if k == "appendAnchor" else g.appendGuideline)(mk(n + 3))
            elif kind == "foreign":
                # a detached object of defcon's PLAIN class, as one taken out of another font would be
                from defcon import Anchor, Guideline
                obj = Anchor(anchorDict=mk(n + 3)) if k == "appendAnchor" else Guideline(guidelineDict=mk(n + 3))
                self.keep.append(obj)
                (g.appendAnchor if k == "appendAnchor" else g.appendGuideline)(obj)
            else:
                vals = [mk(7), mk(8)] if kind == "list" else []
                if k == "appendAnchor":
                    g.anchors = vals
                else:
                    g.guidelines = vals
        elif k == "fontGuideline":
            kind = op[1]
            if kind == "dict":
                F.appendGuideline(guideline_dict(step))
            elif kind == "foreign":
                from defcon import Guideline
                obj = Guideline(guidelineDict=guideline_dict(step))
                self.keep.append(obj)
                F.appendGuideline(obj)
            else:
                F.guidelines = [guideline_dict(11), guideline_dict(12)]
        elif k == "factory":
            which = op[1]
            role = FACTORIES[which]
            owner, what = which.split(".")
            layer = F.layers.defaultLayer
            if owner == "font":
                o = {"layerSet": F.instantiateLayerSet, "info": F.instantiateInfo, "kerning": F.instantiateKerning,
                     "groups": F.instantiateGroups, "features": F.instantiateFeatures, "lib": F.instantiateLib,
                     "imageSet": F.instantiateImageSet, "dataSet": F.instantiateDataSet,
                     "guideline": lambda: F.instantiateGuideline(guideline_dict(1))}[what]()
            elif owner == "layerSet":
                o = F.layers.instantiateLayer(None)
            elif owner == "layer":
                o = {"glyph": layer.instantiateGlyphObject, "lib": layer.instantiateLib,
                     "unicodeData": layer.instantiateUnicodeData}[what]()
            else:
                g = layer.instantiateGlyphObject()
                self.keep.append(g)
                if what == "contourDict":
                    from defcon import Contour
                    pc = Contour()
                    draw_contour(pc, dict(closed=True, segs=["line", "curve", "line"]))
                    self.keep.append(pc)
                    o = g.instantiateContour(pc.getDataForSerialization())
                    for p in o:
                        ret.append(("point", p, "instantiateContour(dict)[]"))
                elif what == "componentDict":
                    from defcon import Component
                    pc = Component()
                    pc.baseGlyph = "A"
                    self.keep.append(pc)
                    o = g.instantiateComponent(pc.getDataForSerialization())
                else:
                    o = {"contour": g.instantiateContour, "component": g.instantiateComponent,
                         "anchor": lambda: g.instantiateAnchor(anchor_dict(1)),
                         "guideline": lambda: g.instantiateGuideline(guideline_dict(1)),
                         "lib": g.instantiateLib, "image": lambda: g.instantiateImage(dict(IMAGE))}[what]()
            ret.append((role, o, "instantiate:" + which))
        elif k == "penDraw":
            _, layer, gname, C, kind, comp = op
            g = self.glyph(layer, gname)
            n = len(g)
            if kind == "point":
                pen = g.getPointPen()
                draw_contour(pen, C, n)
                if comp is not None:
                    pen.addComponent(comp, (1, 0, 0, 1, 10, 10))
            else:
                pen = g.getPen()
                draw_contour_segments(pen, C, n)
                if comp is not None:
                    pen.addComponent(comp, (1, 0, 0, 1, 10, 10))
        elif k == "reverse":
            _, layer, gname, ci, how = op
            g = self.glyph(layer, gname)
            c = g[ci]
            if how.startswith("detached-"):
                # the contour is reversed while it is outside any glyph (taken out, reversed, put back where it was):
                # the points it is rebuilt from still have to be of the class it was created with
                g.removeContour(c)
            if how.endswith("reverse"):
                c.reverse()
            else:
                c.clockwise = not c.clockwise
            if how.startswith("detached-"):
                g.insertContour(ci, c)
        elif k == "split":
            _, layer, gname, ci, kk = op
            c = self.glyph(layer, gname)[ci]
            c.splitAndInsertPointAtSegmentAndT(kk % len(c.segments), 0.5)
        elif k == "removeSegment":
            _, layer, gname, ci, kk, preserve = op
            c = self.glyph(layer, gname)[ci]
            c.removeSegment(kk % len(c.segments), preserveCurve=bool(preserve))
        elif k == "appendPoint":
            _, layer, gname, ci, how = op
            c = self.glyph(layer, gname)[ci]
            p = c.pointClass((17 + step, 23), segmentType="line")
            # keep the outline legal: a line point may only follow an on-curve point
            pts = list(c)
            if how == "append" and (not pts or pts[-1].segmentType is not None):
                c.appendPoint(p)
            else:
                on = [i for i, q in enumerate(pts) if q.segmentType is not None]
                c.insertPoint(on[0] + 1 if on else 0, p)
            ret.append(("point", p, "contour.pointClass()"))
        elif k == "decompose":
            _, layer, gname, which = op
            g = self.glyph(layer, gname)
            if which == "all":
                g.decomposeAllComponents()
            else:
                g.decomposeComponent(g.components[which])
        elif k == "reloadGlyphs":
            _, layer, items = op

            def edit(P):
                L = P.layers[layer]
                for name, G in items:
                    build_glyph(L.newGlyph(name), G)
            self.edit_disk(edit)
            names = [n for n, _ in items]
            if layer == DEFAULT_LAYER and step % 2:
                F.reloadGlyphs(names)
            else:
                F.reloadLayers(dict(layers={layer: dict(glyphNames=names)}))
        elif k == "reloadLayers":
            _, name, glyphs = op

            def edit(P):
                L = P.newLayer(name)
                L.lib["com.verif.layer"] = 2
                for gn in sorted(glyphs):
                    build_glyph(L.newGlyph(gn), glyphs[gn])
            self.edit_disk(edit)
            F.reloadLayers(dict(layers={name: dict(glyphNames=sorted(glyphs), info=True)}, order=True))
        elif k == "reloadPart":
            part = op[1]

            def edit(P):
                P.info.familyName = "Edited%d" % step
                P.kerning[("A", "C")] = step
                P.groups["public.kern2.B"] = ["B"]
                P.features.text = "# edited %d\n" % step
                P.lib["com.verif.edit"] = step
                P.images["img%d.png" % step] = PNG + bytes([step % 256])
                P.data["verif/d%d.txt" % step] = b"edited %d" % step
            self.edit_disk(edit)
            if part == "images":
                F.reloadImages(["img%d.png" % step])
                ret.append(("imageSet", F.images, "font.images"))
            elif part == "data":
                F.reloadData(["verif/d%d.txt" % step])
                ret.append(("dataSet", F.data, "font.data"))
            else:
                getattr(F, "reload" + part[0].upper() + part[1:])()
        elif k == "touch":
            getattr(F, op[1])
        elif k == "deserialize":
            _, source, how = op
            if source == "self":
                srcfont = F
            elif source == "src":
                srcfont = self.src()
            else:
                srcfont = Font(self.path)
                self.keep.append(srcfont)
            F2 = Font(**self.kw)
            self.keep.append(F2)
            if how == "pickle":
                F2.deserialize(srcfont.serialize())
            else:
                F2.setDataFromSerialization(srcfont.getDataForSerialization())
            self.F = F2
        elif k == "deserializeContour":
            _, layer, gname, ci, C = op
            from defcon import Contour
            pc = Contour()
            draw_contour(pc, C, ci)
            self.keep.append(pc)
            self.glyph(layer, gname)[ci].setDataFromSerialization(pc.getDataForSerialization())
        elif k == "deserializeLayers":
            data = self.src().layers.defaultLayer.getDataForSerialization()
            F.layers.setDataFromSerialization(dict(layers=[(op[1], data, False)]))
        elif k == "deserializeLayer":
            data = self.src().layers.defaultLayer.getDataForSerialization()
            F.layers[op[1]].setDataFromSerialization(data)
        elif k == "deserializeSub":
            g = self.glyph(op[1], op[2])
            for o in list(g.anchors) + list(g.guidelines) + list(g.components) + [g.image, g.lib, F.layers[op[1]].lib, F.lib]:
                o.setDataFromSerialization(o.getDataForSerialization())
        elif k == "free":
            ret.extend(self.free(step, op))
        elif k == "stalePen":
            _, layer, gname, C, kind, how = op
            L = F.layers[layer]
            g = L[gname]
            n = len(g)
            pen = g.getPointPen() if kind == "point" else g.getPen()
            if how == "deleted":
                del L[gname]
            else:
                L.newGlyph(gname)
            assert g.layer is None
            before = set(id(c) for c in g) | set(id(c) for c in g.components)
            if kind == "point":
                draw_contour(pen, C, n)
            else:
                draw_contour_segments(pen, C, n)
            pen.addComponent("A", (1, 0, 0, 1, 5, 5))
            # the glyph is no longer reachable from the font: what the pen made is reported by hand
            for c in g:
                if id(c) not in before:
                    ret.append(("contour", c, "stalePen.glyph[]"))
                    for pt in c:
                        ret.append(("point", pt, "stalePen.contour[]"))
            for c in g.components:
                if id(c) not in before:
                    ret.append(("component", c, "stalePen.glyph.components"))
        elif k == "noise":
            _, kind, layer, gname = op
            g = self.glyph(layer, gname)
            for c in g:
                if c.segments and all(p.segmentType in (None, "line", "curve") for p in c) and not c.open:
                    self.keep.append(c.getRepresentation("defcon.contour.flattened"))
                    break
        else:
            raise ValueError(op)
        return ret

    def handed_classes(self):
        r = self.required
        return dict(contourClass=r["contour"], pointClass=r["point"], componentClass=r["component"], anchorClass=r["anchor"],
                    guidelineClass=r["guideline"], libClass=r["lib"], imageClass=r["image"])

    def free(self, step, op):
        """free-standing objects: made by the font's factories and never inserted, or constructed by the caller (as an
        object of defcon's own class / of the registered class) with the registered classes handed in"""
        _, what, how, spec = op
        d = defaults()
        ret = []
        layer = self.F.layers.defaultLayer
        if what == "glyph":
            if how == "factory":
                g = layer.instantiateGlyphObject()
                ret.append(("glyph", g, "free.instantiateGlyphObject()"))
            else:
                g = (d["glyph"] if how == "own" else self.required["glyph"])(**self.handed_classes())
            self.keep.append(g)
            build_glyph(g, spec)
            for c in list(g):
                self.drive_contour(c, step)
            if len(g) and spec["contours"] and tcontour(spec["contours"][0])["plain"]:
                draw_contour_segments(g.getPen(), spec["contours"][0], 5)
            ret.append(("lib", g.lib, "free.glyph.lib"))
            ret.append(("image", g.image, "free.glyph.image"))
            for c in g:
                ret.append(("contour", c, "free.glyph[]"))
                for p in c:
                    ret.append(("point", p, "free.contour[]"))
            for c in g.components:
                ret.append(("component", c, "free.glyph.components"))
            for a in g.anchors:
                ret.append(("anchor", a, "free.glyph.anchors"))
            for a in g.guidelines:
                ret.append(("guideline", a, "free.glyph.guidelines"))
            return ret
        if how == "factory":
            g = layer.instantiateGlyphObject()
            self.keep.append(g)
            c = g.instantiateContour()
            ret.append(("contour", c, "free.instantiateContour()"))
        else:
            c = (d["contour"] if how == "own" else self.required["contour"])(pointClass=self.required["point"])
        self.keep.append(c)
        draw_contour(c, spec, 1)
        self.drive_contour(c, step)
        p = c.pointClass((3 + step, 4), segmentType="line")
        pts = list(c)
        on = [i for i, q in enumerate(pts) if q.segmentType is not None]
        c.insertPoint(on[0] + 1 if on else 0, p)
        for p in c:
            ret.append(("point", p, "free.contour[]"))
        return ret

    def drive_contour(self, c, step):
        """the point-creating API of a contour that is (possibly) outside any glyph / layer / font"""
        if not len(c):
            return
        c.reverse()
        plain = not c.open and all(p.segmentType in (None, "line", "curve") for p in c)
        if plain and len(c.segments) >= 2:
            c.splitAndInsertPointAtSegmentAndT(step % len(c.segments), 0.5)
        if plain and len(c.segments) >= 4:
            c.removeSegment((step + 1) % len(c.segments), preserveCurve=True)
        c.clockwise = not c.clockwise

    def foreign(self, step, op):
        """hand an object of defcon's class / of the registered class / of an unrelated subclass to an entry point of a
        scratch font that has the same registered classes; answer: the very object is stored, or a new one of which class"""
        _, entry, kind = op
        role = ENTRIES[entry]
        d = defaults()
        cls = {"base": d[role], "registered": self.required[role], "unrelated": marker(role, UNRELATED_ID)}[kind]
        X = self.scratch()
        g = X.newGlyph("f%d" % step)
        self.keep.append(g)
        if role == "point":
            obj = cls((1, 2), segmentType="line")
        elif role == "anchor":
            obj = cls(anchorDict=anchor_dict(1))
        elif role == "guideline":
            obj = cls(guidelineDict=guideline_dict(1))
        elif role == "glyph":
            obj = cls()
            obj.name = "given%d" % step
            build_glyph(obj, dict(contours=[dict(closed=True, segs=["line", "curve", "line"])], components=[], anchors=1,
                                  guidelines=1, image=False, lib=True, unicodes=[]))
        else:
            obj = cls()
        self.keep.append(obj)
        owner, meth = entry.split(".")
        if owner == "Contour":
            c = g.instantiateContour()
            g.appendContour(c)
            self.keep.append(c)
            if meth == "appendPoint":
                c.appendPoint(obj)
            else:
                c.insertPoint(0, obj)
            stored = list(c)[0]
        elif owner == "Glyph":
            if meth.startswith("_set_"):
                setattr(g, meth[5:], [obj])
            elif meth.startswith("append"):
                getattr(g, meth)(obj)
            else:
                getattr(g, meth)(0, obj)
            stored = {"contour": lambda: g[0], "component": lambda: g.components[0], "anchor": lambda: g.anchors[0],
                      "guideline": lambda: g.guidelines[0]}[role]()
        elif owner == "Layer":
            stored = X.layers.defaultLayer.insertGlyph(obj)
        elif owner == "Font" and role == "glyph":
            stored = X.insertGlyph(obj)
        else:
            target = X if owner == "Font" else X.info
            X.clearGuidelines()
            if meth.startswith("_set_"):
                X.guidelines = [obj]
            elif meth.startswith("append"):
                getattr(target, meth)(obj)
            else:
                getattr(target, meth)(0, obj)
            stored = X.guidelines[0]
        self.keep.append(stored)
        self.stats["foreign.%s.%s" % (role, kind)] = self.stats.get("foreign.%s.%s" % (role, kind), 0) + 1
        if role in self.registered:
            self.created_custom = True
        # direct oracle: for the roles the property demands conversion for, what the font now holds is of the registered class
        if role in CONVERTED_ROLES:
            held = [(role, stored, entry)]
            if role == "glyph":
                # "insertion from another font": everything inside the glyph the font now holds as well
                held += [("lib", stored.lib, entry + ".lib"), ("image", stored.image, entry + ".image")]
                held += [("contour", c, entry + "[]") for c in stored]
                held += [("point", pt, entry + "[][]") for c in stored for pt in c]
                held += [("component", c, entry + ".components") for c in stored.components]
                held += [("anchor", c, entry + ".anchors") for c in stored.anchors]
                held += [("guideline", c, entry + ".guidelines") for c in stored.guidelines]
            for r2, o2, where in held:
                if not isinstance(o2, self.required[r2]):
                    sig = "C15/%s/foreign/%s" % (r2, where)
                    if not any(v["signature"] == sig for v in self.viol):
                        self.viol.append(dict(clause="C15/" + r2, signature=sig, step=step, op=op, where=where,
                                              expected=self.required[r2].__name__, observed=type(o2).__name__,
                                              customised=r2 in self.registered))
        if stored is obj:
            return [Atom("asIs")]
        return [Atom("rebuilt"), class_tag(stored)]

    def props(self, which):
        layer = self.F.layers.defaultLayer
        g = layer.instantiateGlyphObject()
        self.keep.append(g)
        if which == "Glyph":
            names = ["contourClass", "pointClass", "componentClass", "anchorClass", "guidelineClass", "libClass", "imageClass"]
            o = g
        else:
            names = ["pointClass"]
            o = g.instantiateContour()
            self.keep.append(o)
        items = []
        for n in names:
            cls = getattr(o, n)
            m = cls.__dict__.get("_verif_marker")
            items.append([n, [Atom("user"), m[0], m[1]] if m is not None else [Atom("builtin"), cls.__name__]])
        return [Atom("set")] + items


def run_impl(case):
    tmpd = tempfile.mkdtemp(prefix="c15_")
    try:
        w = World(case, tmpd)
        outs = [Atom("ok")]
        pending_ret = []
        failed = False
        for i, (op, e) in enumerate(zip(case["ops"], schedule(case))):
            ok, path, expect = w.tr.apply(op)
            assert (ok, path, expect) == (e["ok"], e["path"], e["expect"])
            w.stats["op." + op[0]] = w.stats.get("op." + op[0], 0) + 1
            if not ok:
                w.stats["skipped"] = w.stats.get("skipped", 0) + 1
            else:
                w.stats["path." + path] = w.stats.get("path." + path, 0) + 1
                for r in expect:
                    w.stats["hit.%s.%s" % (path, r)] = w.stats.get("hit.%s.%s" % (path, r), 0) + 1
                    if op[0] in ("removeSegment", "split", "appendPoint", "reverse", "copyData", "deserializeGlyph",
                                 "deserializeContour", "reloadGlyphs", "reloadLayers", "reloadPart", "deserializeLayers",
                                 "deserializeLayer", "free", "stalePen"):
                        w.stats["made.%s.%s" % (op[0], r)] = w.stats.get("made.%s.%s" % (op[0], r), 0) + 1
            w.anomalies = []
            try:
                if e["props"]:
                    outs.append(w.props(op[1]))
                elif e["direct"] == "foreign":
                    outs.append(w.foreign(i, op))
                elif e["direct"] == "census":
                    w.census_step()
                    outs.append(w.census_answer() if census_live(case) else [Atom("set")])
                else:
                    if ok:
                        pending_ret.extend(w.run(i, op))
                    if e["sweep"] and w.F is not None:
                        w.tr.sweep_touch(set())
                        outs.append(w.observe(i, op, pending_ret))
                        pending_ret = []
                        w.stats["sweeps"] = w.stats.get("sweeps", 0) + 1
                    else:
                        outs.append([Atom("set")])
            except Exception as ex:
                w.stats["err." + type(ex).__name__] = w.stats.get("err." + type(ex).__name__, 0) + 1
                outs.append([Atom("err"), Atom(type(ex).__name__), str(ex)[:120]])
            # census: whatever this operation constructed from inside defcon was constructed at a tabled site, and
            # whatever the sweep reached had been recorded; an anomaly breaks the tie and names the place
            w.census_step()
            if w.anomalies:
                outs[-1] = [Atom("census-anomaly"), [str(a) for a in w.anomalies], outs[-1]]
        w.stats["custom.%02d" % len(case["custom"])] = 1
        w.stats["lazy" if case.get("lazy") else "eager"] = 1
        w.stats["sweep_every.%d" % int(case.get("sweep", 1))] = 1
        w.stats["ops"] = len(case["ops"])
        tab = site_table()
        for sid in tab.ids:
            w.stats.setdefault("census.site." + sid, 0)
        w.stats["src_custom.%s" % ("yes" if case.get("src_custom") else "no")] = 1
        nontrivial = bool(case["custom"]) and w.created_custom
        res = dict(out=outs, viol=w.viol, info=dict(nontrivial=nontrivial, stats=w.stats))
        # keep everything alive until here
        del w
        return res
    finally:
        c15_census.stop()
        shutil.rmtree(tmpd, ignore_errors=True)
