"""C13 - pen round trips, glyph copies, decomposition: correspondence with M-Pen + direct oracle.

A case = one or two fonts (each built in memory or written to a scratch UFO and reopened, every glyph
then `new`, loaded `shallow` (contours never touched) or `full`), each with its default layer (reached
through the Font API or through font.layers.defaultLayer) and often a second layer "bg" that holds glyphs
of the SAME names with other outlines, sometimes a Layer() that belongs to no font; followed by operations:
draw / rebuild / drawContour / drawComponent (point pen; the pen is one of today's protocol or one whose
beginPath / addPoint / addComponent - any subset - predate the `identifier` keyword, for rebuilds a filter pen
in front of the empty glyph's own pen), segdraw / segrebuild (segment pen),
copy (copyDataFromGlyph into a fresh glyph), insert (Layer.insertGlyph, same or other layer / font),
decompose / decomposeAll (base glyphs are those of the glyph's own layer),
pen (a raw point-pen call stream, optionally with skipConflictingIdentifiers).
copyInto (copyDataFromGlyph into a glyph of the case that already holds data: what is replaced, what is kept),
hcopy (a glyph given WITH the Python kinds of its values - a component transformation may be a list, the lib
holds nested lists / dicts / tuples - copied by one route: copyDataFromGlyph into Glyph(), Layer.insertGlyph,
Font.insertGlyph, or set(get())DataForSerialization; answered with the fields at which copy and source share
a mutable object and with both glyphs as trees of values).
Every op's observable result is compared with the Lean model (M-Pen and, for hcopy, M-Cells - the heap model
in which independence is a theorem; `(model pen)`); the direct oracle evaluates the property's own predicates
on the implementation's trace; after every copy path BOTH object graphs are walked and the `id()`s of the
mutable objects they have in common must be none (and are compared with the model's prediction per field),
then each side is mutated - in place wherever the API hands out a mutable object - and the other side's data
must not move.
"""
import json
import os
import shutil
import tempfile
from fractions import Fraction

from sexp import Atom, opt

MODEL = "pen"
SHRINKABLE = True
RULE = ("quick 1200 / thorough 20000 cases; a case = 1-2 fonts of 1-7 glyphs (bases A-C, composites D-G with 1-3 nesting levels of "
        "integer/dyadic transforms incl. identity, rotation, mirror, degenerate; occasionally a missing base), each font built "
        "in memory or saved to a scratch UFO and reopened, each glyph new / shallow (contours untouched) / full; 45% of the "
        "fonts have a second layer 'bg' of 1-5 glyphs drawn from the SAME names with their own outlines (so a name means a "
        "different glyph, or none, per layer; 12% of the components name a glyph that exists in the font's other layer), 30% "
        "address their default layer as font.layers.defaultLayer instead of through Font, 12% of the cases add a Layer() "
        "without font; 40% of the draw/rebuild/drawContour/drawComponent ops use a pen whose beginPath/addPoint/addComponent "
        "(all three = the protocol before identifiers, or any subset) do not accept `identifier`; contours "
        "open/closed, line/curve/qcurve runs, off-curve-only, single-point, start on off-curve, duplicate coordinates around "
        "the closing point; 12% of the cases contain deliberately malformed outlines or duplicate identifiers (in-memory only); "
        "identifiers from a shared pool of 10 on a random subset (so decomposition conflicts are frequent); 3-10 ops per case "
        "from draw/rebuild/drawContour/drawComponent/segdraw/segrebuild/copy/insert/decompose/decomposeAll/pen(raw stream, skip "
        "flag)/dump, 9% copyInto (copyDataFromGlyph into any other glyph of the case that keeps the component graph acyclic: "
        "destinations with contours / components / anchors / guidelines / lib / image / unicodes of their own, new / shallow / "
        "full, in a font, a second layer, a font-less layer or stand-alone); every copy/insert/copyInto pair has both object "
        "graphs walked for shared mutable objects and is mutated on both sides at the end of the case; plus 300 / 5000 cases of "
        "1-3 hcopy ops: one glyph (gen_content + a lib of 0-3 keys with nested tagged values to depth 3: int/dyadic/str/bool/"
        "None/tuple/list/dict; each component transformation a tuple or - 50% of the in-memory sources - the LIST a caller "
        "handed in; source new stand-alone / in a Font / in a font-less Layer, or saved and reopened, shallow or fully loaded) "
        "copied by copyDataFromGlyph into Glyph() (40%), Layer.insertGlyph (20%), Font.insertGlyph into another font (20%) or "
        "setDataFromSerialization(getDataForSerialization()) (20%, model/implementation comparison only); non-trivial = some "
        "contour has >= 3 points AND at least one successful rebuild/copy/insert/copyInto/hcopy/decompose/segrebuild; distinct = "
        "distinct canonical cases")
ASSUMPTIONS = [
    "INDEPENDENCE (copy shares no mutable state) is a theorem about M-Cells (copy_independent: for the code's table of what "
    "each copy statement does to each field, every cell of the copy is fresh); the table is tied to the code by the "
    "regenerated Gen/CopyForms.lean (syntactic forms: deepcopy / list() / instantiate comprehension / own pen / assignment / "
    "tuple() in the transformation setter) and by the runs (identity walk over both object graphs after every copy path: the "
    "set of shared mutable objects, named by field, must equal the model's prediction - empty for the property's copy paths, "
    "`lib.*` for the un-pickled serialization route). Field TYPES (width, names, identifiers, coordinates, colours hold "
    "immutable values) are the domain: a caller who stores a list where a string or number belongs is outside it",
    "a heap address is never reused (the harness keeps every object alive, so `id()`s are not reused either); cyclic "
    "values are outside the model's fuel (plist data is a tree)",
    "copyDataFromGlyph into a NON-fresh destination: width, height, unicodes, note, image, anchors, guidelines, lib are "
    "replaced, the outline is appended (F120, recorded) and an identifier in common raises (F121, recorded); a rejected "
    "copy leaves the destination partly overwritten - the harness then takes it out of its layer and does not touch it again",
    "component graphs are acyclic (cyclic references recurse until RecursionError: out of domain)",
    "coordinates and transformations are integers or dyadic rationals (k/8, k/4, k/2), where float arithmetic is exact; "
    "the model computes over Rat",
    "segment-pen round trip: smooth flags are guessed by fontTools' GuessSmoothPointPen from float angles - masked; names "
    "and identifiers are not carried by the segment protocol",
    "a glyph that could not be assembled from (deliberately invalid) content is deleted again and 'poisoned' (no further "
    "direct ops); after other unexpected errors a glyph is poisoned too; the state after a REJECTED PEN CALL is modelled",
    "copy/insert destinations are fresh glyphs (Glyph(), Layer.newGlyph), as Layer.insertGlyph uses copyDataFromGlyph; "
    "copyInto destinations are any other glyph of the case",
    "lib values are opaque to M-Pen (canonical JSON dump) and structured in M-Cells; colours are given in normalised form",
    "the check targets defcon with the fixes C13-decompose-shallow, C10-6 (shallow contours reserve their identifiers), "
    "C13-r2-1 (a shallow-loaded glyph falls back for pens without the identifier keyword like a loaded one) and C13-r3-1 "
    "(Component._set_transformation stores a tuple: F119)",
    "a model 'layer' is one defcon Layer: f1 = default layer of font f1, f1:bg = its second layer, L1 = Layer() without font; "
    "the base glyph of a component is the glyph of that name in the layer of the glyph that holds the component",
    "pens that predate identifiers are modelled by their signatures only (a method either accepts the identifier keyword or "
    "raises TypeError on it); DeprecationWarnings are counted, not judged",
]
TRUSTED = ["fontTools PointToSegmentPen/SegmentToPointPen/Transform ported by hand into the model (validated by the same runs)",
           "UFO write/read of the scratch fonts goes through defcon's own save + fontTools.ufoLib (valid outlines only)",
           "the harness reads Glyph._shallowLoadedContours to establish which source state a glyph is in",
           "the object-graph walk reads private attributes (_unicodes, _lib, _image, _anchors, _guidelines, _contours, "
           "_points, _components, _transformation, _identifiers, point slots) - the public getters copy or convert and would "
           "hide both the identity and the kind (list / tuple) of what is stored",
           "harness/extract_copyforms.py (AST shapes of the copy statements; fails closed on an unrecognised statement)"]

BASES = ["A", "B", "C"]
LEVEL1 = ["D", "E"]
LEVEL2 = ["F"]
LEVEL3 = ["G"]
RANK = dict(A=0, B=0, C=0, D=1, E=1, F=2, G=3)
IDPOOL = ["i%d" % i for i in range(10)]
PNAMES = [None, None, None, "top", "n 1", 'q"uote', "back\\slash", "(paren)"]
COLORS = [None, "1,0,0,1", "0,0.5,1,1", "0.25,0.25,0.25,0.5"]
SEGS = ["move", "line", "curve", "qcurve"]


# ---------------------------------------------------------------------------------------
# numbers: JSON holds ints or "n/d" strings (dyadic); Python side uses int / float; canonical = Fraction
# ---------------------------------------------------------------------------------------

def to_py(v):
    if v is None:
        return None
    if isinstance(v, str):
        n, d = v.split("/")
        return int(n) / int(d)
    return v


def num_atom(x):
    """canonical atom of a number that came out of the implementation (or of the case)"""
    if isinstance(x, str):
        n, d = x.split("/")
        f = Fraction(int(n), int(d))
    elif isinstance(x, bool):
        raise TypeError("bool as number")
    else:
        f = Fraction(x)
    if f.denominator == 1:
        return Atom(str(f.numerator))
    return Atom("%d/%d" % (f.numerator, f.denominator))


def gen_num(rng, lo=-40, hi=200, dyadic=0.15):
    if rng.random() < dyadic:
        d = rng.choice([2, 4, 8])
        n = rng.randint(lo * d, hi * d)
        f = Fraction(n, d)
        if f.denominator == 1:
            return f.numerator
        return "%d/%d" % (f.numerator, f.denominator)
    return rng.randint(lo, hi)


TRANSFORMS = [
    [1, 0, 0, 1, 0, 0], [1, 0, 0, 1, 0, 0],
    [1, 0, 0, 1, 10, -20], [2, 0, 0, 2, 0, 0], ["1/2", 0, 0, "1/2", 0, 0], [-1, 0, 0, 1, 100, 0],
    [0, 1, -1, 0, 0, 0], ["3/2", 0, 0, "3/4", 5, "5/2"], [1, "1/4", 0, 1, 0, 0], [2, 0, 0, "1/2", -3, 7],
    ["1/2", 0, 0, 2, 0, 0], [1, 0, 0, 1, "1/2", 0], [0, 0, 0, 0, 5, 5],
]


def gen_transform(rng):
    if rng.random() < 0.8:
        return list(rng.choice(TRANSFORMS))
    return [gen_num(rng, -2, 3, 0.5) for _ in range(4)] + [gen_num(rng, -30, 30) for _ in range(2)]


# ---------------------------------------------------------------------------------------
# generation of contents
# ---------------------------------------------------------------------------------------

class IdSource(object):
    """identifiers of one glyph: unique unless `dups`"""

    def __init__(self, rng, rate, dups=False):
        self.rng = rng
        self.rate = rate
        self.free = list(IDPOOL)
        rng.shuffle(self.free)
        self.used = []
        self.dups = dups

    def take(self, rate=None):
        if self.rng.random() >= (self.rate if rate is None else rate):
            return None
        if self.dups and self.used and self.rng.random() < 0.4:
            return self.rng.choice(self.used)
        if not self.free:
            return None
        i = self.free.pop()
        self.used.append(i)
        return i


def gen_point(rng, ids, seg, smooth_ok=True, xy=None):
    x, y = xy if xy is not None else (gen_num(rng), gen_num(rng))
    smooth = bool(seg is not None and smooth_ok and rng.random() < 0.3)
    return [x, y, seg, smooth, rng.choice(PNAMES), ids.take()]


def gen_segment(rng, ids, kind=None):
    kind = kind or rng.choice(["line", "line", "curve", "curve", "qcurve"])
    if kind == "line":
        n = 0
    elif kind == "curve":
        n = rng.choice([2, 2, 2, 1, 0])
    else:
        n = rng.choice([1, 1, 2, 3, 0])
    return [gen_point(rng, ids, None) for _ in range(n)] + [gen_point(rng, ids, kind)]


def gen_contour(rng, ids, malformed=False):
    """returns (contour dict, kind label); valid for GLIF unless malformed"""
    r = rng.random()
    cid = ids.take(0.5 if ids.rate > 0 else 0)
    if malformed:
        k = rng.choice(["empty", "move-inside", "loose-off", "off-before-line", "smooth-off"])
        if k == "empty":
            pts = []
        elif k == "move-inside":
            pts = [gen_point(rng, ids, "line"), gen_point(rng, ids, "move"), gen_point(rng, ids, "line")]
            if rng.random() < 0.5:
                pts = [gen_point(rng, ids, "move")] + pts
        elif k == "loose-off":
            pts = [gen_point(rng, ids, "move"), gen_point(rng, ids, "line"), gen_point(rng, ids, None)]
        elif k == "off-before-line":
            pts = [gen_point(rng, ids, "line"), gen_point(rng, ids, None), gen_point(rng, ids, "line")]
            if rng.random() < 0.5:
                pts = [gen_point(rng, ids, "move")] + pts[1:] + [gen_point(rng, ids, "curve")]
        else:
            pts = [gen_point(rng, ids, "curve"), gen_point(rng, ids, None), gen_point(rng, ids, None)]
            pts[1][3] = True
        return dict(id=cid, points=pts), "malformed." + k
    if r < 0.2:
        # open
        pts = [gen_point(rng, ids, "move")]
        for _ in range(rng.randint(0, 4)):
            pts += gen_segment(rng, ids)
        return dict(id=cid, points=pts), "open%d" % min(len(pts), 3)
    if r < 0.3:
        # off-curve only (closed); sometimes first == last coordinates
        n = rng.randint(1, 5)
        pts = [gen_point(rng, ids, None) for _ in range(n)]
        if n > 1 and rng.random() < 0.3:
            pts[-1][0], pts[-1][1] = pts[0][0], pts[0][1]
            return dict(id=cid, points=pts), "offonly.firstEqLast"
        return dict(id=cid, points=pts), "offonly"
    if r < 0.36:
        # single on-curve point, closed
        return dict(id=cid, points=[gen_point(rng, ids, rng.choice(["line", "curve", "qcurve"]))]), "single"
    # closed: segments, then rotate the start
    kinds = None
    if r < 0.55:
        kinds = ["line"]
        label = "closed.lines"
    elif r < 0.7:
        kinds = ["curve", "line"]
        label = "closed.cubic"
    elif r < 0.8:
        kinds = ["qcurve", "line"]
        label = "closed.quad"
    else:
        kinds = ["line", "curve", "qcurve"]
        label = "closed.mixed"
    pts = []
    for _ in range(rng.randint(2, 5)):
        pts += gen_segment(rng, ids, rng.choice(kinds))
    # duplicate coordinates between neighbours of the closing point (segment pen edge cases)
    if rng.random() < 0.25:
        ons = [i for i, p in enumerate(pts) if p[2] is not None]
        if len(ons) >= 2:
            a, b = ons[-1], ons[-2]
            pts[a][0], pts[a][1] = pts[b][0], pts[b][1]
            label += ".dupcoord"
    rot = rng.randrange(len(pts))
    if rot and rng.random() < 0.6:
        pts = pts[rot:] + pts[:rot]
        if pts[0][2] is None:
            label += ".startOff"
    return dict(id=cid, points=pts), label


def gen_lib(rng):
    lib = {}
    if rng.random() < 0.5:
        lib["com.test.list"] = [1, 2, {"z": rng.randint(0, 9), "w": ["a", "b"]}]
    if rng.random() < 0.4:
        lib["com.test.dict"] = {"a": {"b": [rng.randint(0, 9)]}, "s": "str"}
    if rng.random() < 0.3:
        lib["public.markColor"] = "1,0,0,1"
    if rng.random() < 0.2:
        lib["com.test.int"] = rng.randint(0, 99)
    return lib


def gen_content(rng, name, names_present, id_rate, malformed=False, dups=False, foreign=()):
    ids = IdSource(rng, id_rate, dups)
    stats = {}
    contours = []
    for _ in range(rng.choice([0, 1, 1, 2, 2, 3])):
        c, label = gen_contour(rng, ids, malformed and rng.random() < 0.5)
        contours.append(c)
        stats["contour." + label] = stats.get("contour." + label, 0) + 1
    comps = []
    lower = [n for n in names_present if RANK[n] < RANK[name]]
    if RANK[name] > 0 and lower:
        # prefer the highest rank below (deep nesting), sometimes anything lower, sometimes a missing glyph
        top = max(RANK[n] for n in lower)
        for _ in range(rng.randint(1, 3)):
            cands = [n for n in lower if RANK[n] == top] if rng.random() < 0.7 else lower
            base = rng.choice(cands)
            if rng.random() < 0.04:
                base = "missing"
            # a name that (also, or only) exists in the OTHER layer of the font: here it is this layer's glyph or nothing
            other = [n for n in foreign if RANK[n] < RANK[name]]
            if other and rng.random() < 0.12:
                base = rng.choice(other)
            comps.append([base, gen_transform(rng), ids.take()])
    anchors = []
    for _ in range(rng.choice([0, 0, 1, 2])):
        anchors.append(dict(x=gen_num(rng), y=gen_num(rng), name=rng.choice([None, "top", "bottom"]),
                            color=rng.choice(COLORS), id=ids.take()))
    guides = []
    for _ in range(rng.choice([0, 0, 0, 1, 2])):
        k = rng.random()
        if k < 0.3:
            gd = dict(x=gen_num(rng), y=None, angle=None)
        elif k < 0.6:
            gd = dict(x=None, y=gen_num(rng), angle=None)
        else:
            gd = dict(x=gen_num(rng), y=gen_num(rng), angle=rng.choice([0, 45, 90, "45/2", 270]))
        gd.update(name=rng.choice([None, "gd"]), color=rng.choice(COLORS), id=ids.take())
        guides.append(gd)
    image = None
    if rng.random() < 0.25:
        image = dict(fileName="img%d.png" % rng.randint(1, 2), t=gen_transform(rng), color=rng.choice(COLORS))
    content = dict(width=gen_num(rng, 0, 1000), height=gen_num(rng, 0, 1000, 0),
                   unicodes=rng.sample([65, 66, 97, 0xE000, 0x1F600], rng.choice([0, 0, 1, 2])),
                   note=rng.choice([None, None, "a note", 'with "quotes" and \\ backslash']),
                   image=image, anchors=anchors, guidelines=guides, lib=gen_lib(rng),
                   contours=contours, components=comps)
    return content, stats


def gen_events(rng, bases=("ext",)):
    """a raw point-pen call stream, mostly well formed; components only name `bases` (no cycles)"""
    ids = IdSource(rng, 0.5, dups=rng.random() < 0.3)
    evs = []
    for _ in range(rng.randint(1, 3)):
        if rng.random() < 0.75:
            c, _ = gen_contour(rng, ids)
            evs.append(["bp", c["id"]])
            for p in c["points"]:
                evs.append(["pt"] + p)
            evs.append(["ep"])
        else:
            evs.append(["comp", rng.choice(bases), gen_transform(rng), ids.take()])
    r = rng.random()
    if r < 0.05 and evs:
        del evs[0]                       # usually drops a beginPath
    elif r < 0.10:
        evs = [e for e in evs if e[0] != "ep"] or evs      # never ends a path
    elif r < 0.15:
        evs.insert(rng.randrange(len(evs) + 1), ["comp", rng.choice(bases), [1, 0, 0, 1, 0, 0], ids.take()])   # component mid-path
    return evs


def layer_specs(case):
    """(layer id, font spec, glyph list) of every layer of a case, in set-up order: `f1` = the default layer of
    font f1, `f1:bg` = its second layer, `L1` = a Layer() without font"""
    for fid in sorted(case["fonts"]):
        spec = case["fonts"][fid]
        yield fid, spec, spec["glyphs"]
        for lname in sorted(spec.get("layers", {})):
            yield fid + ":" + lname, spec, spec["layers"][lname]


def op_caps(op):
    """the pen of a draw / rebuild / drawContour / drawComponent op (ops recorded before pens were varied have none)"""
    k = op[0]
    if k in ("draw", "rebuild"):
        return op[3] if len(op) > 3 else FULL
    if k in ("drawContour", "drawComponent"):
        return op[4] if len(op) > 4 else FULL
    return FULL


CAPS_ALL = ["bpc", "bp", "bc", "pc", "b", "p", "c", ""]     # the methods of a pen that accept `identifier`
FULL = "bpc"
BG = "bg"


def gen_caps(rng):
    r = rng.random()
    if r < 0.6:
        return FULL
    if r < 0.8:
        return ""                      # the point pen protocol before identifiers
    return rng.choice(CAPS_ALL[1:-1])


def gen_names(rng, first, small=False):
    names = []
    if small:
        names += rng.sample(BASES, rng.randint(1, 2))
    else:
        names += rng.sample(BASES, rng.randint(1, 3)) if first else rng.sample(BASES, rng.randint(0, 2))
    if first or rng.random() < 0.4:
        names += rng.sample(LEVEL1, rng.randint(0, 1) if small else rng.randint(0, 2))
        if any(n in names for n in LEVEL1) and rng.random() < (0.5 if small else 0.7):
            names += LEVEL2
            if not small and rng.random() < 0.6:
                names += LEVEL3
    return names


def gen_glyphs(rng, lid, names, kind, id_rate, malformed_case, stats, keys, foreign=()):
    glyphs = []
    for n in names:
        bad = malformed_case and kind != "disk" and rng.random() < 0.4
        content, st = gen_content(rng, n, names, id_rate, malformed=bad, dups=bad and rng.random() < 0.4, foreign=foreign)
        for k, v in st.items():
            stats[k] = stats.get(k, 0) + v
        variant = "new" if kind != "disk" else rng.choice(["shallow", "shallow", "full"])
        glyphs.append([n, variant, content])
        keys.append((lid, n))
        stats["variant." + variant] = stats.get("variant." + variant, 0) + 1
    return glyphs


def gen_case(rng, tier):
    stats = {}
    nfonts = 2 if rng.random() < 0.6 else 1
    id_rate = rng.choice([0, 0.15, 0.35, 0.6])
    malformed_case = rng.random() < 0.12
    fonts = {}
    keys = []
    for fi in range(nfonts):
        fid = "f%d" % (fi + 1)
        kind = "disk" if rng.random() < 0.6 else "new"
        if malformed_case and fi == 0:
            kind = "new"
        names = gen_names(rng, fi == 0)
        bgnames = gen_names(rng, True, small=True) if rng.random() < 0.45 else None
        spec = dict(kind=kind, glyphs=gen_glyphs(rng, fid, names, kind, id_rate, malformed_case, stats, keys,
                                                 foreign=bgnames or ()))
        if bgnames is not None:
            spec["layers"] = {BG: gen_glyphs(rng, fid + ":" + BG, bgnames, kind, id_rate, malformed_case, stats, keys,
                                             foreign=names)}
            stats["layer.second"] = stats.get("layer.second", 0) + 1
            shared = len(set(names) & set(bgnames))
            stats["layer.names-in-both"] = stats.get("layer.names-in-both", 0) + shared
        if rng.random() < 0.3:
            spec["api"] = "layer"
            stats["layer.default-via-layerset"] = stats.get("layer.default-via-layerset", 0) + 1
        fonts[fid] = spec
    if rng.random() < 0.12:
        # a layer that belongs to no font
        fonts["L1"] = dict(kind="free", glyphs=gen_glyphs(rng, "L1", gen_names(rng, True, small=True), "free", id_rate,
                                                          False, stats, keys))
        stats["layer.free"] = stats.get("layer.free", 0) + 1
    case0 = dict(fonts=fonts)
    # operations
    ops = []
    fresh = 0
    fids = [lid for lid, _, _ in layer_specs(case0)]
    comp_count = {}
    cont_count = {}
    for lid, _, glyphs in layer_specs(case0):
        for n, _, c in glyphs:
            comp_count[(lid, n)] = len(c["components"])
            cont_count[(lid, n)] = len(c["contours"])
    # the rank of the deepest base glyph a glyph's components may name: a copy INTO an existing glyph must keep the
    # component graph acyclic (a glyph named A..G may only receive components of glyphs ranked below it; glyphs with
    # fresh names are nobody's base glyph)
    content_rank = {}
    for lid, _, glyphs in layer_specs(case0):
        for n, _, c in glyphs:
            content_rank[(lid, n)] = RANK[n]
    for _ in range(rng.randint(3, 10)):
        f, n = rng.choice(keys)
        r = rng.random()
        if r < 0.09 and len(keys) > 1:
            # copyDataFromGlyph into a glyph that already holds data (any glyph of the case but the source)
            cands = [k for k in keys if k != (f, n) and (k[1] not in RANK or content_rank.get((f, n), 9) <= RANK[k[1]])]
            if cands:
                df, dn = rng.choice(cands)
                ops.append(["copyInto", f, n, df, dn])
                comp_count[(df, dn)] = comp_count.get((df, dn), 0) + comp_count.get((f, n), 0)
                cont_count[(df, dn)] = cont_count.get((df, dn), 0) + cont_count.get((f, n), 0)
                content_rank[(df, dn)] = max(content_rank.get((df, dn), 0), content_rank.get((f, n), 0))
                continue
        if r < 0.08:
            ops.append(["draw", f, n, gen_caps(rng)])
        elif r < 0.20:
            ops.append(["rebuild", f, n, gen_caps(rng)])
        elif r < 0.27:
            withc = [k for k in keys if cont_count.get(k, 0) > 0]
            if withc and rng.random() < 0.97:
                f, n = rng.choice(withc)
            ops.append(["drawContour", f, n, rng.randrange(max(1, cont_count.get((f, n), 0) + (rng.random() < 0.03))),
                        gen_caps(rng)])
        elif r < 0.31:
            withc = [k for k in keys if comp_count.get(k, 0) > 0]
            if withc and rng.random() < 0.97:
                f, n = rng.choice(withc)
            ops.append(["drawComponent", f, n, rng.randrange(max(1, comp_count.get((f, n), 0) + (rng.random() < 0.03))),
                        gen_caps(rng)])
        elif r < 0.38:
            ops.append(["segdraw", f, n])
        elif r < 0.48:
            ops.append(["segrebuild", f, n])
        elif r < 0.60:
            fresh += 1
            if rng.random() < 0.35:
                df, dn = "-", "s%d" % fresh
            else:
                df, dn = rng.choice(fids), "copy%d" % fresh
            ops.append(["copy", f, n, df, dn])
            keys.append((df, dn))
            comp_count[(df, dn)] = comp_count.get((f, n), 0)
            cont_count[(df, dn)] = cont_count.get((f, n), 0)
            content_rank[(df, dn)] = content_rank.get((f, n), 0)
        elif r < 0.72:
            fresh += 1
            df = rng.choice(fids)
            # a new name, the glyph's own name in the other font, or (rarely) an existing name
            dn = n if (df != f and rng.random() < 0.5) else "ins%d" % fresh
            if dn in RANK and df != f:
                # keep the target font's component graph acyclic: only insert over a name of the same rank
                pass
            ops.append(["insert", f, n, df, dn])
            if (df, dn) not in keys:
                keys.append((df, dn))
            comp_count[(df, dn)] = comp_count.get((f, n), 0)
            cont_count[(df, dn)] = cont_count.get((f, n), 0)
            content_rank[(df, dn)] = content_rank.get((f, n), 0)
        elif r < 0.84:
            withc = [k for k in keys if comp_count.get(k, 0) > 0 and k[0] != "-"]
            if withc and rng.random() < 0.97:
                f, n = rng.choice(withc)
            if f == "-":
                continue
            if rng.random() < 0.5:
                ops.append(["decomposeAll", f, n])
                comp_count[(f, n)] = 0
            else:
                ops.append(["decompose", f, n, rng.randrange(max(1, comp_count.get((f, n), 0)))])
                comp_count[(f, n)] = max(0, comp_count.get((f, n), 0) - 1)
        elif r < 0.94:
            if rng.random() < 0.4:
                fresh += 1
                f, n = rng.choice(["-"] + fids), "pen%d" % fresh
                ops.append(["new", f, n])
                keys.append((f, n))
            lower = [b for b in BASES if RANK.get(n, 9) > 0] + ["ext"]
            ops.append(["pen", f, n, rng.random() < 0.5, gen_events(rng, lower)])
            if any(e[0] == "comp" for e in ops[-1][4]):
                comp_count[(f, n)] = comp_count.get((f, n), 0) + 1
                content_rank[(f, n)] = max(content_rank.get((f, n), 0), 1)
        else:
            ops.append(["dump", f, n])
    return dict(fonts=fonts, ops=ops), stats


# -- copies as object graphs (M-Cells): a glyph described WITH the Python kinds of its values ---------------

HROUTES = ["copyData", "copyData", "insertLayer", "insertFont", "serial"]


def gen_pyval(rng, depth, plist_only):
    """a lib value, tagged: {"t": "int"|"num"|"str"|"bool"|"none"|"tuple"|"list"|"dict", "v": ...}"""
    r = rng.random()
    if depth <= 0 or r < 0.45:
        k = rng.random()
        if k < 0.35:
            return dict(t="int", v=rng.randint(-5, 99))
        if k < 0.5:
            return dict(t="num", v=gen_num(rng, 0, 9, 1.0))
        if k < 0.75:
            return dict(t="str", v=rng.choice(["a", "b c", "", 'q"uote', "1,0,0,1"]))
        if k < 0.85:
            return dict(t="bool", v=rng.random() < 0.5)
        if k < 0.93 and not plist_only:
            return dict(t="tuple", v=[rng.randint(0, 9) for _ in range(rng.randint(0, 3))])
        if not plist_only:
            return dict(t="none")
        return dict(t="int", v=0)
    if r < 0.75:
        return dict(t="list", v=[gen_pyval(rng, depth - 1, plist_only) for _ in range(rng.randint(0, 3))])
    keys = rng.sample(["a", "b", "z", "w", "k.e.y"], rng.randint(0, 3))
    return dict(t="dict", v=[[k, gen_pyval(rng, depth - 1, plist_only)] for k in keys])


def gen_hspec(rng):
    """a glyph for the object-graph copies: the content of gen_content plus the KIND of every component
    transformation (tuple, or the list a caller may hand in) and a lib of nested tagged values"""
    state = rng.choice(["new", "new", "new", "full", "shallow"])
    names = ["A", "B", "D"]
    content, _ = gen_content(rng, "D", names, rng.choice([0, 0.3, 0.6]))
    content.pop("lib")
    plist_only = state != "new"
    nlib = rng.choice([0, 1, 2, 2, 3])
    lib = [[k, gen_pyval(rng, 3, plist_only)] for k in rng.sample(["com.t.a", "com.t.b", "org.x.nested", "x"], nlib)]
    tk = []
    for _ in content["components"]:
        tk.append("tuple" if (state != "new" or rng.random() < 0.5) else "list")
    if not content["components"] and rng.random() < 0.6:
        content["components"] = [["A", gen_transform(rng), None]]
        tk = ["tuple" if state != "new" else rng.choice(["list", "tuple"])]
    route = rng.choice(HROUTES)
    if route == "serial" and state == "shallow":
        state = "full"
    home = "font" if state != "new" else rng.choice(["none", "font", "layer"])
    return dict(content=content, lib=lib, tkinds=tk, state=state, home=home), route


def gen_hcase(rng):
    ops = []
    for _ in range(rng.randint(1, 3)):
        spec, route = gen_hspec(rng)
        ops.append(["hcopy", route, spec])
    return dict(fonts={}, ops=ops)


def generate(rng, tier):
    n = 1200 if tier == "quick" else 20000
    nh = 300 if tier == "quick" else 5000
    for i in range(n):
        case, stats = gen_case(rng, tier)
        case["gen_stats"] = stats
        yield case
        if i % (n // nh) == 0:
            yield gen_hcase(rng)


def neighbourhood(case, step, rng):
    """variants around a diverging step: the same history with every source state, and the diverging
    prefix followed by each op the property talks about on every glyph"""
    nsetup = sum(len(glyphs) for _, _, glyphs in layer_specs(case))
    ops = case["ops"]
    k = max(0, step - nsetup)
    prefix = ops[:k + 1]
    yield dict(case, ops=prefix)
    for variant in ("shallow", "full", "new"):
        fonts = json.loads(json.dumps(case["fonts"]))
        ok = True
        for f in fonts.values():
            if f["kind"] == "free":
                continue
            if variant == "new":
                f["kind"] = "new"
            elif f["kind"] != "disk":
                ok = ok and _disk_ok(f)
                f["kind"] = "disk"
            for g in f["glyphs"] + [g for l in f.get("layers", {}).values() for g in l]:
                g[1] = variant
        if ok:
            yield dict(case, fonts=fonts, ops=prefix)
            yield dict(case, fonts=fonts)
    keys = [(lid, g[0]) for lid, _, glyphs in layer_specs(case) for g in glyphs]
    for (f, n) in keys:
        for follow in (["rebuild", f, n, FULL], ["rebuild", f, n, ""], ["draw", f, n, ""], ["copy", f, n, "-", "nb"],
                       ["insert", f, n, f, "nbi"], ["decomposeAll", f, n], ["decompose", f, n, 0], ["segrebuild", f, n],
                       ["drawContour", f, n, 0, FULL], ["drawContour", f, n, 0, ""], ["drawComponent", f, n, 0, ""]):
            if f == "-" and follow[0] == "decomposeAll":
                continue
            yield dict(case, ops=prefix + [follow])
            yield dict(case, ops=[follow])


def _disk_ok(font):
    """can this in-memory font be written as a UFO (valid outlines, unique identifiers)?"""
    for _, _, c in font["glyphs"] + [g for l in font.get("layers", {}).values() for g in l]:
        seen = set()
        allids = [x["id"] for x in c["anchors"]] + [x["id"] for x in c["guidelines"]] + [k[2] for k in c["components"]]
        for ct in c["contours"]:
            allids.append(ct["id"])
            pts = ct["points"]
            allids += [p[5] for p in pts]
            if not pts:
                return False
            if any(p[2] == "move" for p in pts[1:]):
                return False
            if any(p[3] and p[2] is None for p in pts):
                return False
            if pts[0][2] == "move" and pts[-1][2] is None:
                return False
            cyc = pts if pts[0][2] == "move" else pts + pts
            run = 0
            for p in cyc:
                if p[2] is None:
                    run += 1
                else:
                    if run and p[2] in ("line", "move"):
                        return False
                    if p[2] == "curve" and run > 2:
                        return False
                    run = 0
        for i in allids:
            if i is not None:
                if i in seen:
                    return False
                seen.add(i)
    return True


# ---------------------------------------------------------------------------------------
# model side
# ---------------------------------------------------------------------------------------

def enc_num(v):
    return num_atom(v)


def enc_optnum(v):
    return opt(None if v is None else enc_num(v))


def enc_seg(s):
    return Atom("off" if s is None else s)


def enc_point(p):
    return [enc_num(p[0]), enc_num(p[1]), enc_seg(p[2]), bool(p[3]), opt(p[4]), opt(p[5])]


def enc_transform(t):
    return [enc_num(v) for v in t]


def lib_dump(lib):
    return json.dumps(lib, sort_keys=True, separators=(",", ":"))


DEFAULT_T = [1, 0, 0, 1, 0, 0]


def enc_content(c):
    img = c["image"]
    image = [opt(None), enc_transform(DEFAULT_T), opt(None)] if img is None else \
        [opt(img["fileName"]), enc_transform(img["t"]), opt(img["color"])]
    return [enc_num(c["width"]), enc_num(c["height"]), list(c["unicodes"]), opt(c["note"]), image,
            [[enc_optnum(a["x"]), enc_optnum(a["y"]), opt(a["name"]), opt(a["color"]), opt(a["id"])] for a in c["anchors"]],
            [[enc_optnum(g["x"]), enc_optnum(g["y"]), enc_optnum(g["angle"]), opt(g["name"]), opt(g["color"]), opt(g["id"])]
             for g in c["guidelines"]],
            lib_dump(c["lib"]),
            [[opt(ct["id"]), [enc_point(p) for p in ct["points"]]] for ct in c["contours"]],
            [[k[0], enc_transform(k[1]), opt(k[2])] for k in c["components"]]]


def enc_ev(e):
    if e[0] == "bp":
        return [Atom("bp"), opt(e[1])]
    if e[0] == "pt":
        return [Atom("pt")] + enc_point(e[1:])
    if e[0] == "ep":
        return [Atom("ep")]
    if e[0] == "comp":
        return [Atom("comp"), e[1], enc_transform(e[2]), opt(e[3])]
    raise ValueError(e)


def enc_op(op):
    k = op[0]
    if k in ("draw", "rebuild"):
        return [Atom(k), op[1], op[2], op_caps(op)]
    if k in ("segdraw", "segrebuild", "decomposeAll", "dump", "new"):
        return [Atom(k), op[1], op[2]]
    if k in ("drawContour", "drawComponent"):
        return [Atom(k), op[1], op[2], op[3], op_caps(op)]
    if k == "decompose":
        return [Atom(k), op[1], op[2], op[3]]
    if k in ("copy", "insert", "copyInto"):
        return [Atom(k), op[1], op[2], op[3], op[4]]
    if k == "hcopy":
        return [Atom("hcopy"), Atom(op[1]), hspec_tree(op[2])]
    if k == "pen":
        return [Atom("pen"), op[1], op[2], bool(op[3]), [enc_ev(e) for e in op[4]]]
    raise ValueError(op)


# -- object graphs as S-expressions (M-Cells): none | true | false | 12 | 3/2 | "str" | (tuple a ...) |
#    (list v ...) | (set v ...) | (dict ("k" v) ...) | (obj Cls ("k" v) ...)
#    (in answers a dict is `(dict (set ("k" v) ...))`: the order of its keys is not compared - a plist sorts them)

def pv_tree(v):
    """a tagged lib value of a case -> S-expression"""
    t = v["t"]
    if t == "int":
        return int(v["v"])
    if t == "num":
        return num_atom(v["v"])
    if t in ("str", "bool"):
        return v["v"]
    if t == "none":
        return None
    if t == "tuple":
        return [Atom("tuple")] + [int(x) for x in v["v"]]
    if t == "list":
        return [Atom("list")] + [pv_tree(x) for x in v["v"]]
    if t == "dict":
        return [Atom("dict")] + [[k, pv_tree(x)] for k, x in v["v"]]
    raise ValueError(v)


def pv_py(v):
    """a tagged lib value of a case -> the Python value"""
    t = v["t"]
    if t == "num":
        return to_py(v["v"])
    if t in ("int", "str", "bool"):
        return v["v"]
    if t == "none":
        return None
    if t == "tuple":
        return tuple(v["v"])
    if t == "list":
        return [pv_py(x) for x in v["v"]]
    if t == "dict":
        return {k: pv_py(x) for k, x in v["v"]}
    raise ValueError(v)


def optn(v):
    return None if v is None else num_atom(v)


def obj(cls, *pairs):
    return [Atom("obj"), Atom(cls)] + [[k, v] for k, v in pairs]


IMAGE_KEYS = ["xScale", "xyScale", "yxScale", "yScale", "xOffset", "yOffset"]


def hspec_tree(spec):
    """the source glyph of an hcopy op as the CASE describes it (a component transformation may be a list)"""
    c = spec["content"]
    img = c["image"]
    t = img["t"] if img else DEFAULT_T
    ids = [a["id"] for a in c["anchors"]] + [a["id"] for a in c["guidelines"]] + [k[2] for k in c["components"]]
    for ct in c["contours"]:
        ids.append(ct["id"])
        ids += [p[5] for p in ct["points"]]
    return obj("Glyph",
               ("width", num_atom(c["width"])), ("height", num_atom(c["height"])), ("note", c["note"]),
               ("unicodes", [Atom("list")] + [int(u) for u in c["unicodes"]]),
               ("lib", [Atom("dict")] + [[k, pv_tree(v)] for k, v in spec["lib"]]),
               ("image", obj("Image", ("fileName", img["fileName"] if img else None),
                             *([(k, num_atom(v)) for k, v in zip(IMAGE_KEYS, t)] + [("color", img["color"] if img else None)]))),
               ("anchors", [Atom("list")] + [obj("Anchor", ("x", optn(a["x"])), ("y", optn(a["y"])), ("name", a["name"]),
                                                ("color", a["color"]), ("identifier", a["id"])) for a in c["anchors"]]),
               ("guidelines", [Atom("list")] + [obj("Guideline", ("x", optn(a["x"])), ("y", optn(a["y"])),
                                                   ("angle", optn(a["angle"])), ("name", a["name"]), ("color", a["color"]),
                                                   ("identifier", a["id"])) for a in c["guidelines"]]),
               ("contours", [Atom("list")] + [
                   obj("Contour", ("identifier", ct["id"]),
                       ("points", [Atom("list")] + [obj("Point", ("x", num_atom(q[0])), ("y", num_atom(q[1])),
                                                        ("segmentType", q[2]), ("smooth", bool(q[3])), ("name", q[4]),
                                                        ("identifier", q[5])) for q in ct["points"]]))
                   for ct in c["contours"]]),
               ("components", [Atom("list")] + [
                   obj("Component", ("baseGlyph", k[0]), ("transformation", [Atom(kind)] + [num_atom(v) for v in k[1]]),
                       ("identifier", k[2])) for k, kind in zip(c["components"], spec["tkinds"])]),
               ("identifiers", [Atom("set")] + sorted(i for i in ids if i is not None)))


def setup_ops(case):
    res = []
    for lid, _, glyphs in layer_specs(case):
        for n, variant, content in glyphs:
            res.append(["mk", lid, n, variant, content])
    return res


def model_lines(case):
    lines = []
    for op in setup_ops(case):
        lines.append([Atom("mk"), op[1], op[2], Atom(op[3]), enc_content(op[4])])
    for op in case["ops"]:
        lines.append(enc_op(op))
    return lines


# ---------------------------------------------------------------------------------------
# implementation side
# ---------------------------------------------------------------------------------------

class RecPen(object):
    """recording point pen"""

    def __init__(self):
        self.evs = []

    def beginPath(self, identifier=None, **kwargs):
        self.evs.append(("bp", identifier))

    def addPoint(self, pt, segmentType=None, smooth=False, name=None, identifier=None, **kwargs):
        self.evs.append(("pt", pt[0], pt[1], segmentType, bool(smooth), name, identifier))

    def endPath(self):
        self.evs.append(("ep",))

    def addComponent(self, baseGlyphName, transformation, identifier=None, **kwargs):
        self.evs.append(("comp", baseGlyphName, tuple(transformation), identifier))


def restricted_pen_class(caps, forward):
    """A point pen class whose beginPath / addPoint / addComponent accept the `identifier` keyword only when
    "b" / "p" / "c" is in `caps` - the other methods have the signatures of the point pen protocol as it was
    before identifiers were added (no `identifier`, no **kwargs: the keyword raises TypeError, as in any pen
    written against that protocol).  forward=False: a recording pen (events as RecPen, identifier None where
    it cannot be told); forward=True: a filter pen that hands every call on to another point pen."""
    class Pen(object):
        def __init__(self, outPen=None):
            self.evs = []
            self._outPen = outPen

        def endPath(self):
            if forward:
                self._outPen.endPath()
            else:
                self.evs.append(("ep",))

    if "b" in caps:
        def beginPath(self, identifier=None, **kwargs):
            if forward:
                self._outPen.beginPath(identifier=identifier)
            else:
                self.evs.append(("bp", identifier))
    else:
        def beginPath(self):
            if forward:
                self._outPen.beginPath()
            else:
                self.evs.append(("bp", None))
    if "p" in caps:
        def addPoint(self, pt, segmentType=None, smooth=False, name=None, identifier=None, **kwargs):
            if forward:
                self._outPen.addPoint(pt, segmentType=segmentType, smooth=smooth, name=name, identifier=identifier)
            else:
                self.evs.append(("pt", pt[0], pt[1], segmentType, bool(smooth), name, identifier))
    else:
        def addPoint(self, pt, segmentType=None, smooth=False, name=None):
            if forward:
                self._outPen.addPoint(pt, segmentType=segmentType, smooth=smooth, name=name)
            else:
                self.evs.append(("pt", pt[0], pt[1], segmentType, bool(smooth), name, None))
    if "c" in caps:
        def addComponent(self, baseGlyphName, transformation, identifier=None, **kwargs):
            if forward:
                self._outPen.addComponent(baseGlyphName, transformation, identifier=identifier)
            else:
                self.evs.append(("comp", baseGlyphName, tuple(transformation), identifier))
    else:
        def addComponent(self, baseGlyphName, transformation):
            if forward:
                self._outPen.addComponent(baseGlyphName, transformation)
            else:
                self.evs.append(("comp", baseGlyphName, tuple(transformation), None))
    Pen.beginPath = beginPath
    Pen.addPoint = addPoint
    Pen.addComponent = addComponent
    Pen.__name__ = "%sPen_%s" % ("Filter" if forward else "Rec", caps or "old")
    return Pen


_PEN_CLASSES = {}


def pen_for(caps, outPen=None):
    """the pen a draw op draws into: today's protocol -> the plain recording pen / the glyph's own pen"""
    if caps == FULL:
        return RecPen() if outPen is None else outPen
    key = (caps, outPen is not None)
    if key not in _PEN_CLASSES:
        _PEN_CLASSES[key] = restricted_pen_class(caps, outPen is not None)
    return _PEN_CLASSES[key](outPen)


def draw_into(obj, pen, w=None):
    """obj.drawPoints(pen); the DeprecationWarnings about discarded identifiers are counted, never shown"""
    import warnings
    with warnings.catch_warnings(record=True) as caught:
        warnings.simplefilter("always")
        obj.drawPoints(pen)
    if w is not None and caught:
        w.count("pen.identifier-discarded-warnings", len(caught))


class RecSegPen(object):
    def __init__(self):
        self.evs = []

    def moveTo(self, pt):
        self.evs.append(("moveTo", pt))

    def lineTo(self, pt):
        self.evs.append(("lineTo", pt))

    def curveTo(self, *pts):
        self.evs.append(("curveTo", pts))

    def qCurveTo(self, *pts):
        self.evs.append(("qCurveTo", pts))

    def closePath(self):
        self.evs.append(("closePath",))

    def endPath(self):
        self.evs.append(("endPath",))

    def addComponent(self, name, t):
        self.evs.append(("addComponent", name, tuple(t)))


def stream(g):
    p = RecPen()
    g.drawPoints(p)
    return p.evs


def out_ev(e, mask_smooth=False):
    if e[0] == "bp":
        return [Atom("bp"), opt(e[1])]
    if e[0] == "pt":
        return [Atom("pt"), num_atom(e[1]), num_atom(e[2]), enc_seg(e[3]), False if mask_smooth else e[4], opt(e[5]), opt(e[6])]
    if e[0] == "ep":
        return [Atom("ep")]
    return [Atom("comp"), e[1], [num_atom(v) for v in e[2]], opt(e[3])]


def out_pt(p):
    return Atom("none") if p is None else [num_atom(p[0]), num_atom(p[1])]


def out_segev(e):
    if e[0] in ("moveTo", "lineTo"):
        return [Atom(e[0]), out_pt(e[1])]
    if e[0] in ("curveTo", "qCurveTo"):
        return [Atom(e[0]), [out_pt(p) for p in e[1]]]
    if e[0] == "addComponent":
        return [Atom("addComponent"), e[1], [num_atom(v) for v in e[2]]]
    return [Atom(e[0])]


def is_shallow(g):
    return getattr(g, "_shallowLoadedContours", None) is not None


def optnum(v):
    return opt(None if v is None else num_atom(v))


def optcolor(v):
    return opt(None if v is None else str(v))


def dump(g, mask_smooth=False):
    img = g.image
    t = img.transformation
    shallow = is_shallow(g)
    evs = stream(g)
    return [Atom("glyph"), opt(g.name), num_atom(g.width), num_atom(g.height), list(g.unicodes), opt(g.note),
            [opt(img.fileName), [num_atom(v) for v in t], optcolor(img.color)],
            [[optnum(a.x), optnum(a.y), opt(a.name), optcolor(a.color), opt(a.identifier)] for a in g.anchors],
            [[optnum(a.x), optnum(a.y), optnum(a.angle), opt(a.name), optcolor(a.color), opt(a.identifier)]
             for a in g.guidelines],
            lib_dump(_plain(g.lib)), shallow, [out_ev(e, mask_smooth) for e in evs],
            [Atom("set")] + sorted(g.identifiers)]


def _plain(v):
    if isinstance(v, dict):
        return {k: _plain(x) for k, x in v.items()}
    if isinstance(v, (list, tuple)):
        return [_plain(x) for x in v]
    return v


def fill_glyph(g, c):
    """assemble a glyph through the public API, in the order the model's `Glyph.ofContent` registers identifiers"""
    g.width = to_py(c["width"])
    g.height = to_py(c["height"])
    g.unicodes = list(c["unicodes"])
    g.note = c["note"]
    if c["image"] is not None:
        t = [to_py(v) for v in c["image"]["t"]]
        g.image = dict(fileName=c["image"]["fileName"], xScale=t[0], xyScale=t[1], yxScale=t[2], yScale=t[3],
                       xOffset=t[4], yOffset=t[5], color=c["image"]["color"])
    for gd in c["guidelines"]:
        g.appendGuideline(dict(x=to_py(gd["x"]), y=to_py(gd["y"]), angle=to_py(gd["angle"]), name=gd["name"],
                               color=gd["color"], identifier=gd["id"]))
    for a in c["anchors"]:
        g.appendAnchor(dict(x=to_py(a["x"]), y=to_py(a["y"]), name=a["name"], color=a["color"], identifier=a["id"]))
    if c["lib"]:
        g.lib.update(json.loads(json.dumps(c["lib"])))
    pen = g.getPointPen()
    play(pen, content_events(c))


def content_events(c):
    evs = []
    for ct in c["contours"]:
        evs.append(["bp", ct["id"]])
        for p in ct["points"]:
            evs.append(["pt"] + list(p))
        evs.append(["ep"])
    for k in c["components"]:
        evs.append(["comp", k[0], k[1], k[2]])
    return evs


def play(pen, evs):
    for e in evs:
        if e[0] == "bp":
            pen.beginPath(identifier=e[1])
        elif e[0] == "pt":
            pen.addPoint((to_py(e[1]), to_py(e[2])), segmentType=e[3], smooth=e[4], name=e[5], identifier=e[6])
        elif e[0] == "ep":
            pen.endPath()
        else:
            pen.addComponent(e[1], tuple(to_py(v) for v in e[2]), identifier=e[3])


ERRS = ("AssertionError", "AttributeError", "DefconError", "IndexError", "PenError", "TypeError", "KeyError")


def err_of(e):
    n = type(e).__name__
    return [Atom("err"), Atom(n if n in ERRS else "other:" + n)]


class World(object):
    def __init__(self, case, tmp):
        from defcon import Font
        self.case = case
        self.tmp = tmp
        self.fonts = {}
        self.layers = {}          # layer id -> the object glyphs are reached through (Font or Layer)
        self.where = {"-": ""}    # layer id -> suffix of the oracle's call site
        self.keep = []
        self.glyphs = {}          # (font id, name) -> glyph object
        self.poisoned = set()
        self.tainted = set()
        self.pairs = []           # (src key, dst key, dst object) of successful copies/inserts
        self.stats = {}
        self.good = 0
        for fid in sorted(case["fonts"]):
            spec = case["fonts"][fid]
            lnames = sorted(spec.get("layers", {}))
            if spec["kind"] == "free":
                from defcon import Layer
                self.layers[fid] = Layer()
                self.where[fid] = "@fontlessLayer"
                continue
            if spec["kind"] == "disk":
                f0 = Font()
                self.keep.append(f0)
                for n, _, c in spec["glyphs"]:
                    fill_glyph(f0.newGlyph(n), c)
                for lname in lnames:
                    l0 = f0.newLayer(lname)
                    self.keep.append(l0)
                    for n, _, c in spec["layers"][lname]:
                        fill_glyph(l0.newGlyph(n), c)
                path = os.path.join(tmp, fid + ".ufo")
                f0.save(path)
                font = Font(path)
            else:
                font = Font()
                for lname in lnames:
                    self.keep.append(font.newLayer(lname))
            self.fonts[fid] = font
            if spec.get("api") == "layer":
                self.layers[fid] = font.layers.defaultLayer
                self.where[fid] = "@defaultLayer"
            else:
                self.layers[fid] = font
                self.where[fid] = ""
            for lname in lnames:
                self.layers[fid + ":" + lname] = font.layers[lname]
                self.where[fid + ":" + lname] = "@secondLayer"
            self.keep += list(self.layers.values())

    def count(self, k, n=1):
        self.stats[k] = self.stats.get(k, 0) + n

    # -- one op ---------------------------------------------------------------------------
    def do(self, op):
        """returns (output value, oracle context dict or None)"""
        k = op[0]
        self.count("op." + k)
        if k == "mk":
            return self.mk(op)
        if k == "new":
            from defcon import Glyph
            f, n = op[1], op[2]
            g = Glyph() if f == "-" else self.layers[f].newGlyph(n)
            self.keep.append(g)
            self.glyphs[(f, n)] = g
            self.poisoned.discard((f, n))
            return [Atom("ok"), dump(g)], None
        if k == "hcopy":
            return self.hcopy(op)
        if k == "copyInto":
            return self.copy_into(op)
        key = (op[1], op[2])
        if key in self.poisoned:
            self.count("poisoned-skip")
            return [Atom("poisoned")], None
        g = self.glyphs.get(key)
        if g is None:
            return [Atom("err"), Atom("KeyError")], None
        ctx = dict(op=op, key=key, variant=self.state_of(g), tainted=key in self.tainted, where=self.where.get(op[1], ""))
        try:
            out = self.run_op(op, g, ctx)
            self.count("ok." + k)
            return out, ctx
        except Exception as e:
            from fontTools.pens.basePen import PenError
            if isinstance(e, PenError) and k in ("segdraw", "segrebuild"):
                self.count("err.PenError")
                ctx["error"] = "PenError"
                return [Atom("err"), Atom("PenError")], ctx
            if k != "pen":
                self.poisoned.add(key)
            else:
                # a rejected pen call leaves the glyph as the calls before it made it: modelled, not poisoned;
                # identifiers of a contour that was begun and never appended stay registered (C10's concern),
                # so the oracle does not judge identifier handling / rejections on this glyph any more
                self.tainted.add(key)
            ctx["error"] = type(e).__name__
            self.count("err." + type(e).__name__)
            return err_of(e), ctx

    def state_of(self, g):
        if is_shallow(g):
            return "shallow"
        return "deep"

    # -- copyDataFromGlyph into a glyph that already holds data ------------------------------------
    def copy_into(self, op):
        _, sf, sn, df, dn = op
        skey, dkey = (sf, sn), (df, dn)
        if skey in self.poisoned or dkey in self.poisoned:
            self.count("poisoned-skip")
            return [Atom("poisoned")], None
        g, d = self.glyphs.get(skey), self.glyphs.get(dkey)
        if g is None or d is None:
            return [Atom("err"), Atom("KeyError")], None
        ctx = dict(op=op, key=skey, variant=self.state_of(g), tainted=skey in self.tainted or dkey in self.tainted,
                   where=self.where.get(df, ""))
        ctx["src_dump"] = dump(g)
        ctx["dst_before"] = dump(d)
        ctx["dst_state"] = self.state_of(d)
        ctx["dst_ids"] = sorted(d.identifiers)
        ctx["src_ids"] = sorted(set(used_identifiers(g, stream(g))))
        ctx["src_ids_all"] = used_identifiers(g, stream(g))
        try:
            d.copyDataFromGlyph(g)
        except Exception as e:
            # the destination is left partly overwritten (and identifiers of objects made for it stay registered,
            # C10's F29): not modelled, poisoned; the source must be as it was
            self.poisoned.add(dkey)
            self.glyphs.pop(dkey, None)
            if df != "-" and dn in self.layers[df]:
                del self.layers[df][dn]         # no component may resolve to the half-overwritten glyph
            ctx["error"] = type(e).__name__
            ctx["src_after"] = dump(g)
            self.count("err." + type(e).__name__)
            return err_of(e), ctx
        self.count("ok.copyInto")
        self.pairs.append((skey, dkey, d, g))
        ctx["result"] = d
        ctx["src_after"] = dump(g)
        return [Atom("ok"), dump(d)], ctx

    # -- copies as object graphs ---------------------------------------------------------------------
    def hcopy(self, op):
        from defcon import Font, Glyph, Layer
        _, route, spec = op
        ctx = dict(op=["hcopy", route, spec["state"], spec["home"]], key=None, variant=spec["state"], where="." + route,
                   hcopy=True, route=route)
        try:
            c = spec["content"]

            def fill(g):
                fill_glyph(g, dict(c, lib={}, components=[]))
                pen = g.getPointPen()
                for (base, t, ident), kind in zip(c["components"], spec["tkinds"]):
                    tv = [to_py(v) for v in t]
                    pen.addComponent(base, tuple(tv) if kind == "tuple" else list(tv), identifier=ident)
                for k, v in spec["lib"]:
                    g.lib[k] = pv_py(v)
            font = None
            if spec["state"] == "new":
                if spec["home"] == "none":
                    src = Glyph()
                elif spec["home"] == "layer":
                    font = Layer()
                    src = font.newGlyph("D")
                else:
                    font = Font()
                    src = font.newGlyph("D")
                self.keep += [font, src]
                fill(src)
            else:
                f0 = Font()
                g0 = f0.newGlyph("D")
                self.keep += [f0, g0]
                fill(g0)
                self._hn = getattr(self, "_hn", 0) + 1
                path = os.path.join(self.tmp, "h%d.ufo" % self._hn)
                f0.save(path)
                font = Font(path)
                src = font["D"]
                self.keep += [font, src]
                if spec["state"] == "full":
                    len(src)
                elif c["contours"] and not is_shallow(src):
                    raise RuntimeError("harness: hcopy source is not shallow loaded")
            if route == "copyData":
                d = Glyph()
                self.keep.append(d)
                d.copyDataFromGlyph(src)
            elif route == "insertLayer":
                layer = Layer() if font is None else (font.layers.defaultLayer if hasattr(font, "layers") else font)
                self.keep.append(layer)
                d = layer.insertGlyph(src, name="cp")
            elif route == "insertFont":
                other = Font()
                self.keep.append(other)
                d = other.insertGlyph(src, name="D")
            elif route == "serial":
                d = Glyph()
                self.keep.append(d)
                d.setDataFromSerialization(src.getDataForSerialization())
            else:
                raise ValueError(route)
            self.keep.append(d)
            shared = shared_paths(src, d)
            ctx["shared"] = shared
            dt, st = glyph_tree(d), glyph_tree(src)
            ctx["trees"] = (dt, st)
            ctx["pair"] = (src, d)
            self.count("ok.hcopy." + route)
            self.count("hcopy.src." + spec["state"])
            if "list" in spec["tkinds"]:
                self.count("hcopy.component-transformation-given-as-list")
            return [Atom("ok"), [Atom("set")] + shared, dt, st], ctx
        except RuntimeError:
            raise
        except Exception as e:
            ctx["error"] = type(e).__name__
            self.count("err." + type(e).__name__)
            return err_of(e), ctx

    def mk(self, op):
        _, f, n, variant, c = op
        font = self.layers[f]
        key = (f, n)
        try:
            if variant == "new":
                g = font.newGlyph(n)
                self.glyphs[key] = g
                self.keep.append(g)
                fill_glyph(g, c)
            else:
                g = font[n]
                self.glyphs[key] = g
                self.keep.append(g)
                if variant == "full":
                    len(g)
                    assert not is_shallow(g)
                else:
                    # a glyph without contours has nothing to be shallow about
                    if c["contours"] and not is_shallow(g):
                        raise RuntimeError("harness: glyph %s is not shallow loaded" % n)
                    self.count("src.shallow.confirmed")
            return [Atom("ok"), dump(g)], dict(op=op, key=key, variant=variant, mk=True, glyph=g, where=self.where[f])
        except Exception as e:
            if isinstance(e, RuntimeError):
                raise
            # a glyph that could not be assembled is taken out of the font again (so that no component
            # resolves to a half-built base glyph) and is poisoned for direct ops
            self.poisoned.add(key)
            self.glyphs.pop(key, None)
            if n in font:
                del font[n]
            self.count("err." + type(e).__name__)
            return err_of(e), dict(op=op, key=key, variant=variant, mk=True, error=type(e).__name__, where=self.where[f])

    def run_op(self, op, g, ctx):
        from defcon import Glyph
        k = op[0]
        ok = Atom("ok")
        if k == "dump":
            return [ok, dump(g)]
        caps = op_caps(op)
        if caps != FULL and k in ("draw", "rebuild", "drawContour", "drawComponent"):
            self.count("pen." + k + "." + ("before-identifiers" if caps == "" else "partly-before-identifiers"))
        if k == "draw":
            ctx["before"] = stream(g)
            pen = pen_for(caps)
            draw_into(g, pen, self)
            evs = pen.evs
            ctx["stream"] = evs
            return [ok, [out_ev(e) for e in evs]]
        if k == "rebuild":
            ctx["before"] = stream(g)
            n = Glyph()
            self.keep.append(n)
            draw_into(g, pen_for(caps, n.getPointPen()), self)
            ctx["result"] = n
            return [ok, dump(n)]
        if k == "drawContour":
            ctx["before"] = stream(g)
            n = Glyph()
            self.keep.append(n)
            c = g[op[3]]
            draw_into(c, pen_for(caps, n.getPointPen()), self)
            ctx["result"] = n
            return [ok, dump(n)]
        if k == "drawComponent":
            ctx["before"] = stream(g)
            n = Glyph()
            self.keep.append(n)
            c = g.components[op[3]]
            draw_into(c, pen_for(caps, n.getPointPen()), self)
            ctx["result"] = n
            return [ok, dump(n)]
        if k == "segdraw":
            ctx["before"] = stream(g)
            p = RecSegPen()
            g.draw(p)
            ctx["segs"] = p.evs
            return [ok, [out_segev(e) for e in p.evs]]
        if k == "segrebuild":
            ctx["before"] = stream(g)
            n = Glyph()
            self.keep.append(n)
            g.draw(n.getPen())
            ctx["result"] = n
            return [ok, dump(n, mask_smooth=True)]
        if k == "copy":
            df, dn = op[3], op[4]
            ctx["src_dump"] = dump(g)
            d = Glyph() if df == "-" else self.layers[df].newGlyph(dn)
            self.keep.append(d)
            d.copyDataFromGlyph(g)
            self.glyphs[(df, dn)] = d
            self.poisoned.discard((df, dn))
            self.pairs.append((ctx["key"], (df, dn), d, g))
            ctx["result"] = d
            ctx["src_after"] = dump(g)
            return [ok, dump(d)]
        if k == "insert":
            df, dn = op[3], op[4]
            ctx["src_dump"] = dump(g)
            d = self.layers[df].insertGlyph(g, name=dn)
            self.keep.append(d)
            self.glyphs[(df, dn)] = d
            self.poisoned.discard((df, dn))
            self.pairs.append((ctx["key"], (df, dn), d, g))
            ctx["result"] = d
            ctx["src_after"] = dump(g)
            return [ok, dump(d)]
        if k in ("decompose", "decomposeAll"):
            ctx["before"] = stream(g)
            ctx["ids_before"] = used_identifiers(g, ctx["before"])
            # identifiers registered but carried by no object: left behind by an earlier REJECTED pen call
            # (C10's concern); then only the outline of the decomposition is judged here
            ctx["leaked"] = sorted(set(g.identifiers) - set(ctx["ids_before"]))
            ctx["font"] = self.layers.get(op[1])
            if k == "decompose":
                comp = g.components[op[3]]
                g.decomposeComponent(comp)
            else:
                g.decomposeAllComponents()
            ctx["result"] = g
            return [ok, dump(g)]
        if k == "pen":
            if split_stream([_ce(e) for e in op[4]]) is None:
                # a path that is begun and never ended leaves its identifiers registered without any object
                # carrying them - same consequence as a rejected call
                self.tainted.add(ctx["key"])
            p = g.getPointPen()
            p.skipConflictingIdentifiers = bool(op[3])
            ctx["before"] = stream(g)
            ctx["ids_before"] = used_identifiers(g, ctx["before"])
            play(p, op[4])
            ctx["result"] = g
            return [ok, dump(g)]
        raise ValueError(op)


def used_identifiers(g, evs):
    """identifiers in use in a glyph, from its own public data"""
    ids = [a.identifier for a in g.anchors] + [a.identifier for a in g.guidelines]
    for e in evs:
        if e[0] == "bp":
            ids.append(e[1])
        elif e[0] == "pt":
            ids.append(e[6])
        elif e[0] == "comp":
            ids.append(e[3])
    return [i for i in ids if i is not None]


def run_impl(case):
    tmp = tempfile.mkdtemp(prefix="c13_")
    try:
        return _run_impl(case, tmp)
    finally:
        shutil.rmtree(tmp, ignore_errors=True)


def _run_impl(case, tmp):
    w = World(case, tmp)
    outs = []
    viol = []
    nsetup = 0
    for op in setup_ops(case):
        out, ctx = w.do(op)
        outs.append(out)
        nsetup += 1
        if ctx is not None:
            viol += oracle_step(w, ctx, len(outs) - 1)
    for op in case["ops"]:
        out, ctx = w.do(op)
        outs.append(out)
        if ctx is not None:
            viol += oracle_step(w, ctx, len(outs) - 1)
    viol += oracle_independence(w)
    stats = dict(w.stats)
    for k, v in case.get("gen_stats", {}).items():
        stats[k] = stats.get(k, 0) + v
    stats["cases"] = 1
    big = any(len(ct["points"]) >= 3 for _, _, glyphs in layer_specs(case) for g in glyphs for ct in g[2]["contours"]) or \
        any(len(ct["points"]) >= 3 for op in case["ops"] if op[0] == "hcopy" for ct in op[2]["content"]["contours"])
    good = sum(w.stats.get("ok." + k, 0) for k in ("rebuild", "copy", "insert", "decompose", "decomposeAll", "segrebuild",
                                                     "copyInto")) + \
        sum(v for k, v in w.stats.items() if k.startswith("ok.hcopy."))
    return dict(out=outs, viol=viol[:5], info=dict(nontrivial=bool(big and good), stats=stats))


# ---------------------------------------------------------------------------------------
# direct oracle: the property's predicates on the implementation's own trace.
# Written without reference to the Lean model: streams are compared with streams, the expected
# decomposition is computed with 3x3 Fraction matrices from the recorded streams of the base glyphs.
# ---------------------------------------------------------------------------------------

def F(x):
    return Fraction(x)


def norm_ev(e, keep_ids=True, mask=False):
    if e[0] == "bp":
        return ("bp", e[1] if keep_ids else None)
    if e[0] == "pt":
        return ("pt", F(e[1]), F(e[2]), e[3], False if mask else bool(e[4]), None if mask else e[5], e[6] if keep_ids else None)
    if e[0] == "ep":
        return ("ep",)
    return ("comp", e[1], tuple(F(v) for v in e[2]), e[3] if keep_ids else None)


def split_stream(evs):
    """-> (contours [(ident, [pt events])], components [comp events]); None if the stream is not well bracketed"""
    contours, comps, cur = [], [], None
    for e in evs:
        if e[0] == "bp":
            if cur is not None:
                return None
            cur = (e[1], [])
        elif e[0] == "pt":
            if cur is None:
                return None
            cur[1].append(e)
        elif e[0] == "ep":
            if cur is None:
                return None
            contours.append(cur)
            cur = None
        else:
            if cur is not None:
                return None
            comps.append(e)
    if cur is not None:
        return None
    return contours, comps


def stream_ids(evs):
    ids = []
    for e in evs:
        if e[0] == "bp" and e[1] is not None:
            ids.append(e[1])
        elif e[0] == "pt" and e[6] is not None:
            ids.append(e[6])
        elif e[0] == "comp" and e[3] is not None:
            ids.append(e[3])
    return ids


def cap_stream(evs, caps):
    """what a pen whose methods accept `identifier` only as far as `caps` says can be told of a call stream:
    every call, with everything but the identifiers it has no keyword for"""
    out = []
    for e in evs:
        if e[0] == "bp" and "b" not in caps:
            e = ("bp", None)
        elif e[0] == "pt" and "p" not in caps:
            e = tuple(e[:6]) + (None,)
        elif e[0] == "comp" and "c" not in caps:
            e = tuple(e[:3]) + (None,)
        out.append(e)
    return out


def V(clause, ctx, **kw):
    op = ctx["op"]
    caps = op_caps(op)
    pen = "" if caps == FULL else (".penBeforeIdentifiers" if caps == "" else ".penAccepting[%s]" % caps)
    site = op[0] + pen + ctx.get("where", "") + "/" + str(ctx.get("variant"))
    d = dict(clause="C13/" + clause, signature="C13/%s/%s" % (clause, site), op=_short(op))
    d.update({k: _short(v) for k, v in kw.items()})
    return d


def _short(v):
    s = repr(v)
    return s if len(s) < 700 else s[:700] + "..."


def mat(t):
    xx, xy, yx, yy, dx, dy = [F(v) for v in t]
    return ((xx, yx, dx), (xy, yy, dy), (F(0), F(0), F(1)))


def matmul(a, b):
    return tuple(tuple(sum(a[i][k] * b[k][j] for k in range(3)) for j in range(3)) for i in range(3))


def matapply(m, x, y):
    return (m[0][0] * x + m[0][1] * y + m[0][2], m[1][0] * x + m[1][1] * y + m[1][2])


IDENT = mat([1, 0, 0, 1, 0, 0])


def flatten(font, base, m, depth=0):
    """the base glyph's outline under the affine map m, recursively: list of (ident, [point events]) or None"""
    if depth > 12:
        return None
    if base not in font:
        return []
    evs = stream(font[base])
    sp = split_stream(evs)
    if sp is None:
        return None
    contours, comps = sp
    res = []
    for ident, pts in contours:
        npts = []
        for p in pts:
            x, y = matapply(m, F(p[1]), F(p[2]))
            npts.append(("pt", x, y, p[3], bool(p[4]), p[5], p[6]))
        res.append((ident, npts))
    for c in comps:
        sub = flatten(font, c[1], matmul(m, mat(c[2])), depth + 1)
        if sub is None:
            return None
        res += sub
    return res


def expected_decomposition(font, before, ids_before, indices):
    """stream expected after decomposing the components at the given positions (one after the other)"""
    sp = split_stream(before)
    if sp is None:
        return None
    contours, comps = sp
    contours = [(i, [norm_ev(p) for p in pts]) for i, pts in contours]
    comps = list(comps)
    seen = set(ids_before)
    for idx in indices:
        c = comps[idx]
        inc = flatten(font, c[1], mat(c[2]))
        if inc is None:
            return None
        for ident, pts in inc:
            if ident is not None:
                if ident in seen:
                    ident = None
                else:
                    seen.add(ident)
            npts = []
            for p in pts:
                pid = p[6]
                if pid is not None:
                    if pid in seen:
                        pid = None
                    else:
                        seen.add(pid)
                npts.append(p[:6] + (pid,))
            contours.append((ident, npts))
        del comps[idx]
        if c[3] is not None:
            seen.discard(c[3])
    evs = []
    for ident, pts in contours:
        evs.append(("bp", ident))
        evs += pts
        evs.append(("ep",))
    evs += [norm_ev(c) for c in comps]
    return evs


def seg_expected(pts):
    """what the segment protocol can carry of one closed/open contour: the point list the round trip must
    give back (coordinates and types), or None when the contour is outside what the protocol is specified for"""
    if not pts:
        return []
    types = [p[3] for p in pts]
    if len(pts) == 1:
        return None                                   # a lone point always comes back as a 'move'
    if "move" in types[1:]:
        return None
    core = [(p[1], p[2], p[3]) for p in pts]
    if types[0] == "move":
        if types[-1] is None:
            return None                               # loose off-curves are dropped
        for i in range(1, len(pts)):
            if types[i] == "line" and types[i - 1] is None:
                return None
        return [core]
    n = len(pts)
    for i in range(n):
        if types[i] == "line" and types[i - 1] is None:
            return None
    ons = [i for i, t in enumerate(types) if t is not None]
    if not ons:
        if (F(pts[0][1]), F(pts[0][2])) == (F(pts[-1][1]), F(pts[-1][2])):
            return None                               # SegmentToPointPen.closePath merges equal first/last points
        return [core]
    k = ons[0]
    return [core[k:] + core[:k]]


def oracle_step(w, ctx, step):
    op = ctx["op"]
    k = op[0]
    err = ctx.get("error")
    viol = []
    if ctx.get("mk"):
        # source states: the stream a (new / shallow / fully loaded) glyph draws is the outline that was put in
        c = op[4]
        if not err:
            got = [norm_ev(e) for e in stream(ctx["glyph"])]
            exp = [norm_ev(_ce(e)) for e in content_events(c)]
            if got != exp:
                viol.append(V("source-draws-its-outline", ctx, expected=exp, observed=got))
        else:
            # building from valid content must not fail
            ids = [x["id"] for x in c["anchors"]] + [x["id"] for x in c["guidelines"]] + \
                stream_ids([_ce(e) for e in content_events(c)])
            ids = [i for i in ids if i is not None]
            if len(ids) == len(set(ids)):
                viol.append(V("valid-content-rejected", ctx, error=err))
        for v in viol:
            v["step"] = step
        return viol
    if ctx.get("hcopy"):
        viol = oracle_hcopy(w, ctx, err)
        for v in viol:
            v["step"] = step
        return viol
    if k == "copyInto":
        viol = oracle_copy_into(w, ctx, err)
        for v in viol:
            v["step"] = step
        return viol
    if k == "draw":
        # a pen that predates identifiers (in some or all of its methods) is told the same calls as a pen of
        # today's protocol, identifiers excepted: coordinates, types, smooth flags, names, bases, transformations
        before = ctx.get("before")
        caps = op_caps(op)
        if before is None or caps == FULL:
            return []
        if err:
            viol.append(V("restricted-pen-raises", ctx, error=err))
        else:
            got = [norm_ev(e) for e in ctx["stream"]]
            exp = [norm_ev(e) for e in cap_stream(before, caps)]
            if got != exp:
                viol.append(V("restricted-pen-stream", ctx, expected=exp, observed=got))
            after = [norm_ev(e) for e in stream(w.glyphs[ctx["key"]])]
            if after != [norm_ev(e) for e in before]:
                viol.append(V("drawing-changes-source", ctx))
    elif k in ("rebuild", "drawContour", "drawComponent"):
        before = ctx.get("before")
        if before is None:
            return []
        caps = op_caps(op)
        # rebuild: the identifiers that reach the empty glyph must be distinct; drawContour loads the whole
        # glyph first (glyph[i]), so all of its identifiers must be
        ids = stream_ids(cap_stream(before, caps) if k == "rebuild" else before)
        valid = len(ids) == len(set(ids)) and split_stream(before) is not None
        if k == "rebuild":
            part = before
        else:
            sp = split_stream(before)
            if sp is None:
                return []
            contours, comps = sp
            i = op[3]
            if k == "drawContour":
                if i >= len(contours):
                    if err != "IndexError":
                        viol.append(V("index", ctx, error=err))
                    return viol
                part = [("bp", contours[i][0])] + contours[i][1] + [("ep",)]
            else:
                if i >= len(comps):
                    if err != "IndexError":
                        viol.append(V("index", ctx, error=err))
                    return viol
                part = [comps[i]]
        part = cap_stream(part, caps)
        if err:
            if valid and not ctx.get("tainted"):
                viol.append(V("pointpen-roundtrip-raises", ctx, error=err))
        else:
            res = ctx["result"]
            got = [norm_ev(e) for e in stream(res)]
            exp = [norm_ev(e) for e in part]
            if got != exp:
                viol.append(V("pointpen-roundtrip", ctx, expected=exp, observed=got))
            elif sorted(res.identifiers) != sorted(set(stream_ids(part))):
                viol.append(V("pointpen-roundtrip-identifiers", ctx, expected=sorted(set(stream_ids(part))),
                              observed=sorted(res.identifiers)))
            # the source is not changed by being drawn
            after = [norm_ev(e) for e in stream(w.glyphs[ctx["key"]])]
            if after != [norm_ev(e) for e in before]:
                viol.append(V("drawing-changes-source", ctx))
    elif k == "segrebuild":
        before = ctx.get("before")
        sp = split_stream(before) if before is not None else None
        if sp is None:
            return []
        contours, comps = sp
        exps = [seg_expected(pts) for _, pts in contours]
        indomain = all(e is not None for e in exps)
        if err:
            if indomain and not ctx.get("tainted"):
                viol.append(V("segment-roundtrip-raises", ctx, error=err))
        elif indomain:
            res = ctx["result"]
            sp2 = split_stream(stream(res))
            exp = [[(F(x), F(y), t) for (x, y, t) in c] for e in exps for c in e]
            got = None if sp2 is None else [[(F(p[1]), F(p[2]), p[3]) for p in pts] for _, pts in sp2[0]]
            if got != exp:
                viol.append(V("segment-roundtrip-contours", ctx, expected=exp, observed=got))
            else:
                gc = [(c[1], tuple(F(v) for v in c[2])) for c in sp2[1]]
                ec = [(c[1], tuple(F(v) for v in c[2])) for c in comps]
                if gc != ec:
                    viol.append(V("segment-roundtrip-components", ctx, expected=ec, observed=gc))
    elif k in ("copy", "insert"):
        if err:
            # the source was built successfully, the destination is fresh: copying must not fail
            # (unless an earlier pen call made the source's identifiers ambiguous, see `tainted`)
            ids = used_identifiers(w.glyphs[ctx["key"]], stream(w.glyphs[ctx["key"]]))
            if not ctx.get("tainted") or len(ids) == len(set(ids)):
                viol.append(V("copy-raises", ctx, error=err))
        else:
            d = ctx["result"]
            src, dst = ctx["src_dump"], dump(d)
            # everything but the name (index 1) - and the shallow flag / identifier registry, which describe the
            # load state of the source, not its data
            a = [sexp_canon(x) for i, x in enumerate(src) if i not in (1, 10, 12)]
            b = [sexp_canon(x) for i, x in enumerate(dst) if i not in (1, 10, 12)]
            if a != b:
                viol.append(V("copy-equal", ctx, expected=a, observed=b))
            want = None if (k == "copy" and op[3] == "-") else op[4]
            if d.name != want:
                viol.append(V("copy-name", ctx, expected=want, observed=d.name))
            if sexp_canon(ctx["src_after"]) != sexp_canon(ctx["src_dump"]):
                viol.append(V("copy-changes-source", ctx))
            ids = used_identifiers(d, stream(d))
            if sorted(d.identifiers) != sorted(set(ids)) or len(ids) != len(set(ids)):
                viol.append(V("copy-identifiers", ctx, expected=sorted(ids), observed=sorted(d.identifiers)))
            if k == "insert":
                font = w.layers[op[3]]
                if op[4] not in font or font[op[4]] is not d:
                    viol.append(V("insert-not-in-layer", ctx))
                else:
                    # ... and in that layer only
                    for lid, other in w.layers.items():
                        if lid != op[3] and _layer_of(other) is not _layer_of(font) and op[4] in other and other[op[4]] is d:
                            viol.append(V("insert-not-in-layer", ctx, also_in=lid))
            if op[3] != "-" and d.layer is not _layer_of(w.layers[op[3]]):
                viol.append(V("copy-destination-layer", ctx))
    elif k in ("decompose", "decomposeAll"):
        before = ctx.get("before")
        sp = split_stream(before) if before is not None else None
        if sp is None or ctx.get("font") is None:
            return []
        ncomp = len(sp[1])
        if k == "decompose":
            if op[3] >= ncomp:
                if err != "IndexError":
                    viol.append(V("index", ctx, error=err))
                return viol
            indices = [op[3]]
        else:
            indices = [0] * ncomp
        if err:
            if not ctx.get("tainted"):
                viol.append(V("decompose-raises", ctx, error=err))
        else:
            exp = expected_decomposition(ctx["font"], before, ctx["ids_before"], indices)
            got = [norm_ev(e) for e in stream(ctx["result"])]
            if exp is not None and got != exp:
                # classify: geometry or identifiers
                ge = [norm_ev(e, keep_ids=False) for e in stream(ctx["result"])]
                ee = [(e[:6] + (None,)) if e[0] == "pt" else (("bp", None) if e[0] == "bp" else
                      (e[:3] + (None,) if e[0] == "comp" else e)) for e in exp]
                clause = "decompose-outline" if ge != ee else "decompose-identifiers"
                if clause == "decompose-identifiers" and (ctx.get("leaked") or ctx.get("tainted")):
                    w.count("decompose.identifiers-not-judged-after-rejected-call")
                else:
                    viol.append(V(clause, ctx, expected=exp, observed=got))
    elif k == "pen":
        before = ctx.get("before")
        evs = [_ce(e) for e in op[4]]
        wf = split_stream(evs) is not None and split_stream(before) is not None
        if not wf:
            return []
        # the property speaks about drawing into an EMPTY glyph: only that is judged here
        if before or ctx["variant"] == "shallow" or ctx.get("tainted"):
            return []
        inc = stream_ids(evs)
        skip = bool(op[3])
        conflict = len(set(inc)) != len(inc) or bool(set(inc) & set(ctx["ids_before"]))
        if err:
            if skip or not conflict:
                viol.append(V("pen-raises", ctx, error=err))
        else:
            got = [norm_ev(e, keep_ids=not conflict) for e in stream(ctx["result"])]
            spi = split_stream(evs)
            exp = []
            for ident, pts in spi[0]:
                exp += [("bp", ident)] + pts + [("ep",)]
            exp = [norm_ev(e, keep_ids=not conflict) for e in exp + spi[1]]
            if got != exp:
                viol.append(V("pen-into-empty-glyph", ctx, expected=exp, observed=got))
            if not skip and conflict:
                viol.append(V("pen-accepts-duplicate-identifier", ctx))
    for v in viol:
        v["step"] = step
    return viol


KNOWN_KEEPS_OUTLINE = "C13/copy-into-keeps-outline/copyInto"
KNOWN_SHARED_IDENTIFIER = "C13/copy-into-shared-identifier/copyInto"


def oracle_copy_into(w, ctx, err):
    """`copyDataFromGlyph` into a glyph that already holds data.  The property: the destination then equals the
    source (name aside), the source is unchanged.  Two recorded deviations have signatures of their own (F120: the
    destination's own contours / components stay in front of the copied ones; F121: AssertionError when source and
    destination have an identifier in common) - whatever else differs is a violation."""
    viol = []
    if sexp_canon(ctx["src_after"]) != sexp_canon(ctx["src_dump"]):
        viol.append(V("copy-changes-source", ctx))
    if ctx.get("tainted"):
        return viol
    common = set(ctx["dst_ids"]) & set(ctx["src_ids"])
    src_valid = len(ctx["src_ids_all"]) == len(set(ctx["src_ids_all"]))
    if err:
        if err == "AssertionError" and common:
            v = V("copy-into-shared-identifier", ctx, common=sorted(common))
            v["signature"] = KNOWN_SHARED_IDENTIFIER
            viol.append(v)
        elif src_valid:
            viol.append(V("copy-raises", ctx, error=err))
        return viol
    d = ctx["result"]
    src, before, after = ctx["src_dump"], ctx["dst_before"], dump(d)
    names = {2: "width", 3: "height", 4: "unicodes", 5: "note", 6: "image", 7: "anchors", 8: "guidelines", 9: "lib"}
    diff = [names[i] for i in sorted(names) if sexp_canon(after[i]) != sexp_canon(src[i])]
    if diff:
        viol.append(V("copy-equal", ctx, fields=diff, expected=[src[i] for i in sorted(names)],
                      observed=[after[i] for i in sorted(names)]))
    if sexp_canon(after[1]) != sexp_canon(before[1]):
        viol.append(V("copy-name", ctx, expected=before[1], observed=after[1]))
    if sexp_canon(after[11]) != sexp_canon(src[11]):
        # the outline is not the source's: the recorded deviation is exactly "old contours, then the source's
        # contours, then old components, then the source's components"
        sa = split_stream(_evs_of_dump(before[11]))
        sb = split_stream(_evs_of_dump(src[11]))
        kept = None
        if sa is not None and sb is not None:
            kept = []
            for ident, pts in sa[0] + sb[0]:
                kept += [("bp", ident)] + pts + [("ep",)]
            kept += sa[1] + sb[1]
        if kept is not None and (sa[0] or sa[1]) and _evs_of_dump(after[11]) == kept:
            v = V("copy-into-keeps-outline", ctx, kept_contours=len(sa[0]), kept_components=len(sa[1]))
            v["signature"] = KNOWN_KEEPS_OUTLINE
            viol.append(v)
        else:
            viol.append(V("copy-equal", ctx, fields=["outline"], expected=src[11], observed=after[11]))
    return viol


def _evs_of_dump(evs):
    """the stream of a dump (canonical atoms) as comparable tuples"""
    out = []
    for e in evs:
        k = str(e[0])
        if k == "bp":
            out.append(("bp", sexp_canon(e[1])))
        elif k == "pt":
            out.append(("pt",) + tuple(sexp_canon(x) for x in e[1:]))
        elif k == "ep":
            out.append(("ep",))
        else:
            out.append(("comp",) + tuple(sexp_canon(x) for x in e[1:]))
    return out


def oracle_hcopy(w, ctx, err):
    """a copy as an object graph: equal to the source (as a tree of values with their kinds) and no mutable object
    in common, then mutation probes on both sides.  The serialization route is not a copy path of the property: it
    is compared with the model only."""
    if ctx["route"] == "serial":
        return []
    viol = []
    if err:
        viol.append(V("copy-raises", ctx, error=err))
        return viol
    if ctx["shared"]:
        viol.append(V("independence-shared-object", ctx, fields=ctx["shared"]))
    dt, st = ctx["trees"]
    if sexp_canon(dt) != sexp_canon(st):
        viol.append(V("copy-equal", ctx, expected=st, observed=dt))
    src, d = ctx["pair"]
    try:
        d0 = sexp_canon(glyph_tree(d))
        try:
            mutate_all(src)
        except AssertionError:
            w.count("independence.mutation-rejected")
        if sexp_canon(glyph_tree(d)) != d0:
            viol.append(V("independence-source-mutation-reaches-copy", ctx))
        s1 = sexp_canon(glyph_tree(src))
        try:
            mutate_all(d)
        except AssertionError:
            w.count("independence.mutation-rejected")
        if sexp_canon(glyph_tree(src)) != s1:
            viol.append(V("independence-copy-mutation-reaches-source", ctx))
        w.count("independence.checked")
    except Exception as e:
        viol.append(V("independence-check-raises", ctx, error="%s: %s" % (type(e).__name__, e)))
    return viol


def _layer_of(container):
    """the Layer object behind a Font (its default layer) or a Layer"""
    layers = getattr(container, "layers", None)
    return container if layers is None else layers.defaultLayer


def _ce(e):
    """case event (JSON numbers) -> recorded-event shape"""
    if e[0] == "bp":
        return ("bp", e[1])
    if e[0] == "pt":
        return ("pt", _fr(e[1]), _fr(e[2]), e[3], bool(e[4]), e[5], e[6])
    if e[0] == "ep":
        return ("ep",)
    return ("comp", e[1], tuple(_fr(v) for v in e[2]), e[3])


def _fr(v):
    if isinstance(v, str):
        n, d = v.split("/")
        return Fraction(int(n), int(d))
    return Fraction(v)


def sexp_canon(v):
    import sexp
    return sexp.canon(v)


# -- independence ---------------------------------------------------------------------------

def full_dump(g):
    """every public datum of a glyph, through the objects (deepens a shallow glyph)"""
    cs = []
    for c in g:
        cs.append((c.identifier, [(F(p.x), F(p.y), p.segmentType, bool(p.smooth), p.name, p.identifier) for p in c]))
    ks = [(k.baseGlyph, tuple(F(v) for v in k.transformation), k.identifier) for k in g.components]
    return repr((g.width, g.height, list(g.unicodes), g.note, sorted((k, str(v)) for k, v in g.image.items()),
                 [sorted((k, str(v)) for k, v in a.items()) for a in g.anchors],
                 [sorted((k, str(v)) for k, v in a.items()) for a in g.guidelines],
                 lib_dump(_plain(g.lib)), cs, ks, sorted(g.identifiers)))


def mutate_lib(v):
    if isinstance(v, dict):
        for x in list(v.values()):
            mutate_lib(x)
        v["__mut"] = 1
    elif isinstance(v, list):
        for x in v:
            mutate_lib(x)
        v.append("__mut")


def mutate_all(g):
    """change every field of a glyph, in place where the API hands out mutable objects"""
    g.width = g.width + 7
    g.height = g.height + 3
    u = g.unicodes
    u.append(0x2603)                 # mutating the returned list must be harmless
    g.unicodes = [0x2603] + list(g.unicodes)
    g.note = (g.note or "") + " mutated"
    for a in g.anchors:
        a.x = (a.x or 0) + 1
        a.name = "mut"
    for a in g.guidelines:
        a.name = "mut"
        if a.x is not None:
            a.x = a.x + 1
    img = g.image
    img.fileName = "mut.png"
    img.transformation = (2, 0, 0, 2, 9, 9)
    img.color = "0,0,0,1"
    for x in list(g.lib.values()):
        mutate_lib(x)
    g.lib["__mutkey"] = [1]
    for c in g:
        for p in c:
            p.x = p.x + 1
            p.y = p.y - 1
            p.name = "mut"
            p.smooth = not p.smooth
        c.addPoint((777, 777), "line")
        c.dirty = True
    for k in g.components:
        t = k.transformation
        if isinstance(t, list):
            t[4] = t[4] + 5              # the getter handed out the object the component holds
        k.move((3, 4))
        k.baseGlyph = "mutbase"
    pen = g.getPointPen()
    pen.beginPath()
    pen.addPoint((1, 2), "move")
    pen.endPath()
    pen.addComponent("mut2", (1, 0, 0, 1, 0, 0))
    if len(g) > 1:
        g.removeContour(g[0])
    g.appendAnchor(dict(x=1, y=1, name="mutanchor"))


# -- object graphs: what a glyph IS (tree of values with their Python kinds) and which mutable objects it holds --

MUTABLE = (list, dict, set, bytearray)


def val_tree(x):
    """a Python value -> S-expression with its kinds (Color is a str; defcon dict objects are walked by their own rules)"""
    if x is None:
        return None
    if isinstance(x, bool):
        return x
    if isinstance(x, (int, float)):
        return num_atom(x)
    if isinstance(x, str):
        return str(x)
    if isinstance(x, tuple):
        return [Atom("tuple")] + [val_tree(v) for v in x]
    if isinstance(x, list):
        return [Atom("list")] + [val_tree(v) for v in x]
    if isinstance(x, (set, frozenset)):
        return [Atom("set")] + sorted((val_tree(v) for v in x), key=repr)
    if isinstance(x, dict):
        return [Atom("dict"), [Atom("set")] + [[str(k), val_tree(v)] for k, v in x.items()]]
    raise TypeError("harness: value of unexpected type in a glyph: %r" % (x,))


def glyph_tree(g):
    """the glyph as a tree of values; private attributes where the public getter would hide the kind (copy, tuple())"""
    img = g.image
    t = img.transformation
    return obj("Glyph",
               ("width", val_tree(g.width)), ("height", val_tree(g.height)), ("note", val_tree(g.note)),
               ("unicodes", val_tree(g._unicodes)),
               ("lib", val_tree(dict(g.lib))),
               ("image", obj("Image", ("fileName", val_tree(img.fileName)),
                             *([(k, val_tree(v)) for k, v in zip(IMAGE_KEYS, t)] + [("color", val_tree(img.color))]))),
               ("anchors", [Atom("list")] + [obj("Anchor", ("x", val_tree(a.x)), ("y", val_tree(a.y)), ("name", val_tree(a.name)),
                                                ("color", val_tree(a.color)), ("identifier", val_tree(a.identifier)))
                                            for a in g._anchors]),
               ("guidelines", [Atom("list")] + [obj("Guideline", ("x", val_tree(a.x)), ("y", val_tree(a.y)),
                                                   ("angle", val_tree(a.angle)), ("name", val_tree(a.name)),
                                                   ("color", val_tree(a.color)), ("identifier", val_tree(a.identifier)))
                                               for a in g._guidelines]),
               ("contours", [Atom("list")] + [
                   obj("Contour", ("identifier", val_tree(ct.identifier)),
                       ("points", [Atom("list")] + [obj("Point", ("x", val_tree(q.x)), ("y", val_tree(q.y)),
                                                        ("segmentType", val_tree(q.segmentType)), ("smooth", bool(q.smooth)),
                                                        ("name", val_tree(q.name)), ("identifier", val_tree(q.identifier)))
                                                    for q in ct._points]))
                   for ct in g]),
               ("components", [Atom("list")] + [
                   obj("Component", ("baseGlyph", val_tree(k.baseGlyph)), ("transformation", val_tree(k._transformation)),
                       ("identifier", val_tree(k.identifier))) for k in g._components]),
               ("identifiers", val_tree(g._identifiers)))


def all_mutable_ids(g):
    """id() of EVERY mutable object in the data of a glyph: the glyph, its containers, the objects in them, every
    list / dict / set at any depth of any attribute value (also inside tuples), the shallow-loaded contour records"""
    acc = {}

    def value(v):
        if isinstance(v, MUTABLE):
            if id(v) in acc:
                return
            acc[id(v)] = v
            for x in (list(v.values()) if isinstance(v, dict) else list(v)):
                value(x)
        elif isinstance(v, tuple):
            for x in v:
                value(x)

    def thing(o, attrs):
        acc[id(o)] = o
        for a in attrs:
            value(getattr(o, a, None))
    thing(g, ["_unicodes", "_width", "_height", "_note", "_identifiers", "_anchors", "_guidelines", "_contours", "_components",
              "_shallowLoadedContours"])
    for o in (g._lib, g._image):
        if o is not None:
            value(o)                       # Lib / Image are dicts: the object and everything in it
    for a in list(g._anchors) + list(g._guidelines):
        value(a)
    for ct in (g._contours or []):
        thing(ct, ["_points", "_identifier"])
        for q in ct._points:
            thing(q, ["_x", "_y", "_segmentType", "_smooth", "_name", "_identifier"])
    for k in g._components:
        thing(k, ["_baseGlyph", "_transformation", "_identifier"])
    return acc


def shared_paths(src, dst):
    """the fields of `dst` (named as the model's tables name them; items of lists / dicts / sets are `*`) that are
    mutable objects of `src`: walk `dst` from the glyph down, report the topmost shared object of every branch"""
    ids = all_mutable_ids(src)
    out = set()

    def value(v, path):
        if isinstance(v, MUTABLE):
            if id(v) in ids:
                out.add(path)
                return
            for x in (list(v.values()) if isinstance(v, dict) else list(v)):
                value(x, path + ".*" if path else "*")
        elif isinstance(v, tuple):
            for x in v:
                value(x, path)

    def thing(o, path, fields):
        """a defcon object with named attributes; False = it is shared (reported)"""
        if id(o) in ids:
            out.add(path)
            return False
        for name, v in fields:
            value(v, (path + "." if path else "") + name)
        return True

    def items(lst, path, each):
        if lst is None:
            return
        if id(lst) in ids:
            out.add(path)
            return
        for o in lst:
            each(o, path + ".*")
    if not thing(dst, "", [("width", dst._width), ("height", dst._height), ("note", dst._note), ("unicodes", dst._unicodes),
                           ("identifiers", dst._identifiers), ("contours", dst._shallowLoadedContours)]):
        return sorted(out)
    if dst._lib is not None:
        value(dst._lib, "lib")
    if dst._image is not None:
        if id(dst._image) in ids:
            out.add("image")
        else:
            for k, v in dst._image.items():
                value(v, "image." + k)
    for name, lst in (("anchors", dst._anchors), ("guidelines", dst._guidelines)):
        items(lst, name, lambda o, p: thing(o, p, [(k, v) for k, v in o.items()]))
    items(dst._contours, "contours", lambda ct, p: thing(ct, p, [("identifier", ct._identifier)]) and
          items(ct._points, p + ".points", lambda q, pp: thing(q, pp, [("x", q._x), ("y", q._y), ("name", q._name),
                                                                        ("segmentType", q._segmentType),
                                                                        ("identifier", q._identifier)])))
    items(dst._components, "components", lambda k, p: thing(k, p, [("baseGlyph", k._baseGlyph),
                                                                   ("transformation", k._transformation),
                                                                   ("identifier", k._identifier)]))
    return sorted(out)


def mutable_nodes(v, acc):
    if isinstance(v, (dict, list, set, bytearray)):
        acc.add(id(v))
        for x in (v.values() if isinstance(v, dict) else v):
            mutable_nodes(x, acc)
    return acc


def oracle_independence(w):
    viol = []
    done = set()
    for skey, dkey, d, s in w.pairs:
        if skey in w.poisoned or dkey in w.poisoned or skey == dkey:
            continue
        if w.glyphs.get(dkey) is not d or w.glyphs.get(skey) is not s:
            continue
        if id(d) in done or id(s) in done:
            continue          # each object takes part once: its dump is only meaningful before it was mutated
        done.add(id(d))
        done.add(id(s))
        ctx = dict(op=["independence", skey[0], skey[1], dkey[0], dkey[1]], variant=w.state_of(s))
        try:
            shared = shared_paths(s, d)
            if shared:
                viol.append(V("independence-shared-object", ctx, fields=shared))
            w.count("independence.graphs-walked")
            try:
                d0 = full_dump(d)
                s0 = full_dump(s)
            except AssertionError:
                # a glyph that cannot be deepened any more (an earlier pen call registered an identifier that one
                # of its own shallow-loaded contours carries: C10's concern) cannot be dumped through its objects
                w.count("independence.not-dumpable")
                continue
            try:
                mutate_all(s)
            except AssertionError:
                w.count("independence.mutation-rejected")
            if full_dump(d) != d0:
                viol.append(V("independence-source-mutation-reaches-copy", ctx, before=d0, after=full_dump(d)))
            s1 = full_dump(s)
            try:
                mutate_all(d)
            except AssertionError:
                w.count("independence.mutation-rejected")
            if full_dump(s) != s1:
                viol.append(V("independence-copy-mutation-reaches-source", ctx, before=s1, after=full_dump(s)))
            w.count("independence.checked")
        except Exception as e:
            viol.append(V("independence-check-raises", ctx, error="%s: %s" % (type(e).__name__, e)))
    return viol


# ---------------------------------------------------------------------------------------
# tie to the source, known findings, directed search
# ---------------------------------------------------------------------------------------

def extract(repo, lean_dir):
    """regenerate lean/DefconModel/Gen/CopyForms.lean (the syntactic form of every statement of the copy paths)"""
    import extract_copyforms
    return extract_copyforms.extract(repo, lean_dir)


def _simple_content(**kw):
    c = dict(width=500, height=0, unicodes=[65], note=None, image=None, anchors=[], guidelines=[], lib={},
             contours=[], components=[])
    c.update(kw)
    return c


_SQUARE = dict(id=None, points=[[0, 0, "line", False, None, None], [10, 0, "line", False, None, None],
                                [10, 10, "line", False, None, None]])

WITNESSES = {
    # F120: the destination's own contour stays in front of the copied one
    KNOWN_KEEPS_OUTLINE: dict(
        fonts={"f1": dict(kind="new", glyphs=[
            ["A", "new", _simple_content(contours=[_SQUARE])],
            ["B", "new", _simple_content(width=300, unicodes=[66], lib={"com.test.int": 1},
                                         contours=[dict(id=None, points=[[5, 5, "move", False, None, None],
                                                                         [7, 9, "line", False, None, None]])])]])},
        ops=[["copyInto", "f1", "A", "f1", "B"]]),
    # F121: source and destination both carry the anchor identifier "i1" (the second copy of the same source)
    KNOWN_SHARED_IDENTIFIER: dict(
        fonts={"f1": dict(kind="new", glyphs=[
            ["A", "new", _simple_content(anchors=[dict(x=1, y=2, name="top", color=None, id="i1")])],
            ["B", "new", _simple_content(width=300)]])},
        ops=[["copyInto", "f1", "A", "f1", "B"], ["copyInto", "f1", "A", "f1", "B"]]),
}


def replay_known(entry):
    case = WITNESSES.get(entry.get("signature"))
    if case is None:
        return False
    r = run_impl(case)
    return any(v.get("signature") == entry["signature"] for v in r["viol"])


def search(rng, tier, broken):
    """directed search after a broken obligation (the table of copy forms no longer matches): glyphs as object
    graphs with list-valued component transformations and nested libs through every copy route, and copies into
    glyphs that hold data"""
    n = 400 if tier == "quick" else 4000
    for i in range(n):
        if i % 4 == 3:
            case, _ = gen_case(rng, tier)
            if any(o[0] in ("copy", "insert", "copyInto") for o in case["ops"]):
                yield case
            continue
        yield gen_hcase(rng)
