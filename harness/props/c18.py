"""C18 - a failed save does no harm and loses nothing.

Fault injection without source hooks: the mutating calls the save path makes into fontTools.ufoLib
(UFOWriter / GlyphSet methods) and the standard library (shutil.move, shutil.rmtree, os.remove) are
wrapped in process; the k-th call raises OSError before doing anything.  For the history under test
k ranges over ALL steps of its final save (enumerated, not sampled).

Round 3: besides the injected OSError the histories carry REAL content faults (a value plistlib cannot write in a
glyph / font / layer lib, an anchor without coordinates, a glyph width that is not a number, a kerning value that is
not a number, feature text that is not text, a glyph in two kern1 groups): the save fails by itself at the step that
writes that content, the user corrects the content, saves again.  The order of the calls INSIDE each layer's save
(glyph files, deletions, contents.plist, layerinfo.plist) is compared with M-SaveSteps layer by layer, and for
in-place package saves the model's prediction of what the retry persists is compared with what it did."""
import copy
import os
import shutil
import tempfile

import fontgen as fg
import persist_common as pc
from sexp import Atom

PROP = "C18"
MODEL = "savesteps"
SHRINKABLE = False
RULE = ("generated fonts and edit histories (as C01; in half of the cases ending with a scripted layer scenario: an "
        "on-disk glyph deleted or renamed, a glyph changed, a new glyph, in ONE layer) ending in one save in a random mode "
        "(in place, save-as new, over an existing UFO, over a plain file; package/zip); a dry run counts the N mutating "
        "steps of that save, then the history is re-run N times with the k-th step raising OSError, and once per content "
        "fault of the case (1-3 of: unwritable glyph lib / anchor / width / mark colour, font lib, kerning, features, "
        "groups, layer lib) with the save failing by itself; after each failure: other-path destination byte-identical, "
        "no temporary directory left, path/format kept, still dirty; then (the content corrected,) more edits and a "
        "retry save to the font's path must succeed and the UFO read back must equal the shadow content; the calls "
        "inside each layer's save are compared with the model's order; for in-place package saves without pending layer "
        "renames the model's verdict on the retry (ok / raises / which glyphs are lost) is compared fault by fault; "
        "non-trivial = N >= 3 and the history mutates something; distinct = distinct (spec, ops)")
ASSUMPTIONS = [
    "an environment fault is an OSError raised by the step before it changes anything (no torn writes inside one ufoLib call)",
    "a content fault is a value the ufoLib writer rejects before it touches the file system (checked: every content-fault "
    "run must fail at the step that writes the spoiled object, else the case is reported)",
    "single fault per save; the finally-clause clean-up itself does not fail",
    "content domain as C01",
]
TRUSTED = ["the wrapped call sites are all mutating calls Font.save makes (checked against the step log of the dry run); "
           "fontTools.ufoLib / fs / shutil behave atomically per call"]
MODES = ["inplace", "inplace", "new", "overufo", "overfile"]


class Faults(object):
    def __init__(self):
        self.active = False
        self.count = 0
        self.fail_at = None
        self.log = []
        self.details = []
        self.tempdirs = []
        self.fired = None

    def reset(self, fail_at=None):
        self.active = True
        self.count = 0
        self.fail_at = fail_at
        self.log = []
        self.details = []
        self.fired = None

    def hit(self, name, detail=None):
        if not self.active:
            return
        self.count += 1
        self.log.append(name)
        self.details.append(detail)
        if self.fail_at is not None and self.count == self.fail_at:
            self.fired = name
            self.active = False           # one fault per save
            raise OSError("injected fault at step %d (%s)" % (self.count, name))


FAULTS = Faults()
_INSTALLED = [False]

WRITER_STEPS = ["writeInfo", "writeGroups", "writeKerning", "writeLib", "writeFeatures", "writeImage", "removeImage",
                "copyImageFromReader", "writeBytesToPath", "removePath", "copyFromReader", "deleteGlyphSet", "renameGlyphSet",
                "writeLayerContents", "setModificationTime", "close"]
GLYPHSET_STEPS = ["writeGlyph", "deleteGlyph", "writeContents", "writeLayerInfo"]


def install():
    if _INSTALLED[0]:
        return
    _INSTALLED[0] = True
    from fontTools.ufoLib import UFOWriter
    from fontTools.ufoLib.glifLib import GlyphSet

    def wrap(cls, name, label, glyphset=False):
        orig = getattr(cls, name)

        def w(self, *a, **k):
            detail = None
            if glyphset:
                # which glyph set (directory) and, for glyph files, which glyph
                gname = a[0] if a and name in ("writeGlyph", "deleteGlyph") else k.get("glyphName")
                detail = (id(self), gname if name in ("writeGlyph", "deleteGlyph") else None)
            FAULTS.hit(label, detail)
            return orig(self, *a, **k)
        w.__name__ = name
        setattr(cls, name, w)
    for n in WRITER_STEPS:
        wrap(UFOWriter, n, "UFOWriter." + n)
    for n in GLYPHSET_STEPS:
        wrap(GlyphSet, n, "GlyphSet." + n, glyphset=True)
    o_move, o_rmtree, o_remove, o_mkdtemp = shutil.move, shutil.rmtree, os.remove, tempfile.mkdtemp

    def in_temp(p):
        p = os.path.abspath(str(p))
        return any(p == t or p.startswith(t + os.sep) for t in FAULTS.tempdirs)

    def move(src, dst, *a, **k):
        FAULTS.hit("shutil.move")
        return o_move(src, dst, *a, **k)

    def rmtree(path, *a, **k):
        if not in_temp(path):
            FAULTS.hit("shutil.rmtree")
        return o_rmtree(path, *a, **k)

    def remove(path, *a, **k):
        if FAULTS.active and not in_temp(path) and str(path).endswith((".ufo", ".ufoz")):
            FAULTS.hit("os.remove")
        return o_remove(path, *a, **k)

    def mkdtemp(*a, **k):
        d = o_mkdtemp(*a, **k)
        if FAULTS.active:
            FAULTS.tempdirs.append(os.path.abspath(d))
        return d
    shutil.move, shutil.rmtree, os.remove, tempfile.mkdtemp = move, rmtree, remove, mkdtemp


GLYPH_FAULTS = ["lib", "anchor", "width", "markcolor"]


def _state_before_final_save(c):
    sh = pc.Shadow(c["spec"])
    for o in c["ops"][:-1]:
        if o[0] != "save":
            sh.do(o)
    return sh


def _last_saved_state(c):
    """the content of the UFO at the font's path before the final save (None: the font was never saved / read)"""
    sh = pc.Shadow(c["spec"])
    saved = copy.deepcopy(sh.s) if c.get("origin", "disk") == "disk" else None
    for o in c["ops"][:-1]:
        if o[0] == "save":
            saved = copy.deepcopy(sh.s)
        else:
            sh.do(o)
    return saved


def _layer_scenario(rng, c):
    """edits since the last successful save that make ONE layer's save interesting: a glyph that is on disk is deleted or
    renamed away (pending deletion), another one changed, sometimes a new glyph that sorts first / last"""
    sh = _state_before_final_save(c)
    saved = _last_saved_state(c)
    if saved is None:
        return [], None
    on_disk = {l["name"]: set(l["glyphs"]) for l in saved["layers"]}
    cands = [l for l in sh.s["layers"] if len([g for g in l["glyphs"] if g in on_disk.get(l["name"], ())]) >= 2]
    if not cands:
        return [], None
    L = rng.choice(cands)
    ln = L["name"]
    names = sorted(g for g in L["glyphs"] if g in on_disk[ln])
    rng.shuffle(names)
    gone, kept = names[0], names[1]
    ops = []
    if rng.random() < 0.75:
        ops.append(["gdel", ln, gone])
    else:
        pool = fg.BASES if gone in fg.BASES else fg.COMPOSITES
        free = [n for n in pool if n not in L["glyphs"]]
        if free:
            ops.append(["grename", ln, gone, rng.choice(free)])
        else:
            ops.append(["gdel", ln, gone])
    ops.append(["gfield", ln, kept, "width", rng.choice([111, 222, 640])])
    if rng.random() < 0.5:
        free = [n for n in fg.GLYPH_NAMES if n not in L["glyphs"]]
        if free:
            ops.append(["gnew", ln, rng.choice(free)])
    if len(names) > 2 and rng.random() < 0.4:
        ops.append(["gdel", ln, names[2]])
    rng.shuffle(ops)
    return ops, ln


def _gen_cfaults(rng, c, focus_layer):
    """1-3 real content faults applicable to the state before the final save"""
    sh = _state_before_final_save(c)
    res = []
    layers = [l for l in sh.s["layers"] if l["glyphs"]]
    n = rng.randint(1, 3)
    for _ in range(n):
        r = rng.random()
        if r < 0.62 and layers:
            L = None
            if focus_layer is not None and rng.random() < 0.85:
                L = next((l for l in layers if l["name"] == focus_layer), None)
            if L is None:
                L = rng.choice(layers)
            cf = ["glyph", L["name"], rng.choice(sorted(L["glyphs"])), rng.choice(GLYPH_FAULTS)]
        elif r < 0.70:
            cf = ["fontlib"]
        elif r < 0.77:
            cf = ["kerning"]
        elif r < 0.83:
            cf = ["features"]
        elif r < 0.88:
            cf = ["groups"]
        else:
            cf = ["layerlib", rng.choice([l["name"] for l in sh.s["layers"]])]
        if cf not in res:
            res.append(cf)
    return res


def _without_layer_actions(spec, ops):
    """the history without layer renames / deletions / changes of the default layer, and without the later ops that
    speak of a layer name that then does not exist"""
    sh = pc.Shadow(spec)
    res = []
    for o in ops:
        if o[0] in ("ldel", "lrename", "ldefault"):
            continue
        names = [l["name"] for l in sh.s["layers"]]
        if o[0] == "lorder":
            if sorted(o[1]) != sorted(names):
                continue
        elif o[0] in ("gget", "gread", "gnew", "ginsert", "gdel", "grename", "gset", "gfield", "lcolor", "llib"):
            if o[1] not in names:
                continue
        if o[0] != "save":
            sh.do(o)
        res.append(o)
    return res


def generate(rng, tier):
    n = 36 if tier == "quick" else 400
    for _ in range(n):
        c = pc.gen_case(rng, tier, MODES, maxops=8 if tier == "quick" else 14, p_save=0.1)
        # small fonts keep N moderate
        for l in c["spec"]["layers"]:
            for gn in list(l["glyphs"])[4:]:
                del l["glyphs"][gn]
        # exactly one save under test, at the end; earlier saves stay (they run without faults)
        ops = [o for o in c["ops"]]
        while ops and ops[-1][0] == "save":
            ops.pop()
        mode = rng.choice(MODES)
        scenario = rng.random() < 0.5
        if scenario:
            # the histories the one-layer model speaks about: a font read from a UFO directory, saved in place, usually
            # with no layer renamed / deleted / made the default since the last save
            if rng.random() < 0.7:
                mode = "inplace"
            if rng.random() < 0.7:
                c["structure"] = "package"
                ops = [o for o in ops if not (o[0] == "save" and o[2] == "zip")]
            if rng.random() < 0.85:
                c["origin"] = "disk"
            if rng.random() < 0.6:
                ops = _without_layer_actions(c["spec"], ops)
        ops.append(["save", mode, c["structure"]])
        c["ops"] = ops
        focus = None
        if scenario:
            extra, focus = _layer_scenario(rng, c)
            if rng.random() < 0.5:
                # ... and changes of the components that have steps of their own (data files, images, kerning, features)
                for _ in range(rng.randint(1, 2)):
                    r = rng.random()
                    if r < 0.4:
                        extra.append(["dat", rng.choice(fg.DATA_NAMES), rng.randint(7, 11)])
                    elif r < 0.7:
                        extra.append(["img", rng.choice(fg.IMAGE_NAMES), rng.randint(7, 11)])
                    elif r < 0.85:
                        extra.append(["kern", "%s|%s" % (rng.choice(fg.GLYPH_NAMES[:4]), rng.choice(fg.GLYPH_NAMES[:4])), rng.choice([-33, 41])])
                    else:
                        extra.append(["feat", rng.choice(["# h\n", "# i\n"])])
            c["ops"] = ops[:-1] + extra + [ops[-1]]
        # real content faults: each is tried in a run of its own
        c["cfaults"] = _gen_cfaults(rng, c, focus) if rng.random() < 0.8 else []
        # what the user does between the failure and the retry ("followed by any retry sequence")
        c["after"] = []
        if rng.random() < (0.35 if scenario else 0.6):
            sh = _state_before_final_save(c)
            c["after"] = [o for o in pc.gen_ops(rng, sh.s, rng.randint(1, 3), ["inplace"], p_save=0.0) if o[0] != "save"]
            if rng.random() < 0.5:
                # delete a glyph that exists at that point
                for l in sh.s["layers"]:
                    if l["glyphs"]:
                        c["after"].insert(0, ["gdel", l["name"], sorted(l["glyphs"])[0]])
                        break
        yield c


def _prepare(case, tmpd):
    """fresh font with the history applied up to (excluding) the final save"""
    impl = pc.Impl(case, tmpd)
    shadow = pc.Shadow(case["spec"])
    for op in case["ops"][:-1]:
        if op[0] == "save":
            st, _ = impl.do(op)
        else:
            st, _ = impl.do(op)
            shadow.do(op)
    return impl, shadow


def _final_save(impl, op, tmpd):
    """performs the save under test; returns (destination path, existed_before, digest_before)"""
    font = impl.font
    mode, structure = op[1], op[2]
    if mode == "inplace" and font.path is not None:
        return font.path, None, None, lambda: font.save()
    if mode == "inplace":
        mode = "new"
    p = impl.new_path(structure)
    before = None
    if mode == "overufo":
        fg.write_ufo(fg.gen_font(__import__("random").Random(len(p)), 2, 3), p, structure)
        before = pc.tree_digest(p)
    elif mode == "overfile":
        with open(p, "w") as f:
            f.write("not a ufo")
        before = {"<file>": open(p, "rb").read()}
    return p, mode, before, lambda: font.save(p, structure=structure)


def _dest_digest(p, mode):
    if mode == "overfile":
        return {"<file>": open(p, "rb").read()} if os.path.isfile(p) else {"<gone>": True}
    if not os.path.exists(p):
        return {"<gone>": True}
    try:
        return pc.tree_digest(p)
    except Exception as e:
        return {"<unreadable>": type(e).__name__}


PHASE = {"UFOWriter.writeInfo": 0, "UFOWriter.writeGroups": 1, "UFOWriter.writeKerning": 2, "UFOWriter.writeLib": 3,
         "UFOWriter.writeFeatures": 4}


def _layer_inputs(font):
    """per layer (in layerOrder): the inputs of M-SaveSteps' one-layer save, glyph names numbered in sorted order"""
    res = []
    for ln in font.layers.layerOrder:
        layer = font.layers[ln]
        gs = layer._glyphSet
        listed = set(gs.contents.keys()) if gs is not None else set()
        mem = set(layer.keys())
        sched = [n for n in layer._scheduledForDeletion.keys() if n in listed]     # dict order = order of the deletions
        dirty = set(n for n, g in layer._glyphs.items() if g.dirty and n in mem)
        univ = sorted(listed | mem | set(sched))
        ids = {n: i for i, n in enumerate(univ)}
        res.append(dict(name=ln, ids=ids, listed=sorted(ids[n] for n in listed), mem=sorted(ids[n] for n in mem),
                        dirty=sorted(ids[n] for n in dirty), sched=[ids[n] for n in sched],
                        new=sorted(ids[n] for n in dirty if n not in listed)))
    return res


def _layer_nsteps(L, kind):
    if kind == "inplace":
        return len(L["dirty"]) + len(L["sched"]) + 2
    return len(L["mem"]) + 2


def _abstract_inputs(case):
    """the inputs of the model's plan for the save under test, read off a prepared font (single process, no faults)"""
    tmpd = tempfile.mkdtemp(prefix="vc18_")
    try:
        impl, shadow = _prepare(case, tmpd)
        font = impl.font
        op = case["ops"][-1]
        mode = op[1]
        if mode == "inplace" and font.path is None:
            mode = "new"
        kind = "inplace" if mode == "inplace" else ("new" if mode == "new" else "over")

        def dirty(part):
            o = getattr(font, "_" + part)
            return bool(o is not None and o.dirty)
        # a font without feature text has no features component at all (Font._saveFeatures skips the write)
        has_feat = font.features.text is not None if (dirty("features") or kind != "inplace" or font._features is not None) else True
        flags = [True, True, dirty("kerning"), True] + ([dirty("features")] if has_feat else [])
        nglyphs = 0
        dirty_glyphs = []
        for ln in font.layers.layerOrder:
            layer = font.layers[ln]
            names = sorted(layer.keys())
            for gn in names:
                if kind == "inplace":
                    if gn in layer._glyphs and layer._glyphs[gn].dirty:
                        dirty_glyphs.append(nglyphs)
                nglyphs += 1
        layers = _layer_inputs(font)
        # layer actions the save will replay: new layers only get their glyph set created; the "default" action recorded
        # while the font was LOADED (no previous default) names the layer that is the default on disk already
        pending = [a["action"] for a in font.layers._layerActionHistory
                   if a["action"] != "new" and not (a["action"] == "default" and a.get("oldDefault") is None)]
        domain = (kind == "inplace" and str(font.path).endswith(".ufo") and not pending and not case.get("after"))
        font.close()
        return dict(kind=kind, flags=flags, nglyphs=nglyphs, dirty_glyphs=dirty_glyphs, nlayers=len(font.layers.layerOrder),
                    layers=layers, pending=pending, domain=domain, package=str(font.path).endswith(".ufo"))
    finally:
        shutil.rmtree(tmpd, ignore_errors=True)


def _retry_points(case, inp):
    """the faults whose retry the model predicts: (layer index, 'env', k) for every step inside every layer's save, and the
    content faults of the case that sit in a glyph or a layer lib — only for in-place package saves with no layer
    rename / delete / default change pending and no edits between failure and retry"""
    if not inp["domain"]:
        return []
    pts = []
    for li, L in enumerate(inp["layers"]):
        for k in range(_layer_nsteps(L, "inplace")):
            pts.append((li, "env", k))
    for ci, cf in enumerate(case.get("cfaults", [])):
        if cf[0] == "glyph":
            for li, L in enumerate(inp["layers"]):
                if L["name"] == cf[1] and cf[2] in L["ids"]:
                    pts.append((li, "glyph", L["ids"][cf[2]], ci))
        elif cf[0] == "layerlib":
            for li, L in enumerate(inp["layers"]):
                if L["name"] == cf[1]:
                    pts.append((li, "layerinfo", 0, ci))
    return pts


def model_lines(case):
    install()
    inp = _abstract_inputs(case)
    lines = [[Atom("plan"), Atom(inp["kind"]), inp["flags"], inp["nglyphs"], inp["dirty_glyphs"]]]
    lmode = Atom("inplace" if inp["kind"] == "inplace" else "saveas")
    for L in inp["layers"]:
        lines.append([Atom("layer"), lmode, L["listed"], L["mem"], L["dirty"], L["sched"]])
    for pt in _retry_points(case, inp):
        L = inp["layers"][pt[0]]
        dirty = L["dirty"]
        if pt[1] == "glyph":
            dirty = sorted(set(dirty) | {pt[2]})        # spoiling the glyph makes it dirty
        lines.append([Atom("retry"), L["listed"], L["mem"], dirty, L["sched"], Atom(pt[1]), pt[2]])
    return lines


def _segments(steps, details):
    """the dry run's calls on glyph sets, grouped by glyph set object: [[(label, glyph name)]] in call order"""
    segs = []
    cur = None
    for i, (s, d) in enumerate(zip(steps, details)):
        if not s.startswith("GlyphSet."):
            continue
        if cur is None or cur[0] != d[0]:
            cur = (d[0], [])
            segs.append(cur)
        cur[1].append((i, s, d[1]))
    return [c[1] for c in segs]


def _observed_layer(seg, L):
    res = []
    for _, s, gname in seg:
        if s == "GlyphSet.writeGlyph":
            res.append([Atom("glyph"), L["ids"].get(gname, 999)])
        elif s == "GlyphSet.deleteGlyph":
            res.append([Atom("delete"), L["ids"].get(gname, 999)])
        elif s == "GlyphSet.writeContents":
            res.append(Atom("contents"))
        elif s == "GlyphSet.writeLayerInfo":
            res.append(Atom("layerinfo"))
    return res


def _observed_plan(steps, kind, flags):
    """the dry run's step log in the model's vocabulary"""
    res = []
    if kind == "over":
        res.append(Atom("mkTemp"))
    comps = sorted({PHASE[s] for s in steps if s in PHASE})
    res.extend([[Atom("comp"), i] for i in comps])
    res.append(Atom("open"))
    res.extend([Atom("glyph")] * sum(1 for s in steps if s == "GlyphSet.writeGlyph"))
    res.append(Atom("contents"))
    if kind == "over":
        # the final replace: the destination is moved aside, the temporary UFO moved in; dropping what was put aside
        # (rmtree of a temporary directory with ignore_errors) is not a step that can fail and is not counted
        moves = sum(1 for s in steps if s == "shutil.move")
        if any(s in ("shutil.rmtree", "os.remove") for s in steps):
            res.append(Atom("remove"))
        if moves >= 2:
            res.append(Atom("aside"))
        if moves >= 1:
            res.append(Atom("move"))
    # order of phases as the code performs them
    first = {}
    for i, s in enumerate(steps):
        first.setdefault(s, i)
    gphase = [first[s] for s in ("GlyphSet.writeGlyph", "GlyphSet.deleteGlyph", "GlyphSet.writeContents") if s in first]
    seq = [first[s] for s in ("UFOWriter.writeInfo", "UFOWriter.writeGroups", "UFOWriter.writeKerning", "UFOWriter.writeLib",
                               "UFOWriter.writeFeatures") if s in first]
    seq += [min(gphase)] if gphase else []
    last = {}
    for i, s in enumerate(steps):
        last[s] = i
    seq += [last[s] for s in ("GlyphSet.writeContents",) if s in last]
    seq += [first[s] for s in ("UFOWriter.writeLayerContents", "UFOWriter.close", "shutil.move") if s in first]
    if seq != sorted(seq):
        res.append(Atom("out-of-order"))
    return res


OWN_STEP = {
    "data": {"UFOWriter.writeBytesToPath", "UFOWriter.removePath", "UFOWriter.copyFromReader"},
    "images": {"UFOWriter.writeImage", "UFOWriter.removeImage", "UFOWriter.copyImageFromReader"},
    "kerning": {"UFOWriter.writeKerning"}, "features": {"UFOWriter.writeFeatures"}, "info": {"UFOWriter.writeInfo"},
    "groups": {"UFOWriter.writeGroups"}, "lib": {"UFOWriter.writeLib"},
}


def _items(dump):
    """a dump as {item key: canonical value}: one item per top-level part, image, data file, layer and glyph"""
    import json
    res = {}
    for part in ("info", "guidelines", "kerning", "groups", "features", "lib", "default"):
        res[(part,)] = json.dumps(dump.get(part), sort_keys=True)
    for n, v in dump["images"].items():
        res[("images", n)] = v
    for n, v in dump["data"].items():
        res[("data", n)] = v
    res[("layerorder",)] = json.dumps([l["name"] for l in dump["layers"]])
    for l in dump["layers"]:
        res[("layers", l["name"], "<info>")] = json.dumps([l["color"], l["lib"]], sort_keys=True)
        for gn, g in l["glyphs"].items():
            res[("layers", l["name"], gn)] = json.dumps(g, sort_keys=True)
    return res


STEP_PHASE = {
    "UFOWriter.writeInfo": "comp", "UFOWriter.writeGroups": "comp", "UFOWriter.writeKerning": "comp",
    "UFOWriter.writeLib": "comp", "UFOWriter.writeFeatures": "comp",
    "UFOWriter.writeImage": "images", "UFOWriter.removeImage": "images", "UFOWriter.copyImageFromReader": "images",
    "UFOWriter.writeBytesToPath": "data", "UFOWriter.removePath": "data", "UFOWriter.copyFromReader": "data",
    "UFOWriter.deleteGlyphSet": "layer-actions", "UFOWriter.renameGlyphSet": "layer-actions",
    "GlyphSet.writeGlyph": "glyph-write", "GlyphSet.deleteGlyph": "glyph-delete", "GlyphSet.writeContents": "contents",
    "GlyphSet.writeLayerInfo": "layerinfo", "UFOWriter.writeLayerContents": "layercontents",
    "UFOWriter.setModificationTime": "close", "UFOWriter.close": "close",
    "shutil.move": "replace", "shutil.rmtree": "replace", "os.remove": "replace",
}


def _spoil(font, cf):
    """gives one object of the font content that its writer rejects (a REAL failure of the save, no injection)"""
    k = cf[0]
    if k == "glyph":
        g = font.layers[cf[1]][cf[2]]
        how = cf[3]
        if how == "lib":
            g.lib["com.a.bad"] = set([1])                     # plistlib cannot write a set
        elif how == "anchor":
            g.appendAnchor({"name": "bad"})                   # an anchor without coordinates
        elif how == "width":
            g.width = "wide"
        elif how == "markcolor":
            g.lib["public.markColor"] = "zz"
        return g
    if k == "fontlib":
        font.lib["com.a.bad"] = set([1])
    elif k == "kerning":
        font.kerning[("zzL", "zzR")] = "x"
    elif k == "features":
        font.features.text = 5
    elif k == "groups":
        font.groups["public.kern1.zz1"] = ["zzG"]
        font.groups["public.kern1.zz2"] = ["zzG"]             # one glyph in two kern1 groups
    elif k == "layerlib":
        font.layers[cf[1]].lib["com.a.bad"] = set([1])
    return None


def _correction(cf):
    """the ops (of the ordinary vocabulary: applied to the font and to the shadow) that make the spoiled object writable"""
    k = cf[0]
    if k == "glyph":
        ln, gn, how = cf[1], cf[2], cf[3]
        if how == "lib":
            return [["gfield", ln, gn, "libkey", ["com.a.bad", [1]]]]
        if how == "anchor":
            return [["gfield", ln, gn, "clearanchors", None]]
        if how == "width":
            return [["gfield", ln, gn, "width", 333]]
        return [["gfield", ln, gn, "libkey", ["public.markColor", None]]]
    if k == "fontlib":
        return [["lib", "com.a.bad", [1]]]
    if k == "kerning":
        return [["kern", "zzL|zzR", 7]]
    if k == "features":
        return [["feat", "# ok\n"]]
    if k == "groups":
        return [["group", "public.kern1.zz2", None], ["group", "public.kern1.zz1", ["zzG"]]]
    return [["llib", cf[1], "com.a.bad", 8]]


CF_STEP = {"glyph": "GlyphSet.writeGlyph", "fontlib": "UFOWriter.writeLib", "kerning": "UFOWriter.writeKerning",
           "features": "UFOWriter.writeFeatures", "groups": "UFOWriter.writeGroups", "layerlib": "GlyphSet.writeLayerInfo"}


def _reason(e):
    """why a retry raised, in a few stable words"""
    m = str(e)
    for pat, slug in (("contents.plist references a file that does not exist", "listed-file-gone"),
                      ("in contents.plist does not exist", "glif-unreadable"),
                      ("contents.plist is missing", "contents-missing"),
                      ("layercontents.plist", "layercontents"),
                      ("No glyphs directory", "no-glyphs-directory"),
                      ("is closed", "closed"),
                      ("not a zip", "bad-zip"), ("Bad magic", "bad-zip")):
        if pat in m:
            return slug
    return "other"


def _fault_context(inp, segs, step_index):
    """history features of the layer whose save the fault hits (None outside the glyph-set phases): pending deletions of
    on-disk glyphs, dirty glyphs that contents.plist does not list"""
    for li, seg in enumerate(segs):
        if any(i == step_index for i, _, _ in seg):
            if li < len(inp["layers"]):
                L = inp["layers"][li]
                return li, bool(L["sched"]), bool(L["new"])
            return li, False, False
    return None, False, False


def run_impl(case):
    install()
    op = case["ops"][-1]
    viol = []
    stats = {"mode." + op[1]: 1, "structure." + case.get("structure", "package"): 1}
    outs = []
    # dry run: count the steps
    tmpd = tempfile.mkdtemp(prefix="vc18_")
    try:
        impl, shadow = _prepare(case, tmpd)
        dest, mode, before, do_save = _final_save(impl, op, tmpd)
        FAULTS.tempdirs = []
        FAULTS.reset(None)
        try:
            do_save()
        finally:
            FAULTS.active = False
        steps = list(FAULTS.log)
        details = list(FAULTS.details)
        n = len(steps)
        impl.font.close()
    finally:
        shutil.rmtree(tmpd, ignore_errors=True)
    stats["steps"] = n
    inp = _abstract_inputs(case)
    kind_, flags_ = inp["kind"], inp["flags"]
    outs.append(_observed_plan(steps, kind_, flags_))
    # the calls inside each layer's save, layer by layer
    segs = _segments(steps, details)
    for li, L in enumerate(inp["layers"]):
        outs.append(_observed_layer(segs[li], L) if len(segs) == len(inp["layers"]) else [Atom("glyph-sets"), len(segs)])
    stats["layers"] = len(inp["layers"])
    if any(L["sched"] for L in inp["layers"]):
        stats["history.pending-deletion"] = 1
    if any(L["sched"] and L["dirty"] for L in inp["layers"]):
        stats["history.pending-deletion+dirty-glyph-same-layer"] = 1
    if inp["domain"]:
        stats["retry-predicted-cases"] = 1
    retry_points = _retry_points(case, inp)
    observed_retry = {}
    # global step index -> (layer index, index inside the layer's save)
    in_layer = {}
    for li, seg in enumerate(segs):
        for j, (i, _, _) in enumerate(seg):
            in_layer[i] = (li, j)

    def one_run(fault_k, cf, ci):
        """the history, then the save under test failing (environment: the fault_k-th call raises; content: `cf` spoiled),
        the property's oracles, (the correction,) the edits of the case, the retry"""
        tmpd = tempfile.mkdtemp(prefix="vc18_")
        try:
            impl, shadow = _prepare(case, tmpd)
            font = impl.font
            if cf is not None:
                try:
                    keep = _spoil(font, cf)
                    impl.keep.append(keep)
                except Exception:
                    stats["content.not-applicable"] = stats.get("content.not-applicable", 0) + 1
                    return
            path0, fmt0, dirty0 = font.path, font.ufoFormatVersion, font.dirty
            dest, mode, before, do_save = _final_save(impl, op, tmpd)
            FAULTS.tempdirs = []
            FAULTS.reset(fault_k)
            raised = None
            try:
                do_save()
            except Exception as e:
                raised = "%s: %s" % (type(e).__name__, str(e)[:120])
                e = None
            finally:
                FAULTS.active = False
            import gc
            gc.collect()          # a zip writer's scratch file system goes away with the writer object
            fkind = "env" if cf is None else "content"
            if cf is None:
                step = FAULTS.fired or "?"
                step_index = fault_k - 1
            else:
                step = FAULTS.log[-1] if FAULTS.log else "?"
                step_index = len(FAULTS.log) - 1
                if raised is not None and step != CF_STEP[cf[0]]:
                    # the save failed, but not at the step that writes the spoiled object: not the run that was meant
                    stats["content.failed-elsewhere"] = stats.get("content.failed-elsewhere", 0) + 1
            kind = op[1] if mode is None else mode
            stats["fault.%s.%s" % (fkind, step)] = stats.get("fault.%s.%s" % (fkind, step), 0) + 1
            sig_tail = "%s/%s" % (kind, step)
            rec = dict(step=step_index + 1, of=n, failing_step=step, mode=kind, fault=fkind)
            if cf is not None:
                rec["content_fault"] = cf
            if raised is None:
                viol.append(dict(rec, clause="C18/fault-swallowed", signature="C18/fault-swallowed/" + sig_tail))
                return
            # (1) an existing destination other than the font's own path is untouched
            if before is not None:
                after = _dest_digest(dest, mode)
                if after != before:
                    viol.append(dict(rec, clause="C18/destination-damaged", signature="C18/destination-damaged/" + sig_tail,
                                     after=sorted(after)[:5]))
            # (2) no temporary directory left behind
            left = [t for t in FAULTS.tempdirs if os.path.exists(t)]
            for t in left:
                shutil.rmtree(t, ignore_errors=True)
            if left:
                viol.append(dict(rec, clause="C18/temp-left", signature="C18/temp-left/" + sig_tail))
            # (3) identity kept, still dirty
            if font.path != path0 or font.ufoFormatVersion != fmt0:
                viol.append(dict(rec, clause="C18/identity-changed", signature="C18/identity-changed/" + sig_tail,
                                 path=[path0, font.path], fmt=[str(fmt0), str(font.ufoFormatVersion)]))
            if dirty0 and not font.dirty:
                viol.append(dict(rec, clause="C18/not-dirty-after-failure", signature="C18/not-dirty-after-failure/" + sig_tail))
            # (4) (the cause corrected,) more edits, then a retry to the font's path persists everything
            mclass = "inplace" if kind == "inplace" else "saveas"
            if kind == "inplace" and str(path0).endswith(".ufoz"):
                mclass = "inplace-zip"      # a zip is rewritten on close(): every earlier failure leaves it untouched
            # what explains a loss in an in-place package save: the kind and phase of the failing step, and the history
            # of the layer it hit (pending deletions of on-disk glyphs, dirty glyphs contents.plist does not list yet),
            # and whether layer renames / deletions / a change of the default layer were pending
            li, has_del, has_new = _fault_context(inp, segs, step_index)
            if inp["pending"]:
                # the layer action history is replayed by every attempt and the layers read from glyph sets whose
                # directories the failed attempt moved: one mechanism, whatever the step
                cause = "%s+layer-actions" % fkind
            else:
                cause = "%s@%s%s%s" % (fkind, STEP_PHASE.get(step, "other"), "+del" if has_del else "", "+new" if has_new else "")
            rec["cause"] = cause
            narrow = "/" + cause if mclass == "inplace" else ""
            verdict = None
            try:
                at_failure = _items(pc.strip_order(fg.expected_dump(shadow.s)))
                todo = (_correction(cf) if cf is not None else []) + list(case.get("after", []))
                for o in todo:
                    st, _ = impl.do(o)
                    if st == "ok":
                        shadow.do(o)
                        if o[0] == "lrename":
                            # a layer renamed after the failure: its items are the same items under the new name
                            at_failure = {((k[0], o[2]) + k[2:] if k[0] == "layers" and k[1] == o[1] else k): v
                                          for k, v in at_failure.items()}
                if font.path is not None:
                    font.save()
                else:
                    font.save(impl.new_path(case.get("structure", "package")))
                exp = _items(pc.strip_order(fg.expected_dump(shadow.s)))
                got = pc.strip_order(fg.read_ufo(font.path))
                got.pop("formatVersion", None)
                got.pop("structure", None)
                got = _items(got)
                bad = sorted(k for k in set(exp) | set(got) if exp.get(k) != got.get(k))
                seen = set()
                for k in bad:
                    post = at_failure.get(k) != exp.get(k)      # the item was changed AFTER the failed save
                    how = ""
                    if k[0] == "layers":
                        # what kind of change got lost
                        if k not in exp:
                            how = "/deleted-still-on-disk" if k[-1] != "<info>" else "/layer-removed-still-on-disk"
                        elif k not in got:
                            how = "/added-missing-on-disk"
                        else:
                            how = "/layer-info" if k[-1] == "<info>" else "/glyph-content"
                    if post:
                        sig = "C18/retry-loses-post-failure-change/%s/%s%s%s" % (mclass, k[0], how, narrow if k[0] == "layers" else "")
                    else:
                        own = "at-own-step" if OWN_STEP.get(k[0]) and step in OWN_STEP[k[0]] else "after-later-step"
                        sig = "C18/retry-loses-changes/%s/%s/%s" % (mclass, k[0], own)
                        if mclass == "inplace" and k[0] == "layers":
                            # (with layer actions pending the kind of loss is not told apart, as before round 3)
                            sig += narrow if inp["pending"] else how + narrow
                    if sig in seen:
                        continue
                    seen.add(sig)
                    viol.append(dict(rec, clause="C18/retry-loses-post-failure-change" if post else "C18/retry-loses-changes", signature=sig,
                                     item=list(k), expected=str(exp.get(k))[:200], observed=str(got.get(k))[:200]))
                # the verdict in the model's vocabulary: what a reader misses / finds too much in the layer the fault hit
                if li is not None and li < len(inp["layers"]):
                    L = inp["layers"][li]
                    missing, extra, other = [], [], []
                    for k in bad:
                        if k[0] == "layers" and k[1] == L["name"]:
                            if k[-1] == "<info>":
                                other.append(Atom("layerinfo"))
                            elif k in exp:
                                missing.append(L["ids"].get(k[2], 999))
                            else:
                                extra.append(L["ids"].get(k[2], 999))
                        else:
                            other.append(Atom("other:" + str(k[0])))
                    if not bad:
                        verdict = [Atom("ok")]
                    else:
                        verdict = [Atom("lost"), sorted(missing), sorted(extra)] + sorted(set(other), key=str)
            except Exception as e:
                verdict = [Atom("raises")]
                viol.append(dict(rec, clause="C18/retry-raises",
                                 signature="C18/retry-raises/%s/%s%s" % (
                                     mclass, type(e).__name__,
                                     "" if mclass != "inplace" else (narrow if inp["pending"] else "/" + _reason(e) + narrow)),
                                 error=str(e)[:200]))
            if cf is None and step_index in in_layer:
                observed_retry[(in_layer[step_index][0], "env", in_layer[step_index][1])] = verdict
            elif cf is not None and li is not None:
                observed_retry[(li, ci)] = verdict
            try:
                font.close()
            except Exception:
                pass
        finally:
            shutil.rmtree(tmpd, ignore_errors=True)

    for k in range(1, n + 1):
        one_run(k, None, None)
    for ci, cf in enumerate(case.get("cfaults", [])):
        stats["content." + cf[0] + ("." + cf[3] if cf[0] == "glyph" else "")] = 1
        one_run(None, cf, ci)
    for pt in retry_points:
        if pt[1] == "env":
            outs.append(observed_retry.get((pt[0], "env", pt[2]), [Atom("not-run")]))
        else:
            outs.append(observed_retry.get((pt[0], pt[3]), [Atom("not-run")]))
    stats["retry-predictions"] = len(retry_points)
    nontrivial = n >= 3 and any(o[0] not in ("save", "gget", "touch", "imgget", "datget") for o in case["ops"])
    return dict(out=outs, viol=viol, info=dict(nontrivial=nontrivial, stats=stats))


def _corpus_cases():
    import json
    path = os.path.join(os.path.dirname(os.path.dirname(os.path.abspath(__file__))), "corpus", "C18", "layer_save.json")
    return json.load(open(path))["cases"]


_CORPUS_SIGNATURES = []


def replay_known(entry):
    """a recorded finding about ONE layer's in-place save (its signature names the failing step: `...@phase...`) is
    confirmed when one of the hand-made histories (harness/corpus/C18) still shows its signature; the other entries are
    confirmed only by the generated histories of the run"""
    if "@" not in entry.get("signature", ""):
        return False
    if not _CORPUS_SIGNATURES:
        install()
        sigs = set()
        for c in _corpus_cases():
            sigs.update(v.get("signature") for v in run_impl(c)["viol"])
        _CORPUS_SIGNATURES.append(sigs)
    return entry["signature"] in _CORPUS_SIGNATURES[0]


def search(rng, tier, broken):
    """directed histories for the failing-input search (used when the tie between model and code no longer checks): the
    hand-made ones, then generated ones that all end with a layer scenario saved in place into a UFO directory"""
    for c in _corpus_cases():
        yield c
    for c in generate(rng, "quick"):
        if c["ops"][-1][1] == "inplace" and c.get("structure") == "package" and c.get("origin") == "disk":
            yield c
