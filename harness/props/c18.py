"""C18 - a failed save does no harm and loses nothing.

Fault injection without source hooks: the mutating calls the save path makes into fontTools.ufoLib
(UFOWriter / GlyphSet methods) and the standard library (shutil.move, shutil.rmtree, os.remove) are
wrapped in process; the k-th call raises OSError before doing anything.  For the history under test
k ranges over ALL steps of its final save (enumerated, not sampled)."""
import copy
import os
import shutil
import tempfile

import fontgen as fg
import persist_common as pc
from sexp import Atom

PROP = "C18"
MODEL = "savesteps"
SHRINKABLE = False
RULE = ("generated fonts and edit histories (as C01) ending in one save in a random mode (in place, save-as new, over an "
        "existing UFO, over a plain file; package/zip); a dry run counts the N mutating steps of that save, then the "
        "history is re-run N times with the k-th step raising OSError; after each failure: other-path destination "
        "byte-identical, no temporary directory left, path/format kept, still dirty; then a retry save to the font's path "
        "must succeed and the UFO read back must equal the shadow content; non-trivial = N >= 3 and the history mutates "
        "something; distinct = distinct (spec, ops)")
ASSUMPTIONS = [
    "a fault is an OSError raised by the step before it changes anything (no torn writes inside one ufoLib call)",
    "single fault per save; the finally-clause clean-up itself does not fail",
    "content domain as C01",
]
TRUSTED = ["the wrapped call sites are all mutating calls Font.save makes (checked against the step log of the dry run); "
           "fontTools.ufoLib / fs / shutil behave atomically per call"]
MODES = ["inplace", "inplace", "new", "overufo", "overfile"]


class Faults(object):
    def __init__(self):
        self.active = False
        self.count = 0
        self.fail_at = None
        self.log = []
        self.tempdirs = []
        self.fired = None

    def reset(self, fail_at=None):
        self.active = True
        self.count = 0
        self.fail_at = fail_at
        self.log = []
        self.fired = None

    def hit(self, name):
        if not self.active:
            return
        self.count += 1
        self.log.append(name)
        if self.fail_at is not None and self.count == self.fail_at:
            self.fired = name
            self.active = False           # one fault per save
            raise OSError("injected fault at step %d (%s)" % (self.count, name))


FAULTS = Faults()
_INSTALLED = [False]

WRITER_STEPS = ["writeInfo", "writeGroups", "writeKerning", "writeLib", "writeFeatures", "writeImage", "removeImage",
                "copyImageFromReader", "writeBytesToPath", "removePath", "copyFromReader", "deleteGlyphSet", "renameGlyphSet",
                "writeLayerContents", "setModificationTime", "close"]
GLYPHSET_STEPS = ["writeGlyph", "deleteGlyph", "writeContents", "writeLayerInfo"]


def install():
    if _INSTALLED[0]:
        return
    _INSTALLED[0] = True
    from fontTools.ufoLib import UFOWriter
    from fontTools.ufoLib.glifLib import GlyphSet

    def wrap(cls, name, label):
        orig = getattr(cls, name)

        def w(self, *a, **k):
            FAULTS.hit(label)
            return orig(self, *a, **k)
        w.__name__ = name
        setattr(cls, name, w)
    for n in WRITER_STEPS:
        wrap(UFOWriter, n, "UFOWriter." + n)
    for n in GLYPHSET_STEPS:
        wrap(GlyphSet, n, "GlyphSet." + n)
    o_move, o_rmtree, o_remove, o_mkdtemp = shutil.move, shutil.rmtree, os.remove, tempfile.mkdtemp

    def in_temp(p):
        p = os.path.abspath(str(p))
        return any(p == t or p.startswith(t + os.sep) for t in FAULTS.tempdirs)

    def move(src, dst, *a, **k):
        FAULTS.hit("shutil.move")
        return o_move(src, dst, *a, **k)

    def rmtree(path, *a, **k):
        if not in_temp(path):
            FAULTS.hit("shutil.rmtree")
        return o_rmtree(path, *a, **k)

    def remove(path, *a, **k):
        if FAULTS.active and not in_temp(path) and str(path).endswith((".ufo", ".ufoz")):
            FAULTS.hit("os.remove")
        return o_remove(path, *a, **k)

    def mkdtemp(*a, **k):
        d = o_mkdtemp(*a, **k)
        if FAULTS.active:
            FAULTS.tempdirs.append(os.path.abspath(d))
        return d
    shutil.move, shutil.rmtree, os.remove, tempfile.mkdtemp = move, rmtree, remove, mkdtemp


def generate(rng, tier):
    n = 36 if tier == "quick" else 400
    for _ in range(n):
        c = pc.gen_case(rng, tier, MODES, maxops=8 if tier == "quick" else 14, p_save=0.1)
        # exactly one save under test, at the end; earlier saves stay (they run without faults)
        ops = [o for o in c["ops"]]
        while ops and ops[-1][0] == "save":
            ops.pop()
        ops.append(["save", rng.choice(MODES), c["structure"]])
        c["ops"] = ops
        # what the user does between the failure and the retry ("followed by any retry sequence")
        c["after"] = []
        if rng.random() < 0.6:
            sh = pc.Shadow(c["spec"])
            for o in ops[:-1]:
                if o[0] != "save":
                    sh.do(o)
            c["after"] = [o for o in pc.gen_ops(rng, sh.s, rng.randint(1, 3), ["inplace"], p_save=0.0) if o[0] != "save"]
            if rng.random() < 0.5:
                # delete a glyph that exists at that point
                for l in sh.s["layers"]:
                    if l["glyphs"]:
                        c["after"].insert(0, ["gdel", l["name"], sorted(l["glyphs"])[0]])
                        break
        # small fonts keep N moderate
        for l in c["spec"]["layers"]:
            for gn in list(l["glyphs"])[4:]:
                del l["glyphs"][gn]
        yield c


def _prepare(case, tmpd):
    """fresh font with the history applied up to (excluding) the final save"""
    impl = pc.Impl(case, tmpd)
    shadow = pc.Shadow(case["spec"])
    for op in case["ops"][:-1]:
        if op[0] == "save":
            st, _ = impl.do(op)
        else:
            st, _ = impl.do(op)
            shadow.do(op)
    return impl, shadow


def _final_save(impl, op, tmpd):
    """performs the save under test; returns (destination path, existed_before, digest_before)"""
    font = impl.font
    mode, structure = op[1], op[2]
    if mode == "inplace" and font.path is not None:
        return font.path, None, None, lambda: font.save()
    if mode == "inplace":
        mode = "new"
    p = impl.new_path(structure)
    before = None
    if mode == "overufo":
        fg.write_ufo(fg.gen_font(__import__("random").Random(len(p)), 2, 3), p, structure)
        before = pc.tree_digest(p)
    elif mode == "overfile":
        with open(p, "w") as f:
            f.write("not a ufo")
        before = {"<file>": open(p, "rb").read()}
    return p, mode, before, lambda: font.save(p, structure=structure)


def _dest_digest(p, mode):
    if mode == "overfile":
        return {"<file>": open(p, "rb").read()} if os.path.isfile(p) else {"<gone>": True}
    if not os.path.exists(p):
        return {"<gone>": True}
    try:
        return pc.tree_digest(p)
    except Exception as e:
        return {"<unreadable>": type(e).__name__}


PHASE = {"UFOWriter.writeInfo": 0, "UFOWriter.writeGroups": 1, "UFOWriter.writeKerning": 2, "UFOWriter.writeLib": 3,
         "UFOWriter.writeFeatures": 4}


def _abstract_inputs(case):
    """the inputs of the model's plan for the save under test, read off a prepared font (single process, no faults)"""
    tmpd = tempfile.mkdtemp(prefix="vc18_")
    try:
        impl, shadow = _prepare(case, tmpd)
        font = impl.font
        op = case["ops"][-1]
        mode = op[1]
        if mode == "inplace" and font.path is None:
            mode = "new"
        kind = "inplace" if mode == "inplace" else ("new" if mode == "new" else "over")

        def dirty(part):
            o = getattr(font, "_" + part)
            return bool(o is not None and o.dirty)
        # a font without feature text has no features component at all (Font._saveFeatures skips the write)
        has_feat = font.features.text is not None if (dirty("features") or kind != "inplace" or font._features is not None) else True
        flags = [True, True, dirty("kerning"), True] + ([dirty("features")] if has_feat else [])
        nglyphs = 0
        dirty_glyphs = []
        for ln in font.layers.layerOrder:
            layer = font.layers[ln]
            names = sorted(layer.keys())
            for gn in names:
                if kind == "inplace":
                    if gn in layer._glyphs and layer._glyphs[gn].dirty:
                        dirty_glyphs.append(nglyphs)
                nglyphs += 1
        font.close()
        return kind, flags, nglyphs, dirty_glyphs, len(font.layers.layerOrder)
    finally:
        shutil.rmtree(tmpd, ignore_errors=True)


def model_lines(case):
    install()
    kind, flags, nglyphs, dirty_glyphs, nlayers = _abstract_inputs(case)
    # features is the one component the model cannot write conditionally on save-as: pass its flag, and let the
    # model treat save-as as "write all" only for the others by pre-filtering here
    return [[Atom("plan"), Atom(kind), flags, nglyphs, dirty_glyphs]]


def _observed_plan(steps, kind, flags):
    """the dry run's step log in the model's vocabulary"""
    res = []
    if kind == "over":
        res.append(Atom("mkTemp"))
    comps = sorted({PHASE[s] for s in steps if s in PHASE})
    res.extend([[Atom("comp"), i] for i in comps])
    res.append(Atom("open"))
    res.extend([Atom("glyph")] * sum(1 for s in steps if s == "GlyphSet.writeGlyph"))
    res.append(Atom("contents"))
    if kind == "over":
        # the final replace: the destination is moved aside, the temporary UFO moved in; dropping what was put aside
        # (rmtree of a temporary directory with ignore_errors) is not a step that can fail and is not counted
        moves = sum(1 for s in steps if s == "shutil.move")
        if any(s in ("shutil.rmtree", "os.remove") for s in steps):
            res.append(Atom("remove"))
        if moves >= 2:
            res.append(Atom("aside"))
        if moves >= 1:
            res.append(Atom("move"))
    # order of phases as the code performs them
    first = {}
    for i, s in enumerate(steps):
        first.setdefault(s, i)
    gphase = [first[s] for s in ("GlyphSet.writeGlyph", "GlyphSet.deleteGlyph", "GlyphSet.writeContents") if s in first]
    seq = [first[s] for s in ("UFOWriter.writeInfo", "UFOWriter.writeGroups", "UFOWriter.writeKerning", "UFOWriter.writeLib",
                               "UFOWriter.writeFeatures") if s in first]
    seq += [min(gphase)] if gphase else []
    last = {}
    for i, s in enumerate(steps):
        last[s] = i
    seq += [last[s] for s in ("GlyphSet.writeContents",) if s in last]
    seq += [first[s] for s in ("UFOWriter.writeLayerContents", "UFOWriter.close", "shutil.move") if s in first]
    if seq != sorted(seq):
        res.append(Atom("out-of-order"))
    return res


OWN_STEP = {
    "data": {"UFOWriter.writeBytesToPath", "UFOWriter.removePath", "UFOWriter.copyFromReader"},
    "images": {"UFOWriter.writeImage", "UFOWriter.removeImage", "UFOWriter.copyImageFromReader"},
    "kerning": {"UFOWriter.writeKerning"}, "features": {"UFOWriter.writeFeatures"}, "info": {"UFOWriter.writeInfo"},
    "groups": {"UFOWriter.writeGroups"}, "lib": {"UFOWriter.writeLib"},
}


def _items(dump):
    """a dump as {item key: canonical value}: one item per top-level part, image, data file, layer and glyph"""
    import json
    res = {}
    for part in ("info", "guidelines", "kerning", "groups", "features", "lib", "default"):
        res[(part,)] = json.dumps(dump.get(part), sort_keys=True)
    for n, v in dump["images"].items():
        res[("images", n)] = v
    for n, v in dump["data"].items():
        res[("data", n)] = v
    res[("layerorder",)] = json.dumps([l["name"] for l in dump["layers"]])
    for l in dump["layers"]:
        res[("layers", l["name"], "<info>")] = json.dumps([l["color"], l["lib"]], sort_keys=True)
        for gn, g in l["glyphs"].items():
            res[("layers", l["name"], gn)] = json.dumps(g, sort_keys=True)
    return res


def run_impl(case):
    install()
    op = case["ops"][-1]
    viol = []
    stats = {"mode." + op[1]: 1, "structure." + case.get("structure", "package"): 1}
    outs = []
    # dry run: count the steps
    tmpd = tempfile.mkdtemp(prefix="vc18_")
    try:
        impl, shadow = _prepare(case, tmpd)
        dest, mode, before, do_save = _final_save(impl, op, tmpd)
        FAULTS.tempdirs = []
        FAULTS.reset(None)
        try:
            do_save()
        finally:
            FAULTS.active = False
        steps = list(FAULTS.log)
        n = len(steps)
        impl.font.close()
    finally:
        shutil.rmtree(tmpd, ignore_errors=True)
    stats["steps"] = n
    kind_, flags_, ng_, dg_, nl_ = _abstract_inputs(case)
    obs = _observed_plan(steps, kind_, flags_)
    if kind_ != "inplace":
        # on save-as the model writes every component and every glyph: features only when there is text
        pass
    outs.append(obs)
    for k in range(1, n + 1):
        tmpd = tempfile.mkdtemp(prefix="vc18_")
        try:
            impl, shadow = _prepare(case, tmpd)
            font = impl.font
            path0, fmt0, dirty0 = font.path, font.ufoFormatVersion, font.dirty
            dest, mode, before, do_save = _final_save(impl, op, tmpd)
            FAULTS.tempdirs = []
            FAULTS.reset(k)
            raised = None
            try:
                do_save()
            except Exception as e:
                raised = "%s: %s" % (type(e).__name__, str(e)[:120])
                e = None
            finally:
                FAULTS.active = False
            import gc
            gc.collect()          # a zip writer's scratch file system goes away with the writer object
            step = FAULTS.fired or "?"
            kind = op[1] if mode is None else mode
            stats["fault." + step] = stats.get("fault." + step, 0) + 1
            sig_tail = "%s/%s" % (kind, step)
            rec = dict(step=k, of=n, failing_step=step, mode=kind)
            if raised is None:
                viol.append(dict(rec, clause="C18/fault-swallowed", signature="C18/fault-swallowed/" + sig_tail))
                continue
            # (1) an existing destination other than the font's own path is untouched
            if before is not None:
                after = _dest_digest(dest, mode)
                if after != before:
                    viol.append(dict(rec, clause="C18/destination-damaged", signature="C18/destination-damaged/" + sig_tail,
                                     after=sorted(after)[:5]))
            # (2) no temporary directory left behind
            left = [t for t in FAULTS.tempdirs if os.path.exists(t)]
            for t in left:
                shutil.rmtree(t, ignore_errors=True)
            if left:
                viol.append(dict(rec, clause="C18/temp-left", signature="C18/temp-left/" + sig_tail))
            # (3) identity kept, still dirty
            if font.path != path0 or font.ufoFormatVersion != fmt0:
                viol.append(dict(rec, clause="C18/identity-changed", signature="C18/identity-changed/" + sig_tail,
                                 path=[path0, font.path], fmt=[str(fmt0), str(font.ufoFormatVersion)]))
            if dirty0 and not font.dirty:
                viol.append(dict(rec, clause="C18/not-dirty-after-failure", signature="C18/not-dirty-after-failure/" + sig_tail))
            # (4) more edits, then a retry to the font's path persists everything
            try:
                at_failure = _items(pc.strip_order(fg.expected_dump(shadow.s)))
                for o in case.get("after", []):
                    st, _ = impl.do(o)
                    if st == "ok":
                        shadow.do(o)
                if font.path is not None:
                    font.save()
                else:
                    font.save(impl.new_path(case.get("structure", "package")))
                exp = _items(pc.strip_order(fg.expected_dump(shadow.s)))
                got = pc.strip_order(fg.read_ufo(font.path))
                got.pop("formatVersion", None)
                got.pop("structure", None)
                got = _items(got)
                bad = sorted(k for k in set(exp) | set(got) if exp.get(k) != got.get(k))
                mclass = "inplace" if kind == "inplace" else "saveas"
                if kind == "inplace" and str(path0).endswith(".ufoz"):
                    mclass = "inplace-zip"      # a zip is rewritten on close(): every earlier failure leaves it untouched
                seen = set()
                for k in bad:
                    post = at_failure.get(k) != exp.get(k)      # the item was changed AFTER the failed save
                    if post:
                        how = ""
                        if k[0] == "layers":
                            # what kind of later change got lost
                            if k not in exp:
                                how = "/deleted-still-on-disk" if k[-1] != "<info>" else "/layer-removed-still-on-disk"
                            elif k not in got:
                                how = "/added-missing-on-disk"
                            else:
                                how = "/layer-info" if k[-1] == "<info>" else "/glyph-content"
                        sig = "C18/retry-loses-post-failure-change/%s/%s%s" % (mclass, k[0], how)
                    else:
                        own = "at-own-step" if OWN_STEP.get(k[0]) and step in OWN_STEP[k[0]] else "after-later-step"
                        sig = "C18/retry-loses-changes/%s/%s/%s" % (mclass, k[0], own)
                    if sig in seen:
                        continue
                    seen.add(sig)
                    viol.append(dict(rec, clause="C18/retry-loses-post-failure-change" if post else "C18/retry-loses-changes", signature=sig,
                                     item=list(k), expected=str(exp.get(k))[:200], observed=str(got.get(k))[:200]))
            except Exception as e:
                viol.append(dict(rec, clause="C18/retry-raises",
                                 signature="C18/retry-raises/%s/%s" % (
                                     ("inplace-zip" if str(path0).endswith(".ufoz") else "inplace") if kind == "inplace" else "saveas",
                                     type(e).__name__),
                                 error=str(e)[:200]))
            try:
                font.close()
            except Exception:
                pass
        finally:
            shutil.rmtree(tmpd, ignore_errors=True)
    nontrivial = n >= 3 and any(o[0] not in ("save", "gget", "touch", "imgget", "datget") for o in case["ops"])
    return dict(out=outs, viol=viol, info=dict(nontrivial=nontrivial, stats=stats))
