"""C08 - notification payloads and Will/Did ordering tell the truth.

* implementation adaptor: harness/c08_world.py (real defcon, one universal observer that reads the getters
  INSIDE the callback);
* direct oracle (this file, `oracle`): the property's three sentences evaluated on the implementation's own
  trace, written without reference to the Lean model;
* correspondence with M-Setters (lean/DefconModel/Setters.lean): per operation the model is started from the
  abstraction of the target object's pre-state (read through the public getters) and must predict exactly the
  deliveries `(name, subject, old, new, getter-now)` of the operation's own notifications and the post-state;
* correspondence with M-Follow (lean/DefconModel/Follow.lean): for operations on a layer's glyphs and components the
  model is started from the abstraction of the layer (names -> glyph objects, outlines, components and what they
  observe) and must predict which components post Component.BaseGlyphDataChanged and what they observe afterwards;
* correspondence with M-OrderNotify (lean/DefconModel/OrderNotify.lean = M-GlyphOrder + the post of `_set_glyphOrder`):
  for every operation that goes through the font or a layer (newGlyph, insertGlyph, del, a glyph renamed,
  font.glyphOrder = ...) the model is started from the stored order and the layers' glyph names and must predict the
  deliveries of Font.GlyphOrderChanged (old, new, stored value at delivery) and the stored order afterwards;
* correspondence with M-Geom as C08 reads it (`(winding ...)` lines): for reverse() / clockwise = v on a contour of
  move / line points with integer coordinates the model must predict `clockwise` before, "the area is zero",
  `clockwise` after and the points after;
* the getter table (which getter a notification's old / new value talks about) is data of the Lean model
  (lean/DefconModel/NotifGetters.lean); the observers of c08_world are built from the harness's copy, which is
  compared with the model's on every run (`(getter-table)`, first line of the fixed history);
* `extract`: lean/DefconModel/Gen/NotifNames.lean (documented / posted names per class, statement-order
  skeletons of every method that posts, holds or releases, the data keys of every postNotification) regenerated
  from the AST on every run.
"""
import copy
import os
import random
import shutil
import sys
import tempfile

HERE = os.path.dirname(os.path.abspath(__file__))
sys.path.insert(0, os.path.dirname(HERE))

import fontgen as fg  # noqa: E402
from sexp import Atom, opt  # noqa: E402

MODEL = "setters"
SHRINKABLE = True
RULE = ("histories of 4-50 operations on a generated font (built in memory / loaded lazily from a generated UFO / just "
        "saved): every attribute setter and container mutator of Glyph, Anchor, Guideline, Image, Component, Contour, "
        "Layer, LayerSet, Font, Info, Features, Lib/Kerning/Groups and ImageSet with generated values (>= 20 % "
        "same-value repeats); objects handed to insertX / appendX are built by the caller (free-standing or via "
        "instantiateX) or by the pen, contours carry point identifiers (about a third; some twice inside one contour, "
        "some equal to the contour's own, some known to the glyph); glyphs are renamed also ONTO names that are taken; "
        "scripted scenarios at known positions (margins with and without vertical origin, undo of "
        "a delete, rejected insert of every kind of identifier clash, rename away and back, delete then re-create under the old name, clear-all, layer default/order/"
        "rename/delete, user hold brackets, edit-read-save, image and layer colour, contour reversal, dict items, "
        "image set, one image file name through absent / present / scheduled for deletion / set again with the deleted "
        "or other data, with and without a save in between; a font that stores a glyph order while glyphs are created, "
        "renamed (also onto taken names), deleted (also the last copy across layers) and inserted over names; contours "
        "without area (lone point, open and closed two-point contours, collinear points, symmetric figure eight / bow "
        "tie, a path back over itself; about a tenth of all inserted contours) reversed and given a direction; "
        "font guidelines, a component whose base glyph's name changes hands: replaced by newGlyph / insertGlyph / "
        "another glyph renamed onto it, deleted and re-created, renamed away and back - then edited) plus one fixed "
        "history that visits every recorded call site; every delivery is "
        "recorded by an early and a late observer that evaluate the getter inside the callback; relayed notifications "
        "(Component.BaseGlyphDataChanged, Layer.GlyphNameChanged, Layer.GlyphUnicodesChanged) are demanded whenever the "
        "public API shows their trigger, and so are Font.GlyphOrderChanged (whenever font.glyphOrder answers differently "
        "after an operation than before it) and the ImageSet add / delete / change announcements (from what `in` and "
        "`[]` answer before and after); non-trivial = at "
        "least one payload delivery AND one will delivery; distinct = distinct (font, history)")
ASSUMPTIONS = [
    "under USER holds only the old value is judged against the values the getter had inside the bracket; 'value when "
    "the observer is called', will/did ordering and relayed notifications are not claimed there (deferred delivery is "
    "the point of a hold)",
    "Font.GlyphOrderChanged carries the stored lib value (None when absent) while font.glyphOrder normalises absent "
    "to []: payload and getter are compared modulo None == []",
    "values handed to setters are in the documented form (lists for unicodes / orders, integers for metrics, "
    "4-tuples or UFO strings for colours); floats are compared with a 1e-9 tolerance",
    "renaming a LAYER onto an existing name, deleting the default layer, and cyclic component references "
    "are outside the domain (the adaptor skips them); renaming a GLYPH onto an existing name is in the domain (the "
    "glyph that was filed under the name is replaced, as with newGlyph / insertGlyph over a name)",
    "a composite (glyph.anchors = ..., font.guidelines = ..., copyDataFromGlyph, Layer.insertGlyph, decompose*) "
    "stopped half way by a rejected element is not judged; should such a call leave the hold it imposed on itself "
    "unreleased (the assignments and insertGlyph release it in a finally clause since 67bac07), the harness "
    "releases it after the failed call",
    "python asserts enabled (no -O)",
    "Font.GlyphOrderChanged is demanded for operations that go through the font or its layers; a direct write into "
    "font.lib (lib['public.glyphOrder'] = ..., lib.clear(), lib.update()) is an operation of the Lib object, for which "
    "Font documents nothing: not judged",
    "the image life cycle is judged on `name in images` and on the digest of the data `images[name]` answers (for an "
    "image that is not loaded yet: the bytes of the file in the UFO, read without defcon)",
    "notifications sent while objects are CREATED by the operation (lazy loading, instantiateAnchor(dict), "
    "copyDataFromGlyph's new objects) have no 'before': only their new value is judged",
    "sentence 3 for Component.BaseGlyphDataChanged reads the class docstring's bare list as 'posted when the data of "
    "the base glyph changes': the trigger is judged on the public API only (the outline - points of the contours, "
    "components - of layer[component.baseGlyph], or its absence, differs after the operation from before it; a "
    "replacement by a glyph with an EQUAL outline demands nothing), for components that stay attached with the same "
    "baseGlyph; that the holder glyph then posts Glyph.ComponentsChanged is not demanded (no sentence says so)",
    "a pen drawing that fails half way (a point identifier that is taken) leaves the identifiers it registered behind: "
    "C10's subject, not judged here",
]
TRUSTED = [
    "which public getter each notification talks about: lean/DefconModel/NotifGetters.lean (proved against the data "
    "keys of every postNotification of the sources and against the catalogue); harness/c08_world.py builds its "
    "observers from its copy GETTERS (compared with the model's table on every run) by `getter_from` (attribute path "
    "/ item access); the WILL table's membership observations (which container a will's subject enters or leaves) "
    "stay in the harness",
    "harness/c08_model.py: abstraction of an object's state into the model's store (through getters; peeks at "
    "_image, _scheduledForDeletion, _shallowLoadedContours, layer._glyphs avoid triggering lazy creation / loading) and "
    "value tokens (equal token <=> Python ==); for M-Follow: what a component observes is read through the public "
    "hasObserver of its layer and of the glyphs filed in it",
    "harness/extract_notif.py: AST extractor (fails closed on unrecognised statement kinds, notification-name "
    "expressions, payload shapes, decorators); which calls count as state changes is a syntactic rule "
    "(receiver rooted at self/super, observation wiring excluded)",
    "facts the model takes as arguments because they live outside the object's store: duplicate-identifier / "
    "ownership rejections (computed by the harness from the incoming object's own identifiers - twice the same one "
    "included - and the container's public `identifiers`), fontTools' fontinfo validation, image digests; 'the "
    "contour's area is zero' is such an argument too, but for contours of move / line points with integer coordinates "
    "it is also computed by M-Geom from the points and compared (winding lines; `winding_payload_truth` proves the "
    "entry right for every valid contour given the geometric value)",
    "the image set's names scheduled for deletion are read from the private `_scheduledForDeletion` (no public API "
    "shows them) for the model's pre-state; the direct oracle uses `in` / `fileNames` / `[]` only",
    "M-Follow is compared operation by operation from the implementation's own pre-state for: Glyph.name=, "
    "Layer.newGlyph / insertGlyph / __delitem__, insertComponent / removeComponent, Component.baseGlyph= and every "
    "other operation after which exactly one glyph's outline differs; operations that also attach or detach other "
    "components (a holder replaced, clear, decompose*, copyDataFromGlyph with components) get no M-Follow line",
]

CLASS_OF = {"font": "Font", "info": "Info", "features": "Features", "lib": "Lib", "kerning": "Kerning",
            "groups": "Groups", "images": "ImageSet", "layers": "LayerSet", "layer": "Layer", "llib": "Lib",
            "glyph": "Glyph", "glib": "Lib", "image": "Image", "fguideline": "Guideline", "anchor": "Anchor",
            "guideline": "Guideline", "component": "Component", "contour": "Contour"}


def op_name(op):
    """the call site: public operation invoked"""
    k = op[0]
    if k in ("hold", "release", "save", "touch"):
        return k
    cls = CLASS_OF[op[1][0]]
    if k == "set":
        a = op[2]
        if cls == "Glyph" and a == "image":
            return "Glyph.image=None" if op[3] is None else "Glyph.image="
        if cls == "Info":
            return "Info.<attr>="
        return "%s.%s=" % (cls, a)
    if k == "setitem":
        return cls + ".__setitem__"
    if k == "delitem":
        return cls + ".__delitem__"
    if k in ("clear", "update", "setdefault", "pop"):
        return "%s.%s" % (cls, k)
    if k == "call":
        m = op[2]
        if m == "reinsert":
            return "Glyph.insert%s" % op[3].capitalize()
        if m == "removeForeign":
            return "Glyph.remove%s" % op[3].capitalize()
        if m == "reinsertGuideline":
            return "Font.insertGuideline"
        if m == "removeForeignGuideline":
            return "Font.removeGuideline"
        return "%s.%s" % (cls, m)
    return k


# ---------------------------------------------------------------------------------------------------
# direct oracle
# ---------------------------------------------------------------------------------------------------

_MISSING = object()


def _eq(a, b):
    try:
        if isinstance(a, float) or isinstance(b, float):
            import math
            if isinstance(a, (int, float)) and isinstance(b, (int, float)) and not isinstance(a, bool) and not isinstance(b, bool):
                return math.isclose(a, b, rel_tol=1e-9, abs_tol=1e-9)
        return bool(a == b)
    except Exception:
        return False


def _origin(ev, site):
    """the call site a delivery is attributed to: an Image.ColorChanged that carries the layer's payload
    (keys oldColor/newColor) originates in `layer.color = ...` whenever it is delivered"""
    if ev is not None and ev.name == "Image.ColorChanged" and isinstance(ev.data, dict) and "oldColor" in ev.data:
        return "Layer.color="
    return site


def membership_snapshot(world):
    """{(id(container), will-name-family): set of subjects} before an operation"""
    font = world.font
    m = {}
    m[(id(font), "Guideline")] = [id(x) for x in font.guidelines]
    m[(id(font.images), "Image")] = list(font.images.fileNames)
    ls = font.layers
    m[(id(ls), "Layer")] = list(ls.layerOrder)
    m[(id(ls), "DefaultLayer")] = None if ls.defaultLayer is None else ls.defaultLayer.name
    for ln in ls.layerOrder:
        layer = ls[ln]
        m[(id(layer), "Glyph")] = set(layer.keys())
        m[(id(layer), "GlyphIdent")] = {n: id(g) for n, g in layer._glyphs.items()}
        for g in list(layer._glyphs.values()):
            if g._shallowLoadedContours is None:
                m[(id(g), "Contour")] = [id(x) for x in g._contours]
            m[(id(g), "Component")] = [id(x) for x in g.components]
            m[(id(g), "Anchor")] = [id(x) for x in g.anchors]
            m[(id(g), "Guideline")] = [id(x) for x in g.guidelines]
            im = g._image
            m[(id(g), "Image")] = None if im is None else (im.fileName, im.transformation, im.color)
    return m


def _family(will_name):
    n = will_name.split(".")[1]
    for f in ("Contour", "Component", "Anchor", "Guideline", "Glyph", "Layer", "Image"):
        if n.startswith(f):
            return f
    return n


def oracle(world, op, status, snap, members, events):
    """the property evaluated on the deliveries of ONE operation issued outside any user hold"""
    from c08_world import PAYLOAD, WILL, ATTR, NORMALISE
    site = op_name(op)
    viol = []

    def v(clause, ev, **kw):
        detail = clause
        if clause in ("will-after-change", "will-after-did"):
            clause = "will-late"          # one finding per call site
        if clause in ("will-late", "will-repeated"):
            sig = "C08/%s/%s" % (clause, site)
        else:
            sig = "C08/%s/%s/%s" % (clause, ev.name if ev is not None else "-", _origin(ev, site))
        d = dict(clause="C08/" + clause, signature=sig, detail=detail,
                 op=op, status=status, notification=None if ev is None else ev.name)
        d.update({k: repr(x)[:200] for k, x in kw.items()})
        viol.append(d)

    chain = {}
    for i, ev in enumerate(events):
        if ev.error:
            v("getter-raised-in-callback", ev, error=ev.error)
            continue
        is_will = ev.name in WILL
        norm = NORMALISE.get(ev.name, lambda x: x)
        # ---- sentence 1: payload truth -----------------------------------------------------------
        if ev.has_payload:
            key = (id(ev.sender), ATTR[ev.name] + (":%s" % (ev.subject,) if ev.name in (
                "Info.ValueChanged", "Lib.ItemSet", "Kerning.PairSet", "Groups.GroupSet") else ""))
            if key in chain:
                before = chain[key]
            elif key in snap:
                before = snap[key]
            elif ev.name in ("Info.ValueChanged", "Lib.ItemSet", "Kerning.PairSet", "Groups.GroupSet"):
                before = _MISSING
                if ("dictall", id(ev.sender)) in snap:
                    before = snap[("dictall", id(ev.sender))].get(ev.subject)
            else:
                # an object that did not exist (or was not loaded) before the operation has no "before"
                before = _MISSING
            if before is not _MISSING and not _eq(norm(ev.old), norm(before)):
                v("payload-old", ev, payload_old=ev.old, getter_before=before)
            if is_will:
                if not _eq(norm(ev.now), norm(ev.old)):
                    v("will-after-change", ev, payload_old=ev.old, getter_at_will=ev.now)
            else:
                if not _eq(norm(ev.new), norm(ev.now)):
                    v("payload-new", ev, payload_new=ev.new, getter_now=ev.now)
                chain[key] = ev.new
        # ---- sentence 2: will before did ---------------------------------------------------------
        if is_will:
            did_name, kind, _ = WILL[ev.name]
            fam = _family(ev.name)
            if kind in ("add", "del"):
                mem = members.get((id(ev.sender), fam))
                subj = ev.subject if isinstance(ev.subject, str) else id(ev.subject)
                if mem is not None:
                    was_in = subj in mem
                    if ev.obs != was_in:
                        v("will-after-change", ev, member_at_will=ev.obs, member_before=was_in)
                if ev.name == "Layer.GlyphWillBeAdded" and (id(ev.sender), "GlyphIdent") in members:
                    # replacing a glyph: the OLD object must still be filed under the name at will time
                    before_id = members[(id(ev.sender), "GlyphIdent")].get(ev.subject)
                    first = not any(e.name == ev.name and e.sender is ev.sender and e.subject == ev.subject
                                    for e in events[:i])
                    if first and ev.ident != before_id and not (before_id is None and ev.ident is None):
                        v("will-after-change", ev, object_at_will=ev.ident, object_before=before_id)
            elif not ev.has_payload:
                before = members.get((id(ev.sender), fam if fam != "Default" else "DefaultLayer"), _MISSING)
                if ev.name == "LayerSet.DefaultLayerWillChange":
                    before = members.get((id(ev.sender), "DefaultLayer"), _MISSING)
                if before is not _MISSING and not _eq(ev.obs, before):
                    v("will-after-change", ev, state_at_will=ev.obs, state_before=before)
            # the matching did, later, same sender
            later = [e for e in events[i + 1:] if e.name == did_name and e.sender is ev.sender and not e.error]
            if kind in ("add", "del") and isinstance(ev.subject, str):
                later = [e for e in later if e.subject == ev.subject]
            if not later:
                earlier = [e for e in events[:i] if e.name == did_name and e.sender is ev.sender]
                if status.startswith("err"):
                    v("will-without-did-rejected", ev)
                elif earlier:
                    v("will-after-did", ev)
                else:
                    v("will-without-did", ev)
            else:
                d = later[0]
                if kind == "attr" and ev.has_payload and d.has_payload:
                    if not (_eq(d.old, ev.old) and _eq(d.new, ev.new)):
                        v("did-payload-differs-from-will", ev, will=(ev.old, ev.new), did=(d.old, d.new))
                if kind == "add":
                    ok = d.obs is True if isinstance(ev.subject, str) else any(x is ev.subject for x in (d.members or []))
                    if not ok:
                        v("did-before-change", ev)
                    if ev.name == "Layer.GlyphWillBeAdded" and (id(ev.sender), "GlyphIdent") in members:
                        before_id = members[(id(ev.sender), "GlyphIdent")].get(ev.subject)
                        if d.ident is None or d.ident == before_id:
                            v("did-before-change", ev, object_at_did=d.ident, object_before=before_id)
                if kind == "del":
                    ok = d.obs is False if isinstance(ev.subject, str) else not any(x is ev.subject for x in (d.members or []))
                    if not ok:
                        v("did-before-change", ev)
                if ev.name == "Glyph.ImageWillBeCleared" and d.obs is not None and d.obs[0] is not None:
                    v("did-before-change", ev)
            # multiplicity: never more wills than dids for one subject
            same = [e for e in events if e.name == ev.name and e.sender is ev.sender and
                    (e.subject is ev.subject or (isinstance(e.subject, str) and e.subject == ev.subject))]
            dids = [e for e in events if e.name == did_name and e.sender is ev.sender]
            if kind in ("add", "del") and isinstance(ev.subject, str):
                dids = [e for e in dids if e.subject == ev.subject]
            if len(same) > 1 and same[0] is ev and len(same) > len(dids):
                v("will-repeated", ev, wills=len(same), dids=len(dids))
    # a did of an attribute pair without its will
    did_of = {w[0]: n for n, w in WILL.items() if w[1] == "attr"}
    for i, ev in enumerate(events):
        if ev.name in did_of and not ev.error:
            if not any(e.name == did_of[ev.name] and e.sender is ev.sender for e in events[:i]):
                if ev.name not in ("Glyph.NameChanged",) or True:
                    v("did-without-will", ev)
    # de-duplicate by signature
    seen, out = set(), []
    for x in viol:
        if x["signature"] not in seen:
            seen.add(x["signature"])
            out.append(x)
    return out


# ---- sentence 3 on relayed notifications ------------------------------------------------------------
#
# Some documented notifications are posted by an object because ANOTHER object changed.  The operation "that can
# trigger" them is the change of that other object, whatever public call performs it, and the relation between the
# two objects is by NAME (component.baseGlyph -> the glyph the component's layer files under that name) or by
# containment (a glyph filed in a layer): it has to survive every re-wiring of the name (replace, rename onto,
# delete and re-create, rename away and back).

_UNKNOWN = ("unknown",)


def _outline(glyph):
    if glyph._shallowLoadedContours is not None:        # peek: reading the contours would load them
        return _UNKNOWN
    return ("glyph",
            tuple(tuple((p.x, p.y, p.segmentType, bool(p.smooth)) for p in c) for c in glyph._contours),
            tuple((k.baseGlyph, tuple(k.transformation)) for k in glyph.components))


def relay_snapshot(world):
    """for every component of every loaded glyph filed in a layer of the font: the DATA OF ITS BASE GLYPH as the
    public API shows it - the outline (points of the contours, components) of the glyph that the component's own
    layer files under `component.baseGlyph`, ("absent",) when there is none"""
    snap = {}
    ls = world.font.layers
    for ln in ls.layerOrder:
        layer = ls[ln]
        for g in list(layer._glyphs.values()):
            for c in g.components:
                name = c.baseGlyph
                if name is None:
                    data = ("none",)
                elif name not in layer:
                    data = ("absent",)
                else:
                    bg = layer._glyphs.get(name)          # peek: no lazy load
                    data = _UNKNOWN if bg is None else _outline(bg)
                snap[id(c)] = dict(component=c, holder=g, layer=layer, base=name, data=data)
    return snap


def relay_oracle(op, status, before, after, members, events, stats):
    """`Component.BaseGlyphDataChanged` (documented by Component): an operation after which the data of a
    component's base glyph differs from what it was before must make that component post it; `Layer.GlyphNameChanged`
    / `Layer.GlyphUnicodesChanged` (documented by Layer): when a glyph filed in a layer announces a new name / new
    unicodes, the layer must post its notification with the same old and new value."""
    site = op_name(op)
    viol = []
    for k, b in before.items():
        a = after.get(k)
        if a is None or a["holder"] is not b["holder"] or a["layer"] is not b["layer"] or a["base"] != b["base"]:
            continue        # the component itself was removed, moved or pointed elsewhere (Component.BaseGlyphChanged)
        if b["data"] is _UNKNOWN or a["data"] is _UNKNOWN or a["data"] == b["data"]:
            continue
        stats["relay.base-glyph-data-changed"] = stats.get("relay.base-glyph-data-changed", 0) + 1
        if not any(e.name == "Component.BaseGlyphDataChanged" and e.sender is b["component"] for e in events):
            viol.append(dict(clause="C08/documented-not-posted",
                             signature="C08/documented-not-posted/Component.BaseGlyphDataChanged/%s" % site,
                             op=op, status=status, notification="Component.BaseGlyphDataChanged",
                             component_of=repr(b["holder"].name), baseGlyph=repr(b["base"]),
                             base_data_before=repr(b["data"])[:200], base_data_after=repr(a["data"])[:200]))
    for ev in events:
        relay = {"Glyph.NameChanged": "Layer.GlyphNameChanged", "Glyph.UnicodesChanged": "Layer.GlyphUnicodesChanged"}.get(ev.name)
        if relay is None or ev.error or not ev.has_payload or _eq(ev.old, ev.new):
            continue
        filed_in = [cid for (cid, fam), m in members.items() if fam == "GlyphIdent" and id(ev.sender) in m.values()]
        if not filed_in:
            continue        # not filed in a layer before the operation (created by it, or a free glyph)
        stats["relay.layer-forward"] = stats.get("relay.layer-forward", 0) + 1
        if not any(e.name == relay and id(e.sender) == filed_in[0] and isinstance(e.data, dict) and
                   _eq(e.data.get("oldValue"), ev.old) and _eq(e.data.get("newValue"), ev.new) for e in events):
            viol.append(dict(clause="C08/documented-not-posted", signature="C08/documented-not-posted/%s/%s" % (relay, site),
                             op=op, status=status, notification=relay, glyph_posted=ev.name,
                             old=repr(ev.old)[:100], new=repr(ev.new)[:100]))
    seen, out = set(), []
    for x in viol:
        if x["signature"] not in seen:
            seen.add(x["signature"])
            out.append(x)
    return out


def images_snapshot(world):
    """{file name: digest of the data `images[name]` answers} - None for an image that is not loaded yet (peek:
    reading it would load it)"""
    images = world.font.images
    out = {}
    for n in images.fileNames:
        d = images._data[n]
        if d["data"] is not None:
            out[n] = d["digest"]
        else:
            # not loaded: what `images[n]` would answer is the file of the UFO, read here without defcon
            out[n] = None
            try:
                import hashlib
                with open(os.path.join(world.font.path, "images", n), "rb") as f:
                    out[n] = hashlib.md5(f.read()).digest()
            except Exception:
                pass
    return out


def lifecycle_oracle(world, op, status, before, after, events):
    """sentences 2 and 3 for the life cycle of a file name in the image set, judged on what `name in images` and
    `images[name]` answer before and after the operation: a name that enters the set is announced by
    ImageSet.ImageWillBeAdded (delivered while `in` is still False) then ImageSet.ImageAdded (`in` True) - whether
    it was never there, deleted and saved, or deleted and still scheduled for deletion, whatever the data; a name
    that leaves it by ImageWillBeDeleted (`in` True) then ImageDeleted (`in` False); a name that stays with other
    data by ImageSet.ImageChanged; and nothing else is announced."""
    site = op_name(op)
    viol = []
    images = world.font.images
    told = {}
    for e in events:
        if e.sender is images and e.name.startswith("ImageSet.Image") and not e.error:
            told.setdefault(e.subject, []).append((e.name, e.obs))
    for n in sorted(set(before) | set(after) | set(told), key=str):
        was, now = n in before, n in after
        if not was and now:
            want = [("ImageSet.ImageWillBeAdded", False), ("ImageSet.ImageAdded", True)]
        elif was and not now:
            want = [("ImageSet.ImageWillBeDeleted", True), ("ImageSet.ImageDeleted", False)]
        elif was and now and before[n] is not None and after[n] is not None and before[n] != after[n]:
            want = [("ImageSet.ImageChanged", True)]
        elif was and now and (before[n] is None or after[n] is None) and before[n] != after[n]:
            continue            # loaded by the operation: whether the data changed is not known
        else:
            want = []
        got = told.get(n, [])
        if got != want:
            kind = ("added" if not was and now else "deleted" if was and not now else "changed" if want else "unchanged")
            viol.append(dict(clause="C08/image-lifecycle", signature="C08/image-lifecycle/%s/%s" % (kind, site),
                             op=op, status=status, notification=want[0][0] if want else (got[0][0] if got else None),
                             name=repr(n), in_before=was, in_after=now, expected=repr(want), delivered=repr(got)))
    return viol[:1]


def order_oracle(world, op, status, before, events):
    """sentence 3 for Font.GlyphOrderChanged: whenever `font.glyphOrder` answers differently after an operation than
    before it, the font has posted Font.GlyphOrderChanged, and the chain of its deliveries leads from the order
    before to the order after (each delivery's own old and new value is judged by `oracle`).  A direct write into
    `font.lib` is not an operation of the font (see ASSUMPTIONS)."""
    from c08_world import _norm_order
    if len(op) > 1 and isinstance(op[1], list) and op[1][0] == "lib":
        return []
    font = world.font
    after = font.glyphOrder
    cur = list(before)
    n = 0
    for e in events:
        if e.name == "Font.GlyphOrderChanged" and e.sender is font and not e.error and e.has_payload:
            cur = _norm_order(e.new)
            n += 1
    if cur != after:
        return [dict(clause="C08/documented-not-posted",
                     signature="C08/documented-not-posted/Font.GlyphOrderChanged/%s" % op_name(op),
                     op=op, status=status, notification="Font.GlyphOrderChanged", order_before=repr(before)[:200],
                     order_after=repr(after)[:200], deliveries=n, last_announced=repr(cur)[:200])]
    return []


def held_oracle(op, bracket, events):
    """inside / at the end of a USER hold bracket only this is claimed: an old value that is delivered is a value
    the getter had at the start of some operation of the bracket, or the new value of an earlier delivery"""
    from c08_world import PAYLOAD, WILL, ATTR, NORMALISE
    viol = []
    seen_new = {}
    for ev in events:
        if ev.error or not ev.has_payload:
            continue
        norm = NORMALISE.get(ev.name, lambda x: x)
        dictlike = ev.name in ("Info.ValueChanged", "Lib.ItemSet", "Kerning.PairSet", "Groups.GroupSet")
        key = (id(ev.sender), ATTR[ev.name] + (":%s" % (ev.subject,) if dictlike else ""))
        cands, known = list(seen_new.get(key, [])), False
        for snap in bracket:
            if dictlike:
                if ("dictall", id(ev.sender)) in snap:
                    known = True
                    cands.append(snap[("dictall", id(ev.sender))].get(ev.subject))
            elif (id(ev.sender), ATTR[ev.name]) in snap:
                known = True
                cands.append(snap[(id(ev.sender), ATTR[ev.name])])
        if known and not any(_eq(norm(ev.old), norm(c)) for c in cands):
            viol.append(dict(clause="C08/payload-old", detail="under a user hold",
                             signature="C08/payload-old/%s/%s" % (ev.name, _origin(ev, op_name(op))),
                             op=op, notification=ev.name, payload_old=repr(ev.old)[:200], candidates=repr(cands)[:300]))
        if ev.name not in WILL:
            seen_new.setdefault(key, []).append(ev.new)
    return viol[:1]


# ---------------------------------------------------------------------------------------------------
# generation
# ---------------------------------------------------------------------------------------------------

COLORS = [None, "1,0,0,1", "0,1,0,0.5", [0, 0, 1, 1], "1,0,0,1"]
NAMES = ["A", "B", "C", "D", "E", "a.alt", "f_i", "space", "new1", "new2"]
GLYPH_ATTRS = ["name", "unicodes", "unicode", "width", "height", "note", "markColor", "verticalOrigin", "leftMargin",
               "rightMargin", "topMargin", "bottomMargin", "image", "anchors", "guidelines", "lib"]


def gen_anchor_dict(rng):
    d = {"x": rng.randint(-50, 500), "y": rng.randint(-50, 700)}
    if rng.random() < 0.6:
        d["name"] = rng.choice(["top", "bottom", "x"])
    if rng.random() < 0.3:
        d["color"] = rng.choice(COLORS[1:3])
    if rng.random() < 0.3:
        d["identifier"] = "id%d" % rng.randint(0, 5)
    return d


def gen_guideline_dict(rng):
    k = rng.random()
    if k < 0.4:
        d = {"x": rng.randint(0, 500)}
    elif k < 0.8:
        d = {"y": rng.randint(0, 700)}
    else:
        d = {"x": rng.randint(0, 500), "y": rng.randint(0, 700), "angle": rng.choice([0, 45, 90])}
    if rng.random() < 0.5:
        d["name"] = rng.choice(["gl", "base"])
    if rng.random() < 0.3:
        d["color"] = rng.choice(COLORS[1:3])
    if rng.random() < 0.3:
        d["identifier"] = "id%d" % rng.randint(0, 5)
    return d


# identifiers handed to objects built by the operations: id0-id5 are shared by every kind of object, p0 / a0 / k0 / g0
# are what the generated fonts already carry (fontgen.gen_glyph)
ID_POOL = ["id0", "id1", "id2", "id3", "id4", "id5", "p0", "p1", "a0", "k0", "g0"]


def gen_contour_spec(rng, ids=None):
    """a rectangle; points are [x, y, segmentType] or [x, y, segmentType, identifier].  `ids`: None = random
    (about a third of the contours carry point identifiers, some of them twice, some equal to the contour's own),
    False = no identifier anywhere"""
    ox, oy = rng.randint(-50, 200), rng.randint(-50, 200)
    w, h = rng.randint(10, 300), rng.randint(10, 300)
    pts = [[ox, oy, "line"], [ox, oy + h, "line"], [ox + w, oy + h, "line"], [ox + w, oy, "line"]]
    if rng.random() < 0.5:
        pts.reverse()
    if rng.random() < 0.2:
        pts[0][2] = "move"
    if ids is False:
        return {"id": None, "points": pts, "owned": False}
    cid = ("id%d" % rng.randint(0, 5)) if rng.random() < 0.25 else None
    if rng.random() < 0.35:
        for pt in pts:
            if rng.random() < 0.45:
                pt.append(rng.choice(ID_POOL))
        k = rng.random()
        if k < 0.2:
            # the same identifier twice inside the incoming contour
            i, j = rng.sample(range(4), 2)
            pid = rng.choice(ID_POOL + ["q7", "q8"])
            pts[i], pts[j] = pts[i][:3] + [pid], pts[j][:3] + [pid]
        elif k < 0.3:
            # a point that carries the contour's own identifier
            cid = cid or rng.choice(ID_POOL + ["q7"])
            i = rng.randrange(4)
            pts[i] = pts[i][:3] + [cid]
    return {"id": cid, "points": pts, "owned": rng.random() < 0.3}


DEGENERATE = ["lone-point", "lone-move", "stroke", "two-closed", "collinear", "collinear-open", "figure-eight", "bow-tie-4",
              "back-and-forth"]


def gen_degenerate_contour(rng, shape=None):
    """a contour that encloses no area (`clockwise` = area < 0 answers False whatever the order of its points): a lone
    point, an open two-point stroke, a closed two-point contour, collinear points, a symmetric figure eight / bow tie,
    a path that returns over itself.  Same spec format as gen_contour_spec, no identifiers."""
    shape = shape or rng.choice(DEGENERATE)
    ox, oy = rng.randint(-50, 200), rng.randint(-50, 200)
    a, b = rng.randint(5, 120), rng.randint(5, 120)
    L = "line"
    if shape == "lone-point":
        pts = [[ox, oy, L]]
    elif shape == "lone-move":
        pts = [[ox, oy, "move"]]
    elif shape == "stroke":
        pts = [[ox, oy, "move"], [ox + a, oy + b, L]]
    elif shape == "two-closed":
        pts = [[ox, oy, L], [ox + a, oy + b, L]]
    elif shape == "collinear":
        pts = [[ox, oy, L], [ox + a, oy + b, L], [ox + 3 * a, oy + 3 * b, L]]
    elif shape == "collinear-open":
        pts = [[ox, oy, "move"], [ox + a, oy, L], [ox + 2 * a, oy, L], [ox + 5 * a, oy, L]]
    elif shape == "figure-eight":
        # two triangles of equal area and opposite direction that meet in the crossing point
        pts = [[ox, oy, L], [ox + 2 * a, oy + 2 * b, L], [ox + 2 * a, oy, L], [ox, oy + 2 * b, L]]
    elif shape == "bow-tie-4":
        pts = [[ox, oy, L], [ox + a, oy + b, L], [ox, oy + b, L], [ox + a, oy, L]]
    else:
        pts = [[ox, oy, L], [ox + a, oy + b, L], [ox + a + b, oy + a, L], [ox + a, oy + b, L]]
    if rng.random() < 0.3 and len(pts) > 2 and pts[0][2] != "move":
        k = rng.randrange(len(pts))
        pts = pts[k:] + pts[:k]
    return {"id": None, "points": pts, "owned": rng.random() < 0.3, "shape": shape}


def gen_index(rng, hi=3):
    """an index for insertX - or None: the appendX spelling"""
    return None if rng.random() < 0.2 else rng.randint(0, hi)


def gen_value(rng, cls, attr, same=None):
    """a value for a setter; `same` (when given) is a plausible current value"""
    r = rng.random
    if cls == "Glyph":
        if attr == "name":
            return rng.choice(NAMES)
        if attr == "unicodes":
            return rng.choice([[], [65], [66, 97], [0xE001], [65, 66]])
        if attr == "unicode":
            return rng.choice([None, 65, 66, 97])
        if attr in ("width", "height"):
            return rng.choice([0, 300, 500, 620, 1000, -20, rng.randint(0, 999)])
        if attr == "note":
            return rng.choice([None, "n1", "note two", ""])
        if attr == "markColor":
            return rng.choice(COLORS)
        if attr == "verticalOrigin":
            return rng.choice([None, 0, 800, 1000, rng.randint(0, 999)])
        if attr.endswith("Margin"):
            return rng.choice([0, 10, 50, -30, rng.randint(-100, 300)])
        if attr == "image":
            if r() < 0.4:
                return None
            return {"fileName": rng.choice(["i1.png", "i2.png", "pic.png"]), "xScale": 1, "xyScale": 0, "yxScale": 0,
                    "yScale": rng.choice([1, 2]), "xOffset": rng.randint(0, 9), "yOffset": 0,
                    "color": rng.choice(COLORS[:3])}
        if attr == "anchors":
            return [gen_anchor_dict(rng) for _ in range(rng.randint(0, 2))]
        if attr == "guidelines":
            return [gen_guideline_dict(rng) for _ in range(rng.randint(0, 2))]
        if attr == "lib":
            return fg.gen_lib(rng)
    if cls in ("Anchor", "Guideline"):
        if attr in ("x", "y"):
            return rng.choice([0, 10, 250, rng.randint(-50, 700)] + ([None] if cls == "Guideline" else []))
        if attr == "angle":
            return rng.choice([None, 0, 45, 90])
        if attr == "name":
            return rng.choice([None, "top", "bottom", "gl", ""])
        if attr == "color":
            return rng.choice(COLORS)
        if attr == "identifier":
            return rng.choice([None, "id0", "id1", "id2", "id7"])
    if cls == "Image":
        if attr == "fileName":
            return rng.choice([None, "i1.png", "i2.png", "pic.png"])
        if attr == "transformation":
            return [1, 0, 0, rng.choice([1, 2]), rng.randint(0, 9), rng.choice([0, 0, 5])]
        if attr == "color":
            return rng.choice(COLORS)
    if cls == "Component":
        if attr == "baseGlyph":
            return rng.choice(["A", "B", "C", "nope", None])
        if attr == "transformation":
            return [1, 0, 0, rng.choice([1, 2]), rng.randint(-20, 20), rng.randint(-20, 20)]
        if attr == "identifier":
            return rng.choice([None, "id0", "id1", "id2", "id7"])
    if cls == "Contour":
        if attr == "clockwise":
            return r() < 0.5
        if attr == "identifier":
            return rng.choice([None, "id0", "id1", "id2", "id7"])
    if cls == "Layer":
        if attr == "name":
            return rng.choice(fg.LAYER_NAMES + ["renamed"])
        if attr == "color":
            return rng.choice(COLORS)
    if cls == "LayerSet":
        if attr == "defaultLayer":
            return rng.randint(0, 3)
        if attr == "layerOrder":
            p = list(range(rng.randint(1, 4)))
            rng.shuffle(p)
            return p
    if cls == "Font":
        if attr == "glyphOrder":
            return rng.choice([[], None, ["A", "B"], ["B", "A", "zzz"], rng.sample(NAMES, 3)])
        if attr == "guidelines":
            return [gen_guideline_dict(rng) for _ in range(rng.randint(0, 2))]
    if cls == "Info":
        return rng.choice(fg.INFO_ATTRS[attr] + [None])
    if cls == "Features":
        return rng.choice([None, "", "# nothing\n", "feature kern {\n    pos A B -10;\n} kern;\n"])
    raise ValueError((cls, attr))


SETTERS = {
    "glyph": GLYPH_ATTRS,
    "anchor": ["x", "y", "name", "color", "identifier"],
    "guideline": ["x", "y", "angle", "name", "color", "identifier"],
    "fguideline": ["x", "y", "angle", "name", "color", "identifier"],
    "image": ["fileName", "transformation", "color"],
    "component": ["baseGlyph", "transformation", "identifier"],
    "contour": ["clockwise", "identifier"],
    "layer": ["name", "color"],
    "layers": ["defaultLayer", "layerOrder"],
    "font": ["glyphOrder", "guidelines"],
    "features": ["text"],
}


def gen_target(rng, kind):
    li, gi, k = rng.randint(0, 2), rng.randint(0, 5), rng.randint(0, 3)
    if kind in ("font", "info", "features", "lib", "kerning", "groups", "images", "layers"):
        return [kind]
    if kind in ("layer", "llib"):
        return [kind, li]
    if kind in ("glyph", "glib", "image"):
        return [kind, li, gi]
    if kind == "fguideline":
        return [kind, k]
    return [kind, li, gi, k]


def gen_op(rng, focus=None):
    """one random operation; `focus` = [li, gi] keeps most glyph-level ops on one glyph"""
    r = rng.random()

    def tgt(kind):
        t = gen_target(rng, kind)
        if focus is not None and kind in ("glyph", "glib", "image", "anchor", "guideline", "component", "contour") \
                and rng.random() < 0.8:
            t[1], t[2] = focus
        return t
    if r < 0.42:
        kind = rng.choice(["glyph"] * 8 + ["anchor"] * 3 + ["guideline"] * 2 + ["fguideline", "image", "image", "component",
                          "component", "contour", "contour", "layer", "layer", "layers", "layers", "font", "features"])
        attr = rng.choice(SETTERS[kind])
        return ["set", tgt(kind), attr, gen_value(rng, CLASS_OF[kind], attr)]
    if r < 0.47:
        a = rng.choice(sorted(fg.INFO_ATTRS))
        return ["set", ["info"], a, gen_value(rng, "Info", a)]
    if r < 0.72:
        g = tgt("glyph")
        m = rng.choice(["insertContour", "insertContour", "removeContour", "insertComponent", "removeComponent", "insertAnchor",
                        "insertAnchor", "removeAnchor", "insertGuideline", "removeGuideline", "reinsert", "reinsert",
                        "clearContours", "clearComponents", "clearAnchors", "clearGuidelines", "clear", "clearImage",
                        "decomposeComponent", "decomposeAllComponents", "copyDataFromGlyph", "move", "removeForeign",
                        "drawContour"])
        if m == "insertContour":
            return ["call", g, m, gen_index(rng), gen_degenerate_contour(rng) if rng.random() < 0.12 else gen_contour_spec(rng)]
        if m == "drawContour":
            return ["call", g, m, gen_degenerate_contour(rng) if rng.random() < 0.12 else gen_contour_spec(rng)]
        if m == "insertComponent":
            return ["call", g, m, gen_index(rng), rng.choice(["A", "B", "C", "nope"]),
                    [1, 0, 0, 1, rng.randint(-20, 20), rng.randint(-20, 20)],
                    ("id%d" % rng.randint(0, 5)) if rng.random() < 0.25 else None, rng.random() < 0.3]
        if m in ("removeContour", "removeComponent", "removeAnchor", "removeGuideline", "decomposeComponent"):
            return ["call", g, m, rng.randint(0, 3)]
        if m == "insertAnchor":
            return ["call", g, m, gen_index(rng), gen_anchor_dict(rng), rng.choice(["dict", "object", "owned"])]
        if m == "insertGuideline":
            return ["call", g, m, gen_index(rng), gen_guideline_dict(rng), rng.choice(["dict", "object", "owned"])]
        if m == "reinsert":
            return ["call", g, m, rng.choice(["contour", "component", "anchor", "guideline"]), gen_index(rng)]
        if m == "removeForeign":
            return ["call", g, m, rng.choice(["contour", "component", "anchor", "guideline"]), rng.randint(0, 3)]
        if m == "copyDataFromGlyph":
            return ["call", g, m, rng.randint(0, 2), rng.randint(0, 5)]
        if m == "move":
            return ["call", g, m, rng.choice([0, 10, -5]), rng.choice([0, 7])]
        return ["call", g, m]
    if r < 0.77:
        kind = rng.choice(["anchor", "component", "contour", "image", "contour"])
        if kind == "contour" and rng.random() < 0.6:
            return ["call", tgt(kind), "reverse"]
        return ["call", tgt(kind), "move", rng.choice([0, 10, -5]), rng.choice([0, 7])]
    if r < 0.84:
        l = gen_target(rng, "layer")
        m = rng.choice(["newGlyph", "newGlyph", "insertGlyph", "del", "del"])
        if m == "newGlyph":
            return ["call", l, m, rng.choice(NAMES)]
        if m == "insertGlyph":
            return ["call", l, m, rng.randint(0, 2), rng.randint(0, 5), rng.choice([None, None] + NAMES)]
        return ["delitem", l, rng.choice([rng.randint(0, 5), rng.choice(NAMES)])]
    if r < 0.87:
        m = rng.choice(["newLayer", "del"])
        if m == "newLayer":
            return ["call", ["layers"], m, rng.choice(fg.LAYER_NAMES + ["extra"])]
        return ["delitem", ["layers"], rng.choice([rng.randint(0, 3), "nope"])]
    if r < 0.91:
        m = rng.choice(["insertGuideline", "removeGuideline", "reinsertGuideline", "clearGuidelines", "newGlyph",
                        "removeForeignGuideline"])
        if m == "insertGuideline":
            return ["call", ["font"], m, gen_index(rng), gen_guideline_dict(rng), rng.choice(["dict", "object", "owned"])]
        if m == "reinsertGuideline":
            return ["call", ["font"], m, gen_index(rng)]
        if m == "removeGuideline":
            return ["call", ["font"], m, rng.randint(0, 3)]
        if m == "newGlyph":
            return ["call", ["font"], m, rng.choice(NAMES)]
        return ["call", ["font"], m]
    if r < 0.97:
        kind = rng.choice(["lib", "glib", "llib", "kerning", "groups", "images"])
        t = tgt(kind) if kind == "glib" else gen_target(rng, kind)
        m = rng.random()
        if kind == "images":
            n = rng.choice(fg.IMAGE_NAMES)
            return ["setitem", t, n, rng.randint(1, 4)] if m < 0.6 else ["delitem", t, n]
        if kind == "kerning":
            key = [rng.choice(["A", "B", "public.kern1.O"]), rng.choice(["A", "C", "public.kern2.H"])]
            val = rng.choice([0, -10, 25, 80])
        elif kind == "groups":
            key = rng.choice(["public.kern1.O", "public.kern2.H", "other", "g2"])
            val = rng.sample(["A", "B", "C", "D"], rng.randint(0, 3))
        else:
            key = rng.choice(["com.a.k1", "com.a.k2", "org.b.flag", "public.x"])
            val = rng.choice([2, 3, "s1", [1, 2], {"n": 4}, True, None])
        if m < 0.55:
            return ["setitem", t, key, val]
        if m < 0.62:
            return ["setdefault", t, key, val]
        if m < 0.68:
            return ["pop", t, key]
        if m < 0.8:
            return ["delitem", t, key]
        if m < 0.9:
            return ["clear", t]
        if kind == "kerning":
            return ["update", t, {"|".join(key): val}]
        return ["update", t, {key: val}]
    return ["touch", tgt("glyph")]


def repeat_same(rng, ops):
    """>= 20 % same-value operations: re-issue an earlier setter verbatim"""
    out = []
    for op in ops:
        out.append(op)
        if op[0] in ("set", "setitem") and rng.random() < 0.25:
            out.append(copy.deepcopy(op))
    return out


def scenario(rng, kind):
    """scripted histories the property talks about, at known positions"""
    li, gi = rng.randint(0, 1), rng.randint(0, 4)
    g = ["glyph", li, gi]
    if kind == "margins":
        ops = [["call", g, "insertContour", 0, gen_contour_spec(rng)]]
        for a in rng.sample(["leftMargin", "rightMargin", "topMargin", "bottomMargin"], 4):
            v = gen_value(rng, "Glyph", a)
            ops += [["set", g, a, v], ["set", g, a, v]]
        ops += [["set", g, "verticalOrigin", rng.choice([None, 900])],
                ["set", g, "topMargin", 33], ["set", g, "bottomMargin", -7], ["set", g, "topMargin", 33]]
        return ops
    if kind == "undo-delete":
        what = rng.choice(["anchor", "guideline", "component", "contour"])
        ins = {"anchor": ["call", g, "insertAnchor", 0, gen_anchor_dict(rng), "object"],
               "guideline": ["call", g, "insertGuideline", 0, gen_guideline_dict(rng), "object"],
               "component": ["call", g, "insertComponent", 0, "A", [1, 0, 0, 1, 3, 4], "id3", False],
               "contour": ["call", g, "insertContour", 0, gen_contour_spec(rng)]}[what]
        return [ins, ["call", g, "remove" + what.capitalize(), 0], ["call", g, "reinsert", what, 0],
                ["call", g, "remove" + what.capitalize(), 0], ["call", g, "removeForeign", what, 0],
                ["call", g, "reinsert", what, 1]]
    if kind == "rejected-insert":
        # an object whose identifier is taken is rejected: it must not have been announced
        i = "id%d" % rng.randint(0, 5)
        what = rng.choice(["anchor", "guideline", "component", "contour", "fguideline"])
        if what == "anchor":
            return [["call", g, "insertAnchor", 0, {"x": 1, "y": 2, "identifier": i}, "dict"],
                    ["call", g, "insertAnchor", 1, {"x": 3, "y": 4, "identifier": i}, "object"],
                    ["call", g, "insertAnchor", 0, {"x": 5, "y": 6, "identifier": i}, "dict"]]
        if what == "guideline":
            return [["call", g, "insertGuideline", 0, {"x": 1, "identifier": i}, "object"],
                    ["call", g, "insertGuideline", 1, {"y": 4, "identifier": i}, "object"],
                    ["call", g, "insertAnchor", 0, {"x": 5, "y": 6, "identifier": i}, "object"]]
        if what == "component":
            return [["call", g, "insertComponent", 0, "A", [1, 0, 0, 1, 0, 0], i, False],
                    ["call", g, "insertComponent", 0, "B", [1, 0, 0, 1, 1, 1], i, False]]
        if what == "contour":
            # every way a caller-built contour can clash: with a contour / a point / an anchor of the glyph, and
            # INSIDE itself (one identifier on two of its points, a point with the contour's own identifier) - a
            # free-standing contour checks none of this before it is handed over
            def box(cid, *pids):
                c = gen_contour_spec(rng, ids=False)
                c["id"] = cid
                for pt, pid in zip(c["points"], pids):
                    if pid is not None:
                        pt.append(pid)
                return c
            j = "q%d" % rng.randint(0, 9)
            idx = lambda: gen_index(rng, 1)
            variants = {
                "contour-id": [["call", g, "insertContour", 0, box(i)], ["call", g, "insertContour", idx(), box(i)]],
                "point-vs-point": [["call", g, "insertContour", 0, box(None, i, j)],
                                   ["call", g, "insertContour", idx(), box(None, None, i)]],
                "point-vs-anchor": [["call", g, "insertAnchor", 0, {"x": 1, "y": 2, "identifier": i}, "dict"],
                                    ["call", g, "insertContour", idx(), box(None, None, None, i)]],
                "point-twice": [["call", g, "insertContour", idx(), box(None, j, None, j)]],
                "point-is-contour": [["call", g, "insertContour", idx(), box(j, None, j)]],
                "point-twice-known": [["call", g, "insertContour", 0, box(None, i)],
                                      ["call", g, "insertContour", idx(), box(None, j, j, i)]],
            }
            ops = []
            for k in rng.sample(sorted(variants), rng.randint(2, 4)):
                ops += variants[k]
            # ... and one that is accepted, through each spelling
            ops += [["call", g, "insertContour", None, box("q10", "q11", "q12")], ["call", g, "drawContour", box("q13", "q14", "q14")],
                    ["call", g, "drawContour", box("q15", "q16")]]
            return ops
        return [["call", ["font"], "insertGuideline", 0, {"x": 1, "identifier": i}, "object"],
                ["call", ["font"], "insertGuideline", 0, {"y": 2, "identifier": i}, "object"]]
    if kind == "rename-back":
        n1, n2 = rng.sample(["new1", "new2", "zz"], 2)
        return [["set", g, "name", n1], ["touch", g], ["set", g, "name", n2], ["set", g, "name", n1],
                ["set", g, "unicodes", [65]], ["set", g, "name", n1]]
    if kind == "delete-recreate":
        l = ["layer", li]
        return [["call", l, "newGlyph", "new1"], ["delitem", l, "new1"], ["call", l, "newGlyph", "new1"],
                ["call", l, "newGlyph", "new1"], ["call", l, "insertGlyph", li, gi, "new2"],
                ["call", l, "insertGlyph", li, gi, "new2"], ["delitem", l, "new2"], ["delitem", l, "new2"]]
    if kind == "clear-all":
        return [["call", g, "insertAnchor", 0, gen_anchor_dict(rng), "dict"],
                ["call", g, "insertAnchor", 1, gen_anchor_dict(rng), "object"],
                ["call", g, "insertGuideline", 0, gen_guideline_dict(rng), "dict"],
                ["call", g, "insertContour", 0, gen_contour_spec(rng)],
                ["call", g, "insertComponent", 0, "A", [1, 0, 0, 1, 0, 0], None, False],
                ["set", g, "image", gen_value(rng, "Glyph", "image")],
                ["call", g, rng.choice(["clear", "clearAnchors", "clearGuidelines", "clearContours", "clearComponents"])],
                ["call", g, "clear"], ["set", g, "anchors", [gen_anchor_dict(rng)]],
                ["set", g, "guidelines", [gen_guideline_dict(rng)]], ["set", g, "image", None], ["set", g, "image", None]]
    if kind == "layers":
        return [["call", ["layers"], "newLayer", "extra"], ["set", ["layers"], "defaultLayer", 1],
                ["set", ["layers"], "defaultLayer", 1], ["set", ["layers"], "layerOrder", [1, 0, 2, 3]],
                ["set", ["layer", 1], "name", "renamed"], ["set", ["layer", 1], "color", "1,0,0,1"],
                ["set", ["layers"], "defaultLayer", 0], ["delitem", ["layers"], 1], ["call", ["layers"], "newLayer", "extra"]]
    if kind == "hold-bracket":
        body = [gen_op(rng, [li, gi]) for _ in range(rng.randint(1, 4))]
        return [["hold", rng.choice([g, ["font"], ["layer", li]])]] + body + [["release"]] + \
               [gen_op(rng, [li, gi]) for _ in range(2)]
    if kind == "edit-read-save":
        return [["set", g, "width", 777], ["touch", g], ["save"], ["set", g, "width", 777], ["set", g, "width", 778],
                ["set", g, "leftMargin", 12], ["save"], ["set", g, "name", "new1"], ["set", g, "name", "new1"]]
    if kind == "image":
        im = ["image", li, gi]
        return [["set", g, "image", gen_value(rng, "Glyph", "image") or None],
                ["set", im, "fileName", "pic.png"], ["set", im, "transformation", [1, 0, 0, 1, 5, 5]],
                ["set", im, "transformation", [1, 0, 0, 1, 5, 5]], ["call", im, "move", 3, 0], ["call", im, "move", 0, 0],
                ["set", im, "color", "1,0,0,1"], ["set", ["layer", li], "color", "0,1,0,0.5"], ["set", im, "color", None],
                ["set", ["layer", li], "color", "0,0,1,1"], ["set", g, "image", None]]
    if kind == "contours":
        c = ["contour", li, gi, 0]
        return [["call", g, "insertContour", 0, gen_contour_spec(rng)], ["call", c, "reverse"], ["set", c, "clockwise", True],
                ["set", c, "clockwise", True], ["set", c, "clockwise", False], ["set", c, "identifier", "id9"],
                ["set", c, "identifier", "id8"], ["call", c, "move", 5, 5]]
    if kind == "dicts":
        t = rng.choice([["lib"], ["glib", li, gi], ["llib", li]])
        return [["setitem", t, "com.a.k1", 2], ["setitem", t, "com.a.k1", 2], ["setitem", t, "com.a.k1", None],
                ["setitem", t, "com.a.k1", None], ["setitem", t, "com.a.k1", [1]], ["delitem", t, "com.a.k1"],
                ["delitem", t, "com.a.k1"], ["setitem", ["kerning"], ["A", "B"], -10], ["setitem", ["kerning"], ["A", "B"], -10],
                ["setitem", ["kerning"], ["A", "B"], 0], ["setitem", ["groups"], "g2", ["A"]], ["setitem", ["groups"], "g2", ["A"]],
                ["set", ["font"], "glyphOrder", ["B", "A"]], ["set", ["font"], "glyphOrder", []], ["set", ["font"], "glyphOrder", None]]
    if kind == "images":
        return [["setitem", ["images"], "i1.png", 1], ["setitem", ["images"], "i1.png", 1], ["setitem", ["images"], "i1.png", 2],
                ["delitem", ["images"], "i1.png"], ["setitem", ["images"], "i1.png", 2], ["delitem", ["images"], "i1.png"],
                ["setitem", ["images"], "i1.png", 3], ["delitem", ["images"], "nope.png"]]
    if kind == "image-lifecycle":
        # one file name through absent / present / scheduled for deletion / set again, with and without a save in
        # between, the data that comes back being the deleted one or another one; a second name alongside
        im = ["images"]
        n, m = rng.sample(fg.IMAGE_NAMES, 2)
        d1, d2 = rng.sample([1, 2, 3, 4], 2)
        ops = [["setitem", im, n, d1], ["delitem", im, n]]
        for how in rng.sample(["same-back", "other-back", "saved-then-same", "twice", "other-name"], rng.randint(2, 4)):
            if how == "same-back":
                ops += [["setitem", im, n, d1], ["setitem", im, n, d1], ["delitem", im, n]]
            elif how == "other-back":
                ops += [["setitem", im, n, d2], ["setitem", im, n, d1], ["delitem", im, n]]
            elif how == "saved-then-same":
                ops += [["save"], ["setitem", im, n, d1], ["save"], ["delitem", im, n], ["setitem", im, n, d1], ["delitem", im, n]]
            elif how == "twice":
                ops += [["delitem", im, n], ["setitem", im, n, d2], ["delitem", im, n], ["delitem", im, n]]
            else:
                ops += [["setitem", im, m, d2], ["delitem", im, m], ["setitem", im, n, d1], ["setitem", im, m, d2],
                        ["delitem", im, n]]
        return ops + [["setitem", im, n, d1]]
    if kind == "implicit-order":
        # a font that STORES a glyph order keeps it in step with its layers: glyphs created, renamed, deleted,
        # inserted over a name - in the default layer and in another one
        l, l2 = ["layer", li], ["layer", 1 - li]
        a, b, c = rng.sample(["new1", "new2", "zz", "a.alt", "f_i"], 3)
        ops = [["call", l, "newGlyph", a], ["call", l, "newGlyph", b],
               ["set", ["font"], "glyphOrder", rng.choice([[b, a], [b, "ghost", a], [a, b, "A", "B"]])]]
        steps = {
            "new": [["call", l, "newGlyph", c]],
            "font-new": [["call", ["font"], "newGlyph", c]],
            "rename": [["set", ["glyph", li, a], "name", c]],
            "rename-onto": [["set", ["glyph", li, a], "name", b]],
            "delete": [["delitem", l, b]],
            "delete-last-copy": [["call", l2, "newGlyph", b], ["delitem", l, b], ["delitem", l2, b]],
            "insert-over": [["call", l, "insertGlyph", li, a, b]],
            "insert-new": [["call", l, "insertGlyph", li, a, c]],
            "listed-again": [["call", l, "newGlyph", a]],
        }
        for k in rng.sample(sorted(steps), rng.randint(3, 6)):
            ops += steps[k]
        return ops + [["set", ["font"], "glyphOrder", rng.choice([None, []])], ["call", l, "newGlyph", "space"]]
    if kind == "degenerate-contours":
        # contours without area: the direction cannot flip; what is announced must be what `clockwise` answers
        c = ["contour", li, gi, 0]
        ops = []
        for shape in rng.sample(DEGENERATE, rng.randint(2, 4)):
            ops += [["call", g, "insertContour", 0, gen_degenerate_contour(rng, shape)], ["call", c, "reverse"]]
            ops += rng.sample([["set", c, "clockwise", True], ["set", c, "clockwise", False], ["call", c, "reverse"],
                               ["call", c, "move", 3, -4], ["set", c, "clockwise", True]], rng.randint(2, 4))
        return ops + [["call", g, "insertContour", 0, gen_contour_spec(rng, ids=False)], ["set", c, "clockwise", True],
                      ["set", c, "clockwise", False]]
    if kind == "font-guidelines":
        f = ["font"]
        return [["call", f, "insertGuideline", 0, gen_guideline_dict(rng), "dict"],
                ["call", f, "insertGuideline", 0, gen_guideline_dict(rng), "object"],
                ["set", ["fguideline", 0], "x", 40], ["set", ["fguideline", 0], "name", None],
                ["call", f, "removeGuideline", 0], ["call", f, "reinsertGuideline", 0], ["call", f, "removeGuideline", 1],
                ["call", f, "removeForeignGuideline"], ["call", f, "clearGuidelines"],
                ["set", f, "guidelines", [gen_guideline_dict(rng), gen_guideline_dict(rng)]], ["call", f, "clearGuidelines"]]
    if kind == "base-follow":
        # a component refers to its base glyph by NAME: whatever glyph object the layer files under that name is the
        # base glyph, also after the name changed hands.  Glyphs are addressed by name here.
        l = ["layer", li]
        base, holder, other = rng.choice(["A", "B", "C"]), rng.choice(["D", "E", "f_i"]), rng.choice(["new1", "new2"])
        b, h, o = ["glyph", li, base], ["glyph", li, holder], ["glyph", li, other]
        box = lambda: gen_contour_spec(rng, ids=False)
        ops = [["call", l, "newGlyph", base], ["call", b, "insertContour", 0, box()],
               ["call", l, "newGlyph", holder], ["call", h, "insertComponent", 0, base, [1, 0, 0, 1, 3, 4], None, False],
               ["call", b, "move", 10, 0]]
        for how in rng.sample(["rename-onto", "newGlyph-over", "insertGlyph-over", "delete-recreate", "away-and-back",
                               "away-then-other"], rng.randint(1, 3)):
            if how == "rename-onto":
                ops += [["call", l, "newGlyph", other], ["call", o, "insertContour", 0, box()], ["set", o, "name", base]]
            elif how == "newGlyph-over":
                ops += [["call", l, "newGlyph", base]]
            elif how == "insertGlyph-over":
                ops += [["call", l, "newGlyph", other], ["call", o, "insertContour", 0, box()],
                        ["call", l, "insertGlyph", li, other, base]]
            elif how == "delete-recreate":
                ops += [["delitem", l, base], ["call", l, "newGlyph", base]]
            elif how == "away-and-back":
                ops += [["set", b, "name", "zz"], ["set", ["glyph", li, "zz"], "name", base]]
            else:
                ops += [["set", b, "name", "zz"], ["call", l, "newGlyph", other], ["call", o, "insertContour", 0, box()],
                        ["set", o, "name", base]]
            # the glyph that is filed under the name NOW is edited: its components must say so
            c = ["contour", li, base, 0]
            ops += [["call", b, "insertContour", None, box()], ["call", b, "move", 0, 7],
                    ["call", c, "move", 5, 5] if rng.random() < 0.5 else ["call", c, "reverse"]]
        ops += [["set", b, "unicodes", [66]], ["call", b, "clearContours"], ["delitem", l, base]]
        return ops
    raise ValueError(kind)


SCENARIOS = ["margins", "undo-delete", "rejected-insert", "rename-back", "delete-recreate", "clear-all", "layers", "hold-bracket",
             "edit-read-save", "image", "contours", "dicts", "images", "font-guidelines", "base-follow",
             "image-lifecycle", "implicit-order", "degenerate-contours"]


def gen_case(rng, maxops):
    spec = fg.gen_font(rng, max_layers=3, max_glyphs=4)
    spec["data"] = {}
    if not any(l["glyphs"] for l in spec["layers"]):
        spec["layers"][0]["glyphs"]["A"] = fg.gen_glyph(rng, "A")
    origin = rng.choice(["memory", "disk", "saved"])
    focus = [rng.randint(0, 1), rng.randint(0, 3)]
    ops = []
    n = rng.randint(4, maxops)
    sc = rng.choice(SCENARIOS)
    pos = rng.randint(0, 3)
    while len(ops) < n:
        if len(ops) >= pos and sc is not None:
            ops += scenario(rng, sc)
            sc = None if rng.random() < 0.6 else rng.choice(SCENARIOS)
            pos = len(ops) + rng.randint(1, 4)
        else:
            ops.append(gen_op(rng, focus))
    return dict(spec=spec, origin=origin, ops=repeat_same(rng, ops))


def known_sites_case(origin="memory"):
    """one fixed history that visits every recorded call site (F23, F24, F44) with material to act on"""
    def contour(x):
        return {"id": None, "points": [[x, 0, "line"], [x, 100, "line"], [x + 50, 100, "line"], [x + 50, 0, "line"]], "owned": False}
    base = {"unicodes": [65], "width": 500, "height": 0, "note": None, "lib": {}, "image": None,
            "contours": [{"id": None, "points": [[0, 0, "line", False, None, None], [0, 50, "line", False, None, None],
                                                  [60, 50, "line", False, None, None]]}],
            "components": [], "anchors": [], "guidelines": []}
    comp = dict(base, unicodes=[], contours=[], components=[["A", [1, 0, 0, 1, 5, 5], None], ["A", [1, 0, 0, 1, 9, 9], None]],
                anchors=[[10, 20, "top", None, None], [30, 40, "bottom", None, None]],
                guidelines=[[100, None, None, "gl", None, None]],
                image={"fileName": "i1.png", "xOffset": 2, "color": "1,0,0,1"})
    spec = {"layers": [{"name": "fore", "color": None, "lib": {}, "glyphs": {"A": base, "D": comp}}], "default": "fore",
            "info": {}, "guidelines": [[None, 50, None, "base", None, None]], "kerning": {}, "groups": {}, "features": None,
            "lib": {}, "images": {"i1.png": 1}, "data": {}}
    d = ["glyph", 0, 1]       # sorted names: A, D
    a = ["glyph", 0, 0]
    ops = [
        ["touch", d],
        ["set", ["layer", 0], "color", "0,1,0,0.5"],                       # F44
        ["set", d, "anchors", [{"x": 1, "y": 2, "name": "n"}]],            # F23 Glyph.anchors=
        ["set", d, "guidelines", [{"x": 7}]],                              # F23 Glyph.guidelines=
        ["call", d, "clearAnchors"], ["call", d, "clearGuidelines"],
        ["call", d, "insertContour", 0, contour(0)], ["call", d, "clearContours"],
        ["call", d, "decomposeComponent", 0],
        ["call", d, "insertComponent", 0, "A", [1, 0, 0, 1, 0, 0], None, False], ["call", d, "decomposeAllComponents"],
        ["call", d, "insertComponent", 0, "A", [1, 0, 0, 1, 0, 0], None, False], ["call", d, "clearComponents"],
        ["call", d, "insertAnchor", 0, {"x": 3, "y": 4}, "dict"], ["call", d, "insertGuideline", 0, {"y": 9}, "dict"],
        ["call", d, "insertContour", 0, contour(10)],
        ["call", ["layer", 0], "insertGlyph", 0, 1, "new1"],               # F23 + F24 Layer.insertGlyph
        ["call", a, "copyDataFromGlyph", 0, 1],                            # F23 Glyph.copyDataFromGlyph
        ["call", d, "clear"],                                              # F23 Glyph.clear
        ["call", ["font"], "clearGuidelines"],                             # F23 Font.clearGuidelines
        ["set", ["font"], "guidelines", [{"y": 5}, {"x": 6}]],
        ["set", ["font"], "guidelines", [{"y": 8}]],                       # F23 Font.guidelines=
    ]
    return dict(spec=spec, origin=origin, ops=ops, static=True)


def _lines_worker(case):
    import warnings
    import logging
    warnings.filterwarnings("ignore")
    logging.disable(logging.CRITICAL)
    sys.unraisablehook = lambda *a: None
    return run_world(case)[4]


def generate(rng, tier):
    import multiprocessing
    n, maxops = (800, 26) if tier == "quick" else (8000, 50)
    cases = [known_sites_case("memory"), known_sites_case("disk")]
    for i in range(n):
        cases.append(gen_case(rng, maxops))
    # the model is started from the implementation's own pre-state (see model_lines): precompute the lines here,
    # in parallel, so that vcheck's sequential model_lines() calls are cache hits
    try:
        ctx = multiprocessing.get_context("fork")
        with ctx.Pool(min(16, os.cpu_count() or 1)) as pool:
            all_lines = pool.map(_lines_worker, cases, chunksize=max(1, len(cases) // 128))
        for c, l in zip(cases, all_lines):
            _LINES[_key(c)] = l
    except Exception:
        pass
    return cases


def neighbourhood(case, step, rng):
    """variants around a diverging step: the prefix, the step repeated (same value), the step followed by the
    follow-ups the property talks about on the same target"""
    ops = case["ops"]
    prefix = ops[:step + 1]
    op = ops[step]
    yield dict(case, ops=prefix)
    yield dict(case, ops=prefix + [copy.deepcopy(op)])
    tgt = op[1] if len(op) > 1 and isinstance(op[1], list) else ["glyph", 0, 0]
    kind = tgt[0]
    if kind in SETTERS:
        for attr in SETTERS[kind]:
            for _ in range(3):
                try:
                    v = gen_value(rng, CLASS_OF[kind], attr)
                except Exception:
                    continue
                yield dict(case, ops=prefix + [["set", tgt, attr, v], ["set", tgt, attr, v]])
    if kind in ("glyph", "anchor", "guideline", "component", "contour", "image"):
        g = ["glyph", tgt[1], tgt[2]]
        for sc in ("margins", "undo-delete", "clear-all", "rename-back", "contours", "image", "degenerate-contours"):
            sops = scenario(rng, sc)
            for o in sops:
                if len(o) > 1 and isinstance(o[1], list) and o[1][0] in ("glyph", "contour", "image") and len(o[1]) >= 3:
                    o[1][1], o[1][2] = g[1], g[2]
            yield dict(case, ops=prefix + sops)
    if kind in ("images", "image"):
        for _ in range(3):
            yield dict(case, ops=prefix + scenario(rng, "image-lifecycle"))
    if kind in ("layer", "font", "glyph", "layers"):
        for _ in range(3):
            yield dict(case, ops=prefix + scenario(rng, "implicit-order"))
    for origin in ("memory", "disk", "saved"):
        if origin != case.get("origin"):
            yield dict(case, origin=origin, ops=prefix)
    yield case


def search(rng, tier, broken):
    """directed search after a broken obligation over the regenerated tables: scenario-dense histories"""
    yield known_sites_case("memory")
    for i in range(400 if tier == "quick" else 3000):
        c = gen_case(rng, 12)
        ops = []
        for sc in rng.sample(SCENARIOS, 4):
            ops += scenario(rng, sc)
        c["ops"] = ops
        yield c


def extract(repo, lean_dir):
    import extract_notif
    return extract_notif.extract(repo, lean_dir)


def static_oracle():
    """sentence 3 on the live classes, written independently of the AST extractor: a documented name must occur
    in the source of the class's module or of a base class's module as a string outside docstrings"""
    import inspect
    import re
    import defcon.objects as pkg
    import pkgutil
    import importlib
    viol = []
    for mi in pkgutil.iter_modules(pkg.__path__):
        mod = importlib.import_module("defcon.objects." + mi.name)
        for cname, cls in inspect.getmembers(mod, inspect.isclass):
            if cls.__module__ != mod.__name__ or not cls.__doc__ or "posts the following notifications" not in cls.__doc__:
                continue
            documented = re.findall(r"^\s*- ([A-Za-z]+\.[A-Za-z_]+)\s*$", cls.__doc__, re.M)
            code = ""
            attrs = set()
            for k in cls.__mro__:
                if k.__module__.startswith("defcon."):
                    src = inspect.getsource(sys.modules[k.__module__])
                    code += re.sub(r'"""[\s\S]*?"""', "", src)
                for a, val in vars(k).items():
                    if a.endswith("NotificationName") and isinstance(getattr(cls, a, None), str):
                        attrs.add(getattr(cls, a))
            for n in documented:
                if n in attrs:
                    continue
                if not re.search(r'["\']%s["\']' % re.escape(n), code):
                    viol.append(dict(clause="C08/documented-never-posted", signature="C08/documented-never-posted/" + n,
                                     cls=cname, name=n))
    return viol


# ---------------------------------------------------------------------------------------------------
# implementation run
# ---------------------------------------------------------------------------------------------------

def run_world(case, per_op=None):
    """runs the case on real defcon; returns (outs, viols, stats, world, model lines)"""
    import c08_world as W
    import c08_model as M
    tmpd = tempfile.mkdtemp(prefix="c08_")
    outs, viols, stats, lines = [], [], {}, []
    try:
        w = W.World(case, tmpd)
        ad = M.Adaptor(w)
        bracket = []
        for step, op in enumerate(case["ops"]):
            margins_of = None
            try:
                # resolving the target first loads what the operation would load lazily
                tgt = w.resolve(op[1]) if len(op) > 1 and isinstance(op[1], list) else None
                if tgt is not None and op[1][0] in ("glyph", "contour", "component", "anchor", "guideline", "image", "glib"):
                    g = w.glyph_at(op[1][1], op[1][2])
                    list(g)
                    if op[0] == "set" and op[1][0] == "glyph" and op[2].endswith("Margin"):
                        margins_of = g
                        # margins are computed from cached component bounds, as they are: defcon evicts them when the
                        # base glyph is edited, renamed, deleted, added (32fccc7) or replaced under its name (5fa9b2d)

                if op[0] == "call" and op[2] in ("copyDataFromGlyph", "insertGlyph"):
                    list(w.glyph_at(op[3], op[4]))
            except Exception:
                pass
            held = bool(w.user_holds)
            snap = w.snapshot(margins_of)
            members = membership_snapshot(w)
            relays = relay_snapshot(w)
            images_before = images_snapshot(w)
            order_before = list(w.font.glyphOrder)
            box = {}

            def mid(details, op=op, box=box):
                box["ctx"] = ad.before(op, details)
                box["fctx"] = ad.follow_before(op, details)
                box["octx"] = ad.order_before(op, details)
                box["wctx"] = ad.winding_before(op, details)
            status, details = w.do(op, mid)
            events = list(w.rec.events)
            late = list(w.late.events)
            line, mout = ad.after(op, box.get("ctx"), status, details, events)
            if line is not M.SKIP:
                stats["modelled-ops"] = stats.get("modelled-ops", 0) + 1
                stats["entry." + line[1]] = stats.get("entry." + line[1], 0) + 1
            fol = ad.follow_after(op, box.get("fctx"), status, details, events)
            if fol is not None:
                # the same operation as M-Follow sees it: which components re-post it
                stats["follow." + str(fol[0][1][0])] = stats.get("follow." + str(fol[0][1][0]), 0) + 1
                if len(fol[1][0]) > 1:
                    stats["follow.posted"] = stats.get("follow.posted", 0) + 1
                line, mout = [Atom("both"), line, fol[0]], [Atom("both"), mout, fol[1]]
            # the same operation as the other models of the slice see it
            extra = []
            if case.get("static") and step == 0:
                # the getter table of the Lean model against the table the observers of this run were built from
                extra.append(([Atom("getter-table")], W.table_rendering()))
            o_line = ad.order_after(op, box.get("octx"), status, events)
            if o_line is not None:
                stats["order." + str(o_line[0][1][0])] = stats.get("order." + str(o_line[0][1][0]), 0) + 1
                if o_line[1][0]:
                    stats["order.posted"] = stats.get("order.posted", 0) + 1
                extra.append(o_line)
            w_line = ad.winding_after(op, box.get("wctx"), status, details)
            if w_line is not None:
                stats["winding.lines"] = stats.get("winding.lines", 0) + 1
                if w_line[1][1]:
                    stats["winding.zero-area"] = stats.get("winding.zero-area", 0) + 1
                extra.append(w_line)
            if extra:
                if line[0] == Atom("both"):
                    line, mout = [Atom("multi"), line[1], line[2]], [Atom("multi"), mout[1], mout[2]]
                else:
                    line, mout = [Atom("multi"), line], [Atom("multi"), mout]
                for l_, o_ in extra:
                    line.append(l_)
                    mout.append(o_)
            lines.append(line)
            name = op_name(op)
            stats["op." + name] = stats.get("op." + name, 0) + 1
            stats["status." + status.split(":")[0]] = stats.get("status." + status.split(":")[0], 0) + 1
            if status.startswith("err"):
                stats["err." + status[4:]] = stats.get("err." + status[4:], 0) + 1
            stats["deliveries"] = stats.get("deliveries", 0) + len(events)
            stats["payload-deliveries"] = stats.get("payload-deliveries", 0) + sum(1 for e in events if e.has_payload)
            stats["will-deliveries"] = stats.get("will-deliveries", 0) + sum(1 for e in events if e.name in W.WILL)
            if op[0] in ("set", "setitem") and status == "ok" and not any(e.has_payload for e in events):
                stats["silent-setters"] = stats.get("silent-setters", 0) + 1
            if held or op[0] in ("hold", "release") or w.user_holds:
                stats["ops-under-user-hold"] = stats.get("ops-under-user-hold", 0) + 1
                bracket.append(snap)
                vs = held_oracle(op, bracket, events) + held_oracle(op, bracket, late)
                if not w.user_holds:
                    bracket = []
            elif status.startswith("err") and name in M.COMPOSITE:
                # a composite stopped half way by a rejected element: not judged (see ASSUMPTIONS)
                stats["composite-stopped"] = stats.get("composite-stopped", 0) + 1
                vs = []
            else:
                vs = oracle(w, op, status, snap, members, events) + oracle(w, op, status, snap, members, late)
                vs += relay_oracle(op, status, relays, relay_snapshot(w), members, events, stats)
                images_after = images_snapshot(w)
                if images_after != images_before or any(e.name.startswith("ImageSet.Image") for e in events):
                    stats["lifecycle.judged"] = stats.get("lifecycle.judged", 0) + 1
                vs += lifecycle_oracle(w, op, status, images_before, images_after, events)
                vs += lifecycle_oracle(w, op, status, images_before, images_after, late)
                if list(w.font.glyphOrder) != order_before:
                    stats["order.changed"] = stats.get("order.changed", 0) + 1
                    if op[0] != "set" or op[2] != "glyphOrder":
                        stats["order.changed-implicitly"] = stats.get("order.changed-implicitly", 0) + 1
                vs += order_oracle(w, op, status, order_before, events)
            for x in vs:
                x["step"] = step
            viols.extend(vs)
            if per_op is not None:
                per_op(w, step, op, status, events, snap, members, held)
            outs.append(mout)
        stats["origin." + case.get("origin", "memory")] = 1
        if case.get("static"):
            viols.extend(static_oracle())
        return outs, viols, stats, w, lines
    finally:
        shutil.rmtree(tmpd, ignore_errors=True)


def run_impl(case):
    outs, viols, stats, w, lines = run_world(case)
    nontrivial = stats.get("payload-deliveries", 0) > 0 and stats.get("will-deliveries", 0) > 0
    return dict(out=outs, viol=viols, info=dict(nontrivial=nontrivial, stats=stats))


_LINES = {}


def _key(case):
    import json
    return json.dumps(case, sort_keys=True, default=str)


def model_lines(case):
    """the model is started, per operation, from the abstraction of the implementation's pre-state: the lines
    are produced by running the implementation (cached by `generate`, recomputed for replays and shrinking)"""
    k = _key(case)
    if k not in _LINES:
        _LINES[k] = run_world(case)[4]
    return _LINES[k]
