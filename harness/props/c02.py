"""C02 - every effective change is announced and dirties the object and all ancestors.

Correspondence with M-Dirty (propagation up the tree, holds) on real fonts, a catalogue of public
mutators per object kind (effective change / same-value re-assignment), a direct oracle, and a
regenerated table (AST) of the public mutators of every class checked against the catalogue."""
import ast
import copy
import os
import shutil
import tempfile

import fontgen as fg
from sexp import Atom

PROP = "C02"
MODEL = "dirty"
SHRINKABLE = True
RULE = ("generated fonts (new, loaded from a generated UFO, just saved) x histories of catalogued public mutators of every "
        "object kind (effective change, or re-assignment of the held value), optional hold/release brackets on objects of "
        "the chain, saves (succeeding, and failing while a layer is written) followed by further mutators; the model is told "
        "the initial tree and per op only (receiver, kind, mutator, effective|same); after each op the dirty flag of every "
        "object, the *.Changed deliveries to a universal observer, new and detached objects and the OBSERVED touched set (deepest "
        "objects that announced, became dirty, or whose own data differ) are compared with the model's prediction; oracle: after "
        "an effective change (and the release of all holds) the receiver - and whichever object's own data differ - and all "
        "ancestors are dirty and each delivered *.Changed; a same-value re-assignment delivers nothing and changes no flag; "
        "non-trivial = at least one effective change on an object at depth >= 2; distinct = distinct case")
ASSUMPTIONS = [
    "no disableNotifications scope is active (propagation is cut by design there)",
    "container-valued 'assign = clear + refill' conveniences (glyph.lib = …, glyph.anchors = …, guidelines = …) are bulk "
    "mutators, not re-assignments: not held to the silence clause",
    "components reference base glyphs that are absent, so no cross-glyph notifications (C03 covers those)",
    "which flags a save clears is C06's subject: the model is told the flags after a save (as it is told the initial ones); "
    "saves happen only while nothing is held",
    "variants of data-dependent mutators (bottomMargin= without a vertical origin, deleting a glyph whose name stays in the "
    "glyph order, fall-backs for contours no pen can draw) are decided from public reads before the call and named in the "
    "mutator name",
]
TRUSTED = ["the catalogue harness/props/c02.py:CATALOGUE performs the mutators it names; its completeness against the source "
           "is the regenerated table lean/DefconModel/Gen/Mutators.lean + theorem catalogue_covers; its names are entries of the "
           "Lean target table (table_covers_catalogue) whose targets / guards / relays agree with the AST (table_agrees_with_source)",
           "the observation of the touched set on the implementation: *.Changed deliveries, dirty flags and data fingerprints of "
           "contours, components, anchors, guidelines, images and libs"]

COLORS = ["1,0,0,1", "0,1,0,0.5", "0,0,1,1"]

# ---------------------------------------------------------------------------------------
# catalogue: kind -> list of (name, effective(obj, k) -> None, same(obj) -> bool (False: no same-value form))
# `k` is a small int making consecutive effective calls differ.
# ---------------------------------------------------------------------------------------


def _set(attr, values):
    def eff(o, k):
        cur = getattr(o, attr)
        for v in values[k % len(values):] + values:
            if v != cur:
                setattr(o, attr, v)
                return
        raise RuntimeError("no different value for %s" % attr)

    def same(o):
        cur = getattr(o, attr)
        setattr(o, attr, cur if not hasattr(cur, "items") or isinstance(cur, dict) else cur)
        return True
    return (attr + "=", eff, same)


def _dict_cat(prefix, keyf, valf, newf=None, default=None):
    def set_eff(o, k):
        key = keyf(k)
        v = valf(k)
        if key in o and o[key] == v:
            v = valf(k + 1)
        o[key] = v

    def set_same(o):
        # (an item that holds None is assigned unconditionally by design - see BaseDictObject.__setitem__ - and is not
        # a candidate for the silence clause)
        keys = [key for key in sorted(o.keys(), key=repr) if o[key] is not None]
        if not keys:
            return False
        o[keys[0]] = copy.deepcopy(o[keys[0]])
        return True

    def del_eff(o, k):
        # (always one of the catalogue's own keys: what else the mapping holds - public.verticalOrigin in a glyph lib … - stays;
        # a mapping without that key gets it instead: recorded as the item assignment it is)
        key = keyf(k)
        if key not in o:
            o[key] = valf(k)
            return prefix + "__setitem__"
        del o[key]

    def clear_eff(o, k):
        if not len(o):
            o[keyf(k)] = valf(k)
            return prefix + "__setitem__"
        o.clear()

    def clear_same(o):
        if len(o):
            return False
        o.clear()
        return True

    def update_eff(o, k):
        v = valf(k + 3)
        if keyf(k) in o and o[keyf(k)] == v:
            v = valf(k + 4)
        o.update({keyf(k): v})
    def new_key(o, k):
        key = newf(k)
        while key in o:
            k += 1000
            key = newf(k)
        return key

    # a NEW key that carries the value `get()` answers for a key that is missing (None; 0 for kerning): the mapping
    # does change - it holds one key more - although a comparison with `get(key)` would say that nothing does
    def new_default_update(o, k):
        o.update({new_key(o, k): default})

    def new_default_ior(o, k):
        o |= {new_key(o, k): default}

    def new_default_set(o, k):
        o[new_key(o, k)] = default
    res = [(prefix + "__setitem__", set_eff, set_same), (prefix + "__delitem__", del_eff, None),
           (prefix + "clear", clear_eff, clear_same), (prefix + "update", update_eff, None)]
    if newf is not None:
        res += [(prefix + "update[new key, default value]", new_default_update, None),
                (prefix + "|=[new key, default value]", new_default_ior, None),
                (prefix + "__setitem__[new key, default value]", new_default_set, None)]
    return res


def _update_absent_key(keys, fallback):
    """dict-like leaf objects (anchor, guideline): `update` with one of their own keys that is not stored yet, holding
    None - what reading the attribute answers already; the object holds one key more afterwards"""
    def eff(o, k):
        for key in keys:
            if key not in o:
                o.update({key: None})
                return None
        return fallback(o, k)
    return eff


_CTX = {"tree": None}     # the tree of the running case (which object is the newest child of a container)


def _newest(objs):
    """the object of the list that joined the tree last (the model removes `the attached child with the greatest id`)"""
    tree = _CTX["tree"]
    ids = tree.ids if tree is not None else {}
    return max(objs, key=lambda o: ids.get(id(o), 10 ** 9))


def _glyph_append(kind):
    def eff(g, k):
        # even k: objects made by the glyph itself (instantiate*, dicts); odd k: free-standing objects the caller built
        import defcon
        own = k % 2 == 0
        if kind == "contour":
            c = g.instantiateContour() if own else defcon.Contour()
            for i, (x, y) in enumerate([(0, 0), (100 + k, 0), (50, 80)]):
                c.addPoint((x, y), "line")
            g.appendContour(c)
        elif kind == "component":
            c = g.instantiateComponent() if own else defcon.Component()
            c.baseGlyph = "nobase%d" % (k % 3)
            g.appendComponent(c)
        elif kind == "anchor":
            d = dict(x=k, y=2, name="top")
            g.appendAnchor(d if own else defcon.Anchor(anchorDict=d))
        elif kind == "guideline":
            d = dict(x=10 + k, y=None, angle=None, name="gl")
            g.appendGuideline(d if own else defcon.Guideline(guidelineDict=d))
    return eff


def _children(g, kind):
    return {"contour": lambda: list(g), "component": lambda: list(g.components), "anchor": lambda: list(g.anchors),
            "guideline": lambda: list(g.guidelines)}[kind]()


def _glyph_reappend(kind):
    """take the newest object out and put the same object back (the glyph must observe it again); a glyph without such
    an object gets one first"""
    def eff(g, k):
        lst = _children(g, kind)
        if not lst:
            _glyph_append(kind)(g, k)
            lst = _children(g, kind)
        obj = _newest(lst)
        getattr(g, "remove" + kind.capitalize())(obj)
        getattr(g, "append" + kind.capitalize())(obj)
    return eff


def _font_append_guideline(f, k):
    import defcon
    d = dict(x=None, y=100 + k, angle=None, name="fg")
    f.appendGuideline(d if k % 2 == 0 else defcon.Guideline(guidelineDict=d))


def _font_reorder_guidelines(f, k):
    if len(f.guidelines) < 2:
        _font_append_guideline(f, k)
        return "appendGuideline"
    f.guidelines = list(reversed(f.guidelines))


def _font_remove_guideline(f, k):
    if not f.guidelines:
        _font_append_guideline(f, k)
    f.removeGuideline(_newest(f.guidelines))


def _font_clear_guidelines(f, k):
    if not f.guidelines:
        _font_append_guideline(f, k)
    f.clearGuidelines()


def _color_same_spelled(o):
    """the colour the object holds, spelled differently (a sequence of numbers; a string with blanks)"""
    c = o.color
    if c is None:
        return False
    parts = [float(x) for x in str(c).split(",")]
    o.color = tuple(parts)
    o.color = ", ".join(str(c).split(","))
    return True


def _glyph_remove(kind):
    """remove the newest object of that kind (a glyph without one gets one first, which then leaves again)"""
    def eff(g, k):
        lst = _children(g, kind)
        if not lst:
            _glyph_append(kind)(g, k)
            lst = _children(g, kind)
        getattr(g, "remove" + kind.capitalize())(_newest(lst))
    return eff


def _glyph_clear(kind):
    plural = {"contour": "Contours", "component": "Components", "anchor": "Anchors", "guideline": "Guidelines"}[kind]

    def eff(g, k):
        if not _children(g, kind):
            _glyph_append(kind)(g, k)
        getattr(g, "clear" + plural)()
    return eff


_PEN_TROUBLE = ("PenError", "AssertionError", "NotImplementedError", "IndexError", "ZeroDivisionError")


def _margin(attr):
    """An effective margin change needs an outline with bounds.  What is decided from public reads BEFORE the call names
    the mutator that is then run (the returned string): a glyph whose bounds cannot be computed gets another width, a
    glyph without bounds gets a contour, `bottomMargin=` on a glyph without a vertical origin is a variant of its own
    (it also writes the glyph lib)."""
    def eff(g, k):
        try:
            bounds = g.bounds
            cur = getattr(g, attr) if bounds is not None else None
        except Exception as e:
            if type(e).__name__ not in _PEN_TROUBLE:
                raise
            _bump_width(g, k)
            return "width="
        if bounds is None:
            _glyph_append("contour")(g, k)
            return "appendContour"
        if attr == "leftMargin" and any(not len(c) for c in g):
            # (moving a contour without points changes nothing in it: not an effective change of that contour)
            _bump_width(g, k)
            return "width="
        variant = None
        if attr == "bottomMargin" and g.verticalOrigin is None:
            variant = "bottomMargin=[no vertical origin]"
        setattr(g, attr, (cur or 0) + 7 + k)
        return variant

    def same(g):
        try:
            if g.bounds is None:
                return False
            if attr in ("bottomMargin", "topMargin"):
                return False      # vertical margins write verticalOrigin into the lib (F26): not a plain re-assignment
            setattr(g, attr, getattr(g, attr))
        except Exception as e:
            if type(e).__name__ == "PenError":
                return False
            raise
        return True
    return (attr + "=", eff, same)


def _image_set(g, k):
    cur = 0
    if g.image is not None and g.image.fileName is not None:
        cur = g.image.transformation[4]
    g.image = dict(fileName="img%d.png" % (k % 3), xScale=1, xyScale=0, yxScale=0, yScale=1, xOffset=cur + 1 + k, yOffset=0, color=None)


def _image_same(g):
    im = g.image
    if im is None or im.fileName is None:
        return False
    g.image = dict(im)
    return True


def _glyph_clear_image(g, k):
    # (a call of its own, never preceded by another mutator that would dirty the glyph anyway; a glyph without an
    # image gets one instead)
    if g.image.fileName is None:
        _image_set(g, k)
        return "image="
    g.clearImage()


def _glyph_clear_all(g, k):
    g.clear()


def _glyph_move(g, k):
    if not len(g) and not g.components and not g.anchors:
        _glyph_append("contour")(g, k)
        return "appendContour"
    if any(not len(c) for c in g):
        # (moving a contour without points changes nothing in it: not an effective change of that contour)
        _bump_width(g, k)
        return "width="
    g.move((1 + k, 2))


def _bump_width(g, k):
    g.width = (g.width or 0) + 13 + k


def _append_point(c, k, y=4):
    c.appendPoint(c._pointClass((k, y), "line"))
    return "appendPoint"


def _distinct(c):
    """three or more points, no two at the same place: reversing or rotating the contour changes its point list"""
    pts = [(p.x, p.y) for p in c]
    return len(pts) >= 3 and len(set(pts)) == len(pts)


def _contour_op(f, need_distinct=True):
    """mutators that go through fontTools pens raise on contours that earlier point edits left undrawable (a curve
    point without its off-curves …), and reversing a contour whose points coincide changes nothing: such a contour gets a
    point instead - an effective change of the same object - and the op is recorded under that mutator's name"""
    def eff(c, k):
        _contour_pts(c, k)
        if need_distinct and not _distinct(c):
            return _append_point(c, k)
        try:
            return f(c, k)
        except Exception as e:
            if type(e).__name__ not in _PEN_TROUBLE:
                raise
            return _append_point(c, k)
    return eff


def _set_start(c, k):
    """an effective start-point change needs a closed contour with a second on-curve point; otherwise add a point"""
    on = [i for i, p in enumerate(c) if p.segmentType is not None and i != 0]
    if c.open or not on or len(c.onCurvePoints) < 2:
        return _append_point(c, k, 3)
    c.setStartPoint(on[0])


def _contour_identifier(c, k):
    if c.identifier is not None:
        return _append_point(c, k, 1)
    c.identifier = "cid%d" % id(c)


def _contour_pts(c, k):
    if len(c) < 3:
        for i, (x, y) in enumerate([(0, 0), (100, 0), (50, 80)]):
            c.addPoint((x + k, y), "line")


def _image_same_as_disk(s):
    """assign an image that has not been read yet the very bytes its file holds (read by the harness itself)"""
    path = getattr(s.font, "path", None)
    if not path or not os.path.isdir(path):
        return False
    for n in sorted(s.fileNames):
        rec = s._data.get(n)
        fp = os.path.join(path, "images", n)
        if rec is not None and rec.get("data") is None and rec.get("onDisk") and os.path.isfile(fp):
            with open(fp, "rb") as f:
                data = f.read()
            s[n] = data
            return True
    return False


def _layer_order(ls, k):
    if len(ls.layerOrder) < 2:
        ls.newLayer("lo%d" % k)
        return "newLayer"
    ls.layerOrder = list(reversed(ls.layerOrder))


def _layerset_delete(ls, k):
    """delete the layer that joined last (with everything in it) - unless that is the default layer: then add one"""
    layer = _newest([ls[n] for n in ls.layerOrder])
    if layer is ls.defaultLayer:
        ls.newLayer("del%d" % k)
        return "newLayer"
    del ls[layer.name]


def _set_delete(prefix, make):
    """image / data set: delete one of the files the catalogue's own item assignment made (no glyph refers to them);
    a set without such a file gets one instead"""
    def eff(s, k):
        names = sorted(n for n in s.fileNames if n.startswith(prefix) and not n.startswith("img"))
        if not names:
            s[make(k)[0]] = make(k)[1]
            return "__setitem__"
        del s[names[0]]
    return eff


def _layer_delete_glyph(l, k):
    """delete the glyph that joined the layer last; whether the font's glyph order follows (the name is listed and no
    other layer has a glyph of that name) is read before the call and names the variant"""
    names = list(l.keys())
    if not names:
        l.newGlyph("dg%d" % k)
        return "newGlyph"
    g = _newest([l[n] for n in names])
    name = g.name
    font = l.font
    elsewhere = any(name in other for other in font.layers if other is not l)
    listed = name in font.glyphOrder
    del l[name]
    if elsewhere or not listed:
        return "__delitem__[glyph order unchanged]"


def _do(*fs):
    """run the calls in order, return nothing (the entry is recorded under its own name)"""
    def eff(o, k):
        for f in fs:
            f(o, k)
    return eff


# glyph attributes that live in the glyph's lib: the lib object is what changes (the glyph follows through its callback)
VIA_LIB = {"markColor=", "verticalOrigin="}
ALSO_LIB = {"topMargin=", "bottomMargin=", "bottomMargin=[no vertical origin]"}

CATALOGUE = {
    "font": [
        ("glyphOrder=", _do(lambda f, k: setattr(f, "glyphOrder", ["zz%d" % k] + [n for n in f.glyphOrder if not n.startswith("zz")])),
         lambda f: (setattr(f, "glyphOrder", list(f.glyphOrder)) or True)),
        ("appendGuideline", _font_append_guideline, None),
        ("guidelines=reordered", _font_reorder_guidelines, None),
        ("removeGuideline", _font_remove_guideline, None),
        ("clearGuidelines", _font_clear_guidelines, None),
    ],
    "layerSet": [
        ("layerOrder=", _layer_order,
         lambda ls: (setattr(ls, "layerOrder", list(ls.layerOrder)) or True)),
        ("newLayer", _do(lambda ls, k: ls.newLayer("ln%d" % k)), None),
        ("__delitem__", _layerset_delete, None),
        ("defaultLayer=", None, lambda ls: (setattr(ls, "defaultLayer", ls.defaultLayer) or True)),
    ],
    "layer": [
        _set("color", COLORS), ("color=spelled", None, _color_same_spelled),
        ("newGlyph", _do(lambda l, k: l.newGlyph("ng%d" % k)), None),
        ("__delitem__", _layer_delete_glyph, None),
        ("insertGlyph", _do(lambda l, k: l.insertGlyph(_standalone_glyph(k), name="ig%d" % k)), None),
    ],
    "glyph": [
        _set("width", [0, 300, 512, 777]), _set("height", [0, 500, 1000]), _set("note", [None, "n1", "n2"]),
        _set("unicodes", [[], [65], [66, 67]]),
        ("unicode=", _do(lambda g, k: setattr(g, "unicode", 70 + k if g.unicode != 70 + k else 71 + k)),
         lambda g: len(g.unicodes) <= 1 and (setattr(g, "unicode", g.unicode) or True)), _set("markColor", [None] + COLORS),
        _set("verticalOrigin", [None, 700, 800]),
        _margin("leftMargin"), _margin("rightMargin"), _margin("bottomMargin"), _margin("topMargin"),
        ("image=", _image_set, _image_same),
        ("clearImage", _glyph_clear_image, None),
        ("appendContour", _glyph_append("contour"), None), ("removeContour", _glyph_remove("contour"), None),
        ("clearContours", _glyph_clear("contour"), None),
        ("appendComponent", _glyph_append("component"), None), ("removeComponent", _glyph_remove("component"), None),
        ("clearComponents", _glyph_clear("component"), None),
        ("appendAnchor", _glyph_append("anchor"), None), ("removeAnchor", _glyph_remove("anchor"), None),
        ("clearAnchors", _glyph_clear("anchor"), None),
        ("appendGuideline", _glyph_append("guideline"), None), ("removeGuideline", _glyph_remove("guideline"), None),
        ("clearGuidelines", _glyph_clear("guideline"), None),
        ("reappendContour", _glyph_reappend("contour"), None), ("reappendComponent", _glyph_reappend("component"), None),
        ("reappendAnchor", _glyph_reappend("anchor"), None), ("reappendGuideline", _glyph_reappend("guideline"), None),
        ("move", _glyph_move, None),
        ("clear", _glyph_clear_all, None),
        ("name=", _do(lambda g, k: setattr(g, "name", "rn%d" % k)), lambda g: (setattr(g, "name", g.name) or True)),
    ],
    "contour": [
        ("appendPoint", _do(lambda c, k: c.appendPoint(c._pointClass((k, 5), "line"))), None),
        ("insertPoint", _do(lambda c, k: c.insertPoint(0, c._pointClass((k, 9), "line"))), None),
        ("removePoint", _do(_contour_pts, lambda c, k: c.removePoint(c[-1])), None),
        ("reverse", _contour_op(lambda c, k: c.reverse()), None),
        ("move", _contour_op(lambda c, k: c.move((3 + k, 1)), need_distinct=False), None),
        ("setStartPoint", _contour_op(_set_start), None),
        ("identifier=", _contour_identifier,
         lambda c: (c.identifier is not None) and (setattr(c, "identifier", c.identifier) or True)),
        ("clockwise=", _contour_op(lambda c, k: setattr(c, "clockwise", not c.clockwise)),
         lambda c: len(c) >= 3 and all(p.segmentType == "line" for p in c) and (setattr(c, "clockwise", c.clockwise) or True)),
        ("clear", lambda c, k: _append_point(c, k) if not len(c) else c.clear(), None),
    ],
    "component": [
        _set("baseGlyph", ["nobase0", "nobase1", "nobase2"]),
        ("transformation=", _do(lambda c, k: setattr(c, "transformation", (1, 0, 0, 1, 10 + k, 20))),
         lambda c: (setattr(c, "transformation", tuple(c.transformation)) or True)),
        ("move", _do(lambda c, k: c.move((1 + k, 1))), None),
    ],
    "anchor": [_set("x", [1, 2, 3, 4]), _set("y", [5, 6, 7]), _set("name", [None, "top", "bottom"]), _set("color", [None] + COLORS),
               ("color=spelled", None, _color_same_spelled), ("move", _do(lambda a, k: a.move((1 + k, 1))), None),
               ("update[new key, default value]", _update_absent_key(["name", "color", "identifier"], lambda a, k: (a.move((2 + k, 1)), "move")[1]), None)],
    "guideline": [_set("x", [11, 12, 13]), _set("name", [None, "ga", "gb"]), _set("color", [None] + COLORS),
                  ("color=spelled", None, _color_same_spelled),
                  ("update[new key, default value]", _update_absent_key(["y", "angle", "color", "identifier"],
                                                                        lambda g, k: (setattr(g, "x", (g.x or 0) + 17 + k), "x=")[1]), None)],
    "image": [_set("fileName", ["img0.png", "img1.png", "img2.png"]), _set("color", [None] + COLORS),
              ("transformation=", _do(lambda i, k: setattr(i, "transformation", (1, 0, 0, 1, 30 + k, 0))),
               lambda i: (setattr(i, "transformation", tuple(i.transformation)) or True)),
              ("move", _do(lambda i, k: i.move((1 + k, 2))), None)],
    "lib": _dict_cat("", lambda k: "com.k%d" % (k % 4), lambda k: {"v": k}, newf=lambda k: "com.new%d" % k),
    "info": [_set("familyName", ["A", "B", "C"]), _set("unitsPerEm", [1000, 2048, 512]), _set("ascender", [700, 750, 800]),
             _set("openTypeOS2WeightClass", [400, 500, 700]), _set("postscriptBlueValues", [[], [0, 10], [-10, 0, 500, 510]])],
    "kerning": _dict_cat("", lambda k: ("A", "kr%d" % (k % 4)), lambda k: -10 - k, newf=lambda k: ("A", "nk%d" % k), default=0),
    "groups": _dict_cat("", lambda k: "grp%d" % (k % 4), lambda k: ["A", "g%d" % k], newf=lambda k: "ngrp%d" % k),
    "features": [_set("text", ["# a\n", "# b\n", "# c\n"])],
    "images": [("__setitem__", _do(lambda s, k: s.__setitem__("i%d.png" % (k % 3), fg.png_bytes(20 + k))),
                lambda s: bool(s.fileNames) and (s.__setitem__(sorted(s.fileNames)[0], s[sorted(s.fileNames)[0]]) or True)),
               ("__delitem__", _set_delete("i", lambda k: ("i%d.png" % (k % 3), fg.png_bytes(60 + k))), None),
               ("__setitem__unread", None, _image_same_as_disk)],
    "data": [("__setitem__", _do(lambda s, k: s.__setitem__("f%d.txt" % (k % 3), fg.data_bytes(20 + k))), None),
             ("__delitem__", _set_delete("f", lambda k: ("f%d.txt" % (k % 3), fg.data_bytes(60 + k))), None)],
}

def _poison_anchor(g, k):
    g.appendAnchor(dict(x=None, y=None, name="unwritable"))
    return "appendAnchor"


def _poison_lib(o, k):
    o["com.unwritable"] = {1, 2}          # no property list can hold a set: writing the lib raises
    return "__setitem__"


def _unpoison_lib(o, k):
    if "com.unwritable" in o:
        del o["com.unwritable"]
        return "__delitem__"
    o["com.k0"] = {"v": 5000 + k}
    return "__setitem__"


# entries a history names explicitly (never drawn at random): content no writer accepts, so that a save fails while
# the layers are written, and its removal.  Each is a catalogued mutator with particular data.
def _lib_empty(o, k):
    if not len(o):
        return "__skip__"
    o.clear()
    return "clear"


def _lib_fixed_item(o, k):
    # the SAME edit for whichever mapping it is applied to: two mappings with equal contents stay equal
    if o.get("com.same") == {"v": 1}:
        return "__skip__"
    o["com.same"] = {"v": 1}
    return "__setitem__"


def _rejected_assignment(attr, make):
    """a bulk assignment (`glyph.anchors = […]`, `….guidelines = […]`) that is REJECTED at its second item (both carry the
    same identifier): the old objects are gone, the first new one is in, the call raises"""
    def eff(o, k):
        ident = "dup%d" % k
        try:
            setattr(o, attr, [make(k, ident), make(k + 1, ident)])
        except AssertionError:
            return attr + "=[rejected at the second item]"
        raise RuntimeError("the assignment with a duplicate identifier was accepted")
    return eff


SCRIPTED = {
    "glyph": {"appendAnchor[no coordinates]": _poison_anchor,
              "anchors=[rejected at the second item]": _rejected_assignment(
                  "anchors", lambda k, i: dict(x=k, y=3, name="ra", identifier=i)),
              "guidelines=[rejected at the second item]": _rejected_assignment(
                  "guidelines", lambda k, i: dict(x=20 + k, y=None, angle=None, name="rg", identifier=i))},
    "font": {"guidelines=[rejected at the second item]": _rejected_assignment(
        "guidelines", lambda k, i: dict(x=None, y=200 + k, angle=None, name="rf", identifier=i))},
    "lib": {"__setitem__[unwritable value]": _poison_lib, "__delitem__[unwritable value]": _unpoison_lib,
            "clear[if not empty]": _lib_empty, "__setitem__[fixed item]": _lib_fixed_item},
}


# the names an entry can be recorded under besides its own (decided before the call, see _margin / _contour_op)
VARIANTS = {"glyph": ["bottomMargin=[no vertical origin]", "anchors=[rejected at the second item]",
                      "guidelines=[rejected at the second item]"],
            "font": ["guidelines=[rejected at the second item]"],
            "layer": ["__delitem__[glyph order unchanged]"]}


def _standalone_glyph(k):
    from defcon import Glyph
    g = Glyph()
    g.name = "src"
    g.width = 300 + k
    return g


# ---------------------------------------------------------------------------------------
# regenerated table: public mutators found in the source (AST)
# ---------------------------------------------------------------------------------------

CLASS_FILES = {"font": ("font.py", "Font"), "layerSet": ("layerSet.py", "LayerSet"), "layer": ("layer.py", "Layer"),
               "glyph": ("glyph.py", "Glyph"), "contour": ("contour.py", "Contour"), "component": ("component.py", "Component"),
               "anchor": ("anchor.py", "Anchor"), "guideline": ("guideline.py", "Guideline"), "image": ("image.py", "Image"),
               "features": ("features.py", "Features"), "images": ("imageSet.py", "ImageSet"), "data": ("dataSet.py", "DataSet"),
               "dict": ("base.py", "BaseDictObject")}

# public mutators that the catalogue deliberately does not drive, each with the reason
EXEMPT = {
    "font": {"save": "persistence (C01/C06)", "insertGlyph": "delegates to Layer.insertGlyph (catalogued)",
             "newGlyph": "delegates to Layer.newGlyph", "newLayer": "delegates to LayerSet.newLayer (catalogued)", "__delitem__": "delegates to Layer.__delitem__",
             "insertGuideline": "appendGuideline = insertGuideline at the end", "guidelines=": "bulk clear+refill",
             "reloadInfo": "C05", "reloadKerning": "C05", "reloadGroups": "C05", "reloadFeatures": "C05", "reloadLib": "C05",
             "reloadImages": "C05", "reloadData": "C05", "reloadGlyphs": "C05", "reloadLayers": "C05",
             "setDataFromSerialization": "C14", "deserialize": "C14", "tempLib=": "not persisted, no dirty by design",
             "updateGlyphOrder": "internal to the glyph-order callbacks (C12)", "testForExternalChanges": "C05",
             "path=": "moves no data", "close": "no data", "kerningGroupConversionRenameMaps=": "conversion detail (C16)",
             "saveInfo": "save", "saveGroups": "save", "saveKerning": "save", "saveFeatures": "save", "saveLib": "save",
             "saveImages": "save", "saveData": "save", "endSelfNotificationObservation": "teardown"},
    "layerSet": {"save": "persistence", "reloadLayers": "C05", "setDataFromSerialization": "C14", "deserialize": "C14",
                 "testForExternalChanges": "C05", "endSelfNotificationObservation": "teardown"},
    "layer": {"save": "persistence", "saveGlyph": "persistence", "reloadGlyphs": "C05", "setDataFromSerialization": "C14",
              "deserialize": "C14", "name=": "renames the directory bookkeeping; driven in C01", "lib=": "bulk clear+refill",
              "tempLib=": "not persisted", "loadGlyph": "lazy load (C07)", "testForExternalChanges": "C05",
              "endSelfNotificationObservation": "teardown"},
    "glyph": {"lib=": "bulk clear+refill", "tempLib=": "not persisted", "anchors=": "bulk clear+refill",
              "guidelines=": "bulk clear+refill", "insertContour": "appendContour = insertContour at the end",
              "insertComponent": "as appendComponent", "insertAnchor": "as appendAnchor", "insertGuideline": "as appendGuideline",
              "copyDataFromGlyph": "C13", "decomposeComponent": "C13", "decomposeAllComponents": "C13",
              "correctContourDirection": "composition of reverse", "setDataFromSerialization": "C14", "deserialize": "C14",
              "beginPath": "pen protocol (C13)", "endPath": "pen protocol", "addPoint": "pen protocol", "addComponent": "pen protocol",
              "endSelfNotificationObservation": "teardown", "contourIndex": "a query (forces the second stage of lazy loading)"},
    "contour": {"addPoint": "pen protocol (appendPoint is catalogued)", "beginPath": "pen protocol", "endPath": "pen protocol",
                "removeSegment": "C03/C10 drive it", "splitAndInsertPointAtSegmentAndT": "C03/C10 drive it",
                "setDataFromSerialization": "C14", "deserialize": "C14", "endSelfNotificationObservation": "teardown",
                "generateIdentifier": "C10", "generateIdentifierForPoint": "C10",
                "positionForProspectivePointInsertionAtSegmentAndT": "a query (tries the split and undoes it)"},
    "component": {"identifier=": "C10", "generateIdentifier": "C10", "setDataFromSerialization": "C14", "deserialize": "C14",
                  "endSelfNotificationObservation": "teardown"},
    "anchor": {"identifier=": "C10", "generateIdentifier": "C10", "setDataFromSerialization": "C14", "deserialize": "C14",
               "endSelfNotificationObservation": "teardown"},
    "guideline": {"y=": "as x=", "angle=": "as x=", "identifier=": "C10", "generateIdentifier": "C10",
                  "setDataFromSerialization": "C14", "deserialize": "C14", "endSelfNotificationObservation": "teardown"},
    "image": {"clear": "driven through glyph.clearImage", "setDataFromSerialization": "C14", "deserialize": "C14",
              "endSelfNotificationObservation": "teardown"},
    "features": {"setDataFromSerialization": "C14", "deserialize": "C14", "endSelfNotificationObservation": "teardown"},
    "images": {"save": "persistence", "reloadImages": "C05", "setDataFromSerialization": "C14", "deserialize": "C14",
               "fileNames=": "set by the loader only", "testForExternalChanges": "C05", "endSelfNotificationObservation": "teardown"},
    "data": {"save": "persistence", "reloadData": "C05", "setDataFromSerialization": "C14", "deserialize": "C14",
             "fileNames=": "set by the loader only", "testForExternalChanges": "C05", "endSelfNotificationObservation": "teardown"},
    "dict": {"setDataFromSerialization": "C14", "deserialize": "C14"},
}


def _extract_mutators(repo):
    """per class: public methods and property setters whose body (transitively through self.<method>() calls inside the
    class) assigns self.dirty or posts a notification"""
    res = {}
    for kind, (fn, cls) in CLASS_FILES.items():
        tree = ast.parse(open(os.path.join(repo, "Lib", "defcon", "objects", fn)).read())
        cnode = [n for n in tree.body if isinstance(n, ast.ClassDef) and n.name == cls]
        if not cnode:
            raise ValueError("class %s not found in %s" % (cls, fn))
        cnode = cnode[0]
        funcs = {n.name: n for n in cnode.body if isinstance(n, ast.FunctionDef)}
        direct, calls = {}, {}
        for name, f in funcs.items():
            d = False
            cs = set()
            for n in ast.walk(f):
                if isinstance(n, ast.Assign):
                    for t in n.targets:
                        if isinstance(t, ast.Attribute) and isinstance(t.value, ast.Name) and t.value.id == "self" and t.attr == "dirty":
                            d = True
                if isinstance(n, ast.Call) and isinstance(n.func, ast.Attribute):
                    if n.func.attr == "postNotification":
                        d = True
                    if isinstance(n.func.value, ast.Name) and n.func.value.id == "self":
                        cs.add(n.func.attr)
            direct[name] = d
            calls[name] = cs
        mut = {n for n, d in direct.items() if d}
        changed = True
        while changed:
            changed = False
            for n in funcs:
                if n not in mut and calls[n] & mut:
                    mut.add(n)
                    changed = True
        # property setters: `x = property(_get_x, _set_x)`
        setters = {}
        for n in cnode.body:
            if isinstance(n, ast.Assign) and isinstance(n.value, ast.Call) and getattr(n.value.func, "id", None) == "property":
                args = n.value.args
                if len(args) >= 2 and isinstance(args[1], ast.Name):
                    setters[args[1].id] = n.targets[0].id
        public = set()
        for n in mut:
            if n in setters:
                public.add(setters[n] + "=")
            elif not n.startswith("_") or n in ("__setitem__", "__delitem__"):
                if not n.endswith("Callback") and not n.startswith("begin") and not n.startswith("instantiate"):
                    public.add(n)
        res[kind] = sorted(public)
    return res


def _catalogue_names():
    names = {}
    for kind, entries in CATALOGUE.items():
        names[kind] = sorted({e[0] for e in entries})
    for k in ("lib", "kerning", "groups"):
        pass
    names["dict"] = sorted({e[0] for e in CATALOGUE["lib"]})
    return names


KIND_CLASSES = {"font": ("font.py", "Font"), "layerSet": ("layerSet.py", "LayerSet"), "layer": ("layer.py", "Layer"),
                "glyph": ("glyph.py", "Glyph"), "contour": ("contour.py", "Contour"), "component": ("component.py", "Component"),
                "anchor": ("anchor.py", "Anchor"), "guideline": ("guideline.py", "Guideline"), "image": ("image.py", "Image"),
                "lib": ("lib.py", "Lib"), "info": ("info.py", "Info"), "kerning": ("kerning.py", "Kerning"),
                "groups": ("groups.py", "Groups"), "features": ("features.py", "Features"), "images": ("imageSet.py", "ImageSet"),
                "data": ("dataSet.py", "DataSet")}
BASE_CLASSES = ("BaseObject", "BaseDictObject", "BaseDictCompareObject")
# `for x in <iterable>: x.<method>(…)` inside a method: which children the loop walks
CHILD_ITERS = {"self": "contour", "_contours": "contour", "components": "component", "_components": "component",
               "anchors": "anchor", "_anchors": "anchor"}


def _is_self_attr(node, attr=None):
    return (isinstance(node, ast.Attribute) and isinstance(node.value, ast.Name) and node.value.id == "self"
            and (attr is None or node.attr == attr))


def _class_namespace(repo, fn, cls, bases_ns):
    """functions and property setters visible in class `cls` (its own, then those of the defcon base classes it names)"""
    tree = ast.parse(open(os.path.join(repo, "Lib", "defcon", "objects", fn)).read())
    cnode = [n for n in tree.body if isinstance(n, ast.ClassDef) and n.name == cls]
    if not cnode:
        raise ValueError("class %s not found in %s" % (cls, fn))
    cnode = cnode[0]
    funcs, setters = {}, {}
    for b in cnode.bases:
        bname = getattr(b, "id", None)
        if bname in bases_ns:
            funcs.update(bases_ns[bname][0])
            setters.update(bases_ns[bname][1])
    inherited = set(funcs)
    for n in cnode.body:
        if isinstance(n, ast.FunctionDef):
            funcs[n.name] = n
        if isinstance(n, ast.Assign) and isinstance(n.value, ast.Call) and getattr(n.value.func, "id", None) == "property":
            args = n.value.args
            if len(args) >= 2 and isinstance(args[1], ast.Name):
                setters[n.targets[0].id] = args[1].id
            elif len(args) >= 2 and isinstance(args[1], ast.Attribute):
                setters[n.targets[0].id] = args[1].attr          # property(BaseObject._get_dirty, _set_dirty)
    return funcs, setters, tree, inherited - {n.name for n in cnode.body if isinstance(n, ast.FunctionDef)}


def _analyse(funcs, setters):
    """per function: the roles it reaches directly, the functions of the class it runs, and the statements that matter
    for the guard"""
    direct, calls = {}, {}

    def callees_of_target(t):
        # self.p = v / self.p += v  -> the setter of property p ;  self[k] = v -> __setitem__ ; del self[k] -> __delitem__
        res = set()
        if _is_self_attr(t) and t.attr in setters and t.attr != "dirty":
            res.add(setters[t.attr])
        if isinstance(t, ast.Subscript) and isinstance(t.value, ast.Name) and t.value.id == "self":
            res.add("__setitem__")
        return res
    for name, f in funcs.items():
        d, cs = set(), set()
        for n in ast.walk(f):
            targets = []
            if isinstance(n, ast.Assign):
                targets = n.targets
            elif isinstance(n, ast.AugAssign):
                targets = [n.target]
            for t in targets:
                if _is_self_attr(t, "dirty"):
                    if not (isinstance(n, ast.Assign) and isinstance(n.value, ast.Constant) and n.value.value is False):
                        d.add("self")
                elif isinstance(t, ast.Subscript) and _is_self_attr(t.value, "lib"):
                    d.add("lib")
                elif isinstance(t, ast.Attribute) and _is_self_attr(t.value, "_image") and not t.attr.startswith("_"):
                    d.add("image")
                elif isinstance(t, ast.Attribute) and _is_self_attr(t.value, "info") and t.attr == "dirty":
                    d.add("info")
                cs |= callees_of_target(t)
            if isinstance(n, ast.Delete):
                for t in n.targets:
                    if isinstance(t, ast.Subscript) and _is_self_attr(t.value, "lib"):
                        d.add("lib")
                    if isinstance(t, ast.Subscript) and isinstance(t.value, ast.Name) and t.value.id == "self":
                        cs.add("__delitem__")
            if isinstance(n, ast.Call) and isinstance(n.func, ast.Attribute):
                if isinstance(n.func.value, ast.Name) and n.func.value.id == "self":
                    cs.add(n.func.attr)
                if _is_self_attr(n.func.value, "lib") and n.func.attr in ("clear", "update", "pop", "popitem", "setdefault"):
                    d.add("lib")
                if _is_self_attr(n.func.value, "_image") and n.func.attr in ("clear", "update"):
                    d.add("image")
            if isinstance(n, ast.For) and isinstance(n.target, ast.Name):
                it = n.iter
                if isinstance(it, ast.Call) and getattr(it.func, "id", None) == "reversed" and it.args:
                    it = it.args[0]
                src = "self" if (isinstance(it, ast.Name) and it.id == "self") else (it.attr if _is_self_attr(it) else None)
                if src in CHILD_ITERS:
                    for m in ast.walk(n):
                        if (isinstance(m, ast.Call) and isinstance(m.func, ast.Attribute) and isinstance(m.func.value, ast.Name)
                                and m.func.value.id == n.target.id and m.func.attr in ("move", "reverse")):
                            d.add(CHILD_ITERS[src])
        direct[name] = d
        calls[name] = {c for c in cs if c in funcs}
    reach = {n: set(d) for n, d in direct.items()}
    changed = True
    while changed:
        changed = False
        for n in funcs:
            for c in calls[n]:
                if not reach[c] <= reach[n]:
                    reach[n] |= reach[c]
                    changed = True
    return direct, calls, reach


def _has_compare(test, ops):
    return any(isinstance(c, ast.Compare) and any(isinstance(o, ops) for o in c.ops) for c in ast.walk(test))


def _guards(funcs, setters, direct, calls, reach):
    """a function is guarded when it contains the comparison that keeps a re-assignment silent: `if old == new: return`
    (also `if not len(self): return` for clear), or `if old != new:` around what changes the object; or when all it
    does is to run guarded functions of the class"""
    def effect_in(nodes, name):
        for st in nodes:
            for n in ast.walk(st):
                if isinstance(n, (ast.Assign, ast.AugAssign)):
                    ts = n.targets if isinstance(n, ast.Assign) else [n.target]
                    if any(_is_self_attr(t, "dirty") or (isinstance(t, ast.Subscript) and (
                            (isinstance(t.value, ast.Name) and t.value.id == "self") or _is_self_attr(t.value, "lib"))) for t in ts):
                        return True
                    if any(_is_self_attr(t) and t.attr in setters and reach.get(setters[t.attr]) for t in ts):
                        return True
                if isinstance(n, ast.Call) and isinstance(n.func, ast.Attribute):
                    if n.func.attr == "postNotification":
                        return True
                    if isinstance(n.func.value, ast.Name) and n.func.value.id == "self" and reach.get(n.func.attr):
                        return True
        return False
    own = {}
    for name, f in funcs.items():
        g = False
        for n in ast.walk(f):
            if not isinstance(n, ast.If):
                continue
            early = len(n.body) >= 1 and isinstance(n.body[-1], ast.Return)
            if early and (_has_compare(n.test, (ast.Eq,)) or (isinstance(n.test, ast.UnaryOp) and isinstance(n.test.op, ast.Not))):
                g = True
            if _has_compare(n.test, (ast.NotEq,)) and effect_in(n.body, name):
                g = True
        own[name] = g
    res = dict(own)
    changed = True
    while changed:
        changed = False
        for n in funcs:
            if not res[n] and not direct[n] and calls[n]:
                eff = [c for c in calls[n] if reach[c]]
                if eff and all(res[c] for c in eff):
                    res[n] = True
                    changed = True
    return res


def _const_str(node):
    return node.value if isinstance(node, ast.Constant) and isinstance(node.value, str) else None


def _posts_and_observers(funcs, calls):
    """per function: the notification names it posts (itself or through methods of the class it runs); and for the
    class: notification name -> callbacks registered with `<obj>.addObserver(self, "<callback>", "<name>")`"""
    posts = {}
    observers = {}
    for name, f in funcs.items():
        ps = set()
        for n in ast.walk(f):
            if not (isinstance(n, ast.Call) and isinstance(n.func, ast.Attribute)):
                continue
            if n.func.attr == "postNotification":
                cand = [n.args[0]] if n.args else []
                cand += [kw.value for kw in n.keywords if kw.arg == "notification"]
                for c in cand:
                    if _const_str(c):
                        ps.add(_const_str(c))
            if n.func.attr == "addObserver":
                kw = {k.arg: k.value for k in n.keywords}
                args = list(n.args)
                observer = kw.get("observer", args[0] if len(args) > 0 else None)
                method = kw.get("methodName", args[1] if len(args) > 1 else None)
                note = kw.get("notification", args[2] if len(args) > 2 else None)
                if isinstance(observer, ast.Name) and observer.id == "self" and _const_str(method) and _const_str(note):
                    observers.setdefault(_const_str(note), set()).add(_const_str(method))
        posts[name] = ps
    changed = True
    while changed:
        changed = False
        for n in funcs:
            for c in calls[n]:
                if not posts[c] <= posts[n]:
                    posts[n] |= posts[c]
                    changed = True
    return posts, observers


def _extract_facts(repo):
    """(kind, method or `prop=`) -> (roles reached, guarded) for every public method / property setter of every class.
    Roles: `self`, `lib`, `image`, `info`, `contour` / `component` / `anchor` (see _analyse), and for the one effect that
    crosses the tree: `font.lib<self` when the method posts a notification for which the Font registers a callback that
    writes `self.lib[…]`, `font.lib<parent` when it posts one that the class of its container (Layer for Glyph) observes with
    a callback that posts such a notification in turn."""
    bases_ns = {}
    btree = ast.parse(open(os.path.join(repo, "Lib", "defcon", "objects", "base.py")).read())
    for b in BASE_CLASSES:
        cn = [n for n in btree.body if isinstance(n, ast.ClassDef) and n.name == b][0]
        funcs, setters = {}, {}
        for bb in cn.bases:
            if getattr(bb, "id", None) in bases_ns:
                funcs.update(bases_ns[bb.id][0])
                setters.update(bases_ns[bb.id][1])
        for n in cn.body:
            if isinstance(n, ast.FunctionDef):
                funcs[n.name] = n
            if isinstance(n, ast.Assign) and isinstance(n.value, ast.Call) and getattr(n.value.func, "id", None) == "property":
                args = n.value.args
                if len(args) >= 2 and isinstance(args[1], ast.Name):
                    setters[n.targets[0].id] = args[1].id
        bases_ns[b] = (funcs, setters)
    per = {}
    for kind, (fn, cls) in KIND_CLASSES.items():
        funcs, setters, tree, inherited = _class_namespace(repo, fn, cls, bases_ns)
        if kind == "info":
            # the attribute setters of Info are made by init_property: its nested `setter` is every attribute's setter
            ip = [n for n in tree.body if isinstance(n, ast.FunctionDef) and n.name == "init_property"]
            inner = [n for n in (ip[0].body if ip else []) if isinstance(n, ast.FunctionDef) and n.name == "setter"]
            if inner:
                funcs = dict(funcs)
                setters = dict(setters)
                for e in CATALOGUE["info"]:
                    attr = e[0][:-1]
                    funcs["_set_" + attr] = inner[0]
                    setters[attr] = "_set_" + attr
        direct, calls, reach = _analyse(funcs, setters)
        guard = _guards(funcs, setters, direct, calls, reach)
        posts, observers = _posts_and_observers(funcs, calls)
        per[kind] = dict(funcs=funcs, setters=setters, inherited=inherited, reach=reach, guard=guard, posts=posts, observers=observers)
    # notifications that make the font write its lib
    font = per["font"]
    to_font_lib = {n for n, cbs in font["observers"].items() if any("lib" in font["reach"].get(cb, ()) for cb in cbs)}
    container = {"glyph": "layer", "layer": "layerSet", "contour": "glyph", "component": "glyph", "anchor": "glyph"}
    facts = {}
    for kind, c in per.items():
        funcs, setters, inherited, reach, guard, posts = c["funcs"], c["setters"], c["inherited"], c["reach"], c["guard"], c["posts"]
        par = per.get(container.get(kind))

        def roles(fname):
            r = set(reach[fname])
            if posts[fname] & to_font_lib:
                r.add("font.lib<self")
            if par is not None:
                for n in posts[fname]:
                    for cb in par["observers"].get(n, ()):
                        if par["posts"].get(cb, set()) & to_font_lib:
                            r.add("font.lib<parent")
            return sorted(r)
        # (an inherited method that reaches nothing - addObserver, getRepresentation … - is left out; one the class
        # defines itself is listed even when it reaches nothing: that is a decided fact)
        for name in sorted(funcs):
            if not name.startswith("_") or name in ("__setitem__", "__delitem__", "__ior__"):
                if reach[name] or name not in inherited:
                    facts[(kind, name)] = (roles(name), guard[name])
        for prop, sname in sorted(setters.items()):
            if sname in funcs and not prop.startswith("_") and (reach[sname] or sname not in inherited):
                facts[(kind, prop + "=")] = (roles(sname), guard[sname])
    return facts


def _driven_names():
    """every (kind, name) the harness can send to the model: catalogue entries and the variants decided before a call"""
    res = {}
    for kind, entries in CATALOGUE.items():
        res[kind] = sorted({e[0] for e in entries} | set(VARIANTS.get(kind, [])))
    return res


def extract(repo, lean_dir):
    found = _extract_mutators(repo)
    cat = _catalogue_names()
    facts = _extract_facts(repo)
    driven = _driven_names()

    def lst(xs):
        return "[" + ", ".join('"%s"' % x for x in xs) + "]"
    lines = ["/- REGENERATED on every run by harness/props/c02.py:extract from %s/Lib/defcon/objects — do not edit. -/" % "<repo>",
             "namespace DefconModel.Gen.Mutators", "",
             "/-- (kind, public mutators found in the source: methods/setters that (transitively) set dirty or post) -/",
             "def found : List (String × List String) := ["]
    lines.append(",\n".join('  ("%s", %s)' % (k, lst(found[k])) for k in sorted(found)))
    lines += ["]", "", "/-- (kind, mutators the catalogue of the correspondence harness drives) -/",
              "def catalogue : List (String × List String) := ["]
    lines.append(",\n".join('  ("%s", %s)' % (k, lst(cat.get(k, []))) for k in sorted(found)))
    lines += ["]", "", "/-- (kind, mutators deliberately not driven here; reasons in harness/props/c02.py:EXEMPT) -/",
              "def exempt : List (String × List String) := ["]
    lines.append(",\n".join('  ("%s", %s)' % (k, lst(sorted(EXEMPT.get(k, {})))) for k in sorted(found)))
    lines += ["]", "", "/-- (kind, every name the harness can hand to the model: catalogue entries and their variants) -/",
              "def driven : List (String × List String) := ["]
    lines.append(",\n".join('  ("%s", %s)' % (k, lst(driven[k])) for k in sorted(driven)))
    lines += ["]", "",
              "/-- what the AST says about a public method / property setter (`x=`) of the class of a kind: which objects its body,",
              "or a method of the class it runs, sets dirty or writes (`self`, `lib`, `image`, `info`, `contour` / `component` / `anchor`",
              "for a loop that calls a mutator on each; `font.lib<self` / `font.lib<parent` when it posts a notification that makes the",
              "font write its lib, directly or passed on by its container), and whether it carries the comparison that keeps a",
              "re-assignment silent -/",
              "structure Facts where", "  kind : String", "  method : String", "  reaches : List String", "  guard : Bool", "",
              "def facts : List Facts := ["]
    lines.append(",\n".join('  ⟨"%s", "%s", %s, %s⟩' % (k, m, lst(r), "true" if g else "false") for (k, m), (r, g) in sorted(facts.items())))
    lines += ["]", "", "end DefconModel.Gen.Mutators", ""]
    text = "\n".join(lines)
    path = os.path.join(lean_dir, "DefconModel", "Gen", "Mutators.lean")
    old = open(path).read() if os.path.exists(path) else None
    changed = []
    if old != text:
        with open(path, "w") as f:
            f.write(text)
        changed.append("Gen/Mutators.lean")
    n = sum(len(v) for v in found.values())
    return changed, dict(obligations=3, classes=len(found), mutators_found=n, method_facts=len(facts),
                         names_driven=sum(len(v) for v in driven.values()))


# ---------------------------------------------------------------------------------------
# the real tree
# ---------------------------------------------------------------------------------------

class Tree(object):
    """node ids for the objects of a font; parent links as the dirty propagation sees them"""

    def __init__(self, font):
        self.font = font
        self.nodes = []       # (obj, kind, parent id or None)
        self.ids = {}
        self.add(font, "font", None)
        ls = self.add(font.layers, "layerSet", 0)
        for ln in font.layers.layerOrder:
            layer = font.layers[ln]
            self.add_layer(layer, ls)
        self.add(font.info, "info", 0)
        for gl in font.guidelines:
            self.add(gl, "guideline", 0)
        self.add(font.kerning, "kerning", 0)
        self.add(font.groups, "groups", 0)
        self.add(font.features, "features", 0)
        self.add(font.lib, "lib", 0)
        self.add(font.images, "images", 0)
        self.add(font.data, "data", 0)

    def add(self, obj, kind, parent):
        if id(obj) in self.ids:
            return self.ids[id(obj)]
        self.nodes.append((obj, kind, parent))
        self.ids[id(obj)] = len(self.nodes) - 1
        return len(self.nodes) - 1

    def add_layer(self, layer, ls):
        li = self.add(layer, "layer", ls)
        self.add(layer.lib, "lib", li)
        for gn in sorted(layer.keys()):
            self.add_glyph(layer[gn], li)
        return li

    def add_glyph(self, g, li):
        gi = self.add(g, "glyph", li)
        self.add(g.lib, "lib", gi)
        for c in g:
            self.add(c, "contour", gi)
        for c in g.components:
            self.add(c, "component", gi)
        for a in g.anchors:
            self.add(a, "anchor", gi)
        for x in g.guidelines:
            self.add(x, "guideline", gi)
        if g.image is not None:
            self.add(g.image, "image", gi)
        return gi

    def refresh(self):
        """objects created by mutators join the tree"""
        font = self.font
        for gl in font.guidelines:
            self.add(gl, "guideline", 0)
        ls = self.ids[id(font.layers)]
        for ln in font.layers.layerOrder:
            layer = font.layers[ln]
            if id(layer) not in self.ids:
                self.add_layer(layer, ls)
            else:
                li = self.ids[id(layer)]
                for gn in sorted(layer.keys()):
                    if gn in layer._glyphs:
                        self.add_glyph(layer[gn], li)

    def path(self, i):
        res = []
        while i is not None:
            res.append(i)
            i = self.nodes[i][2]
        return res

    def attached(self, i):
        """is node i still inside the font (objects removed by a mutator stay in the table)"""
        obj, kind, parent = self.nodes[i]
        try:
            return obj is self.font or obj.font is self.font
        except Exception:
            return False


class Recorder(object):
    def __init__(self, font):
        self.log = []
        font.dispatcher.addObserver(self, "cb", None, None)

    def cb(self, notification):
        self.log.append((notification.name, id(notification.object)))


class _Everything(object):
    def __contains__(self, x):
        return True


class Watcher(object):
    """a second observer - registered per object for that object's own `*.Changed`, or (scope "global") for every
    notification of the font, ahead of everybody else - and the only one an observer-scoped hold (`ohold`) applies
    to: all the others (the parents' callbacks, the Recorder) must be served as usual"""

    def __init__(self, tree, scope, font):
        self.log = []
        self.scope = scope
        self.tree = tree
        if scope == "global":
            self.watched = _Everything()
            font.dispatcher.addObserver(self, "cb", None, None)
        else:
            self.watched = set()
            self.sync()

    def sync(self):
        if self.scope == "global":
            return
        for (obj, kind, parent) in self.tree.nodes:
            if id(obj) not in self.watched:
                self.watched.add(id(obj))
                obj.addObserver(self, "cb", obj.changeNotificationName)

    def snapshot(self):
        return self.watched if self.scope == "global" else set(self.watched)

    def cb(self, notification):
        if notification.name.endswith(".Changed"):
            self.log.append((notification.name, id(notification.object)))


# ---------------------------------------------------------------------------------------
# generation
# ---------------------------------------------------------------------------------------

KINDS = ["glyph", "glyph", "contour", "contour", "component", "anchor", "guideline", "image", "lib", "lib", "layer", "layerSet",
         "font", "info", "kerning", "groups", "features", "images", "data"]


def gen_case(rng, maxops):
    spec = fg.gen_font(rng, 2, 3)
    # every glyph has a contour, an anchor, a guideline, a component on an absent base and an image: all kinds present
    for l in spec["layers"]:
        if not l["glyphs"]:
            l["glyphs"]["A"] = fg.gen_glyph(rng, "A")
        for gn, g in l["glyphs"].items():
            if not g["contours"] and rng.random() < 0.6:
                g["contours"].append({"id": None, "points": [[0, 0, "line", False, None, None], [90, 0, "line", False, None, None],
                                                               [40, 70, "line", False, None, None]]})
            g["components"] = [["nobase0", [1, 0, 0, 1, 0, 0], None]]
            if not g["anchors"]:
                g["anchors"].append([1, 2, "top", None, None])
            if not g["guidelines"]:
                g["guidelines"].append([10, None, None, "gl", None, None])
            g["image"] = {"fileName": "img0.png", "xOffset": 0, "color": None}
    origin = rng.choice(["disk", "disk", "memory", "saved"])
    ops = []
    held = []
    watcher = rng.choice([None, None, "specific", "global"])
    oheld = False
    for _ in range(rng.randint(3, maxops)):
        r = rng.random()
        kind = rng.choice(KINDS)
        pick = rng.randrange(1000)
        if r < 0.03:
            ops.append(["save", "font", 0])         # (skipped while something is held)
        elif r < 0.55:
            ops.append(["touch", kind, pick, rng.randrange(1000)])
        elif r < 0.72:
            ops.append(["same", kind, pick, rng.randrange(1000)])
        elif r < 0.76 and watcher:
            ops.append(["orelease" if oheld else "ohold", "font", 0])
            oheld = not oheld
        elif r < 0.86:
            hk = rng.choice(["glyph", "layer", "contour", "layerSet", "font", "lib", "glyph"])
            ops.append(["hold", hk, pick])
            held.append([hk, pick])
        elif held:
            h = held.pop(rng.randrange(len(held)))
            ops.append(["release"] + h)
    # scripted: an object the caller built (not one the container instantiated) is added, then edited; the same for an
    # object taken out and put back.  (pick -1 = the object added last; odd step numbers build free-standing objects.)
    r = rng.random()
    if r < 0.12:
        ops = [["same", "font", 0, 0], ["touch", "font", 0, 1], ["touch", "guideline", -1, rng.randrange(1000)],
               ["touch", "font", 0, 2], ["touch", "guideline", -1, rng.randrange(1000)]] + ops
    elif r < 0.24:
        kind = rng.choice(["Contour", "Component", "Anchor", "Guideline"])
        names = [e[0] for e in CATALOGUE["glyph"] if e[1] is not None]
        gp = rng.randrange(1000)
        ops = [["same", "glyph", gp, 0], ["touch", "glyph", gp, names.index("append" + kind)],
               ["touch", kind.lower(), -1, rng.randrange(1000)], ["same", "glyph", gp, 0],
               ["touch", "glyph", gp, names.index("reappend" + kind)], ["touch", kind.lower(), -1, rng.randrange(1000)]] + ops
    # the scripted pattern of the property: hold an ancestor, change a descendant (twice: coalescing), release
    if rng.random() < 0.5:
        pick = rng.randrange(1000)
        ops += [["hold", "glyph", pick], ["touch", "contour", pick, 1], ["touch", "contour", pick, 2], ["hold", "layer", pick],
                ["release", "glyph", pick], ["release", "layer", pick]]
    for h in reversed(held):
        ops.append(["release"] + h)
    if oheld:
        ops.append(["orelease", "font", 0])
    # a bulk assignment that is rejected half-way, then further edits of the same object and below it
    if rng.random() < 0.25:
        gp = rng.randrange(1000)
        kind, name = rng.choice([("glyph", "anchors=[rejected at the second item]"), ("glyph", "guidelines=[rejected at the second item]"),
                                 ("glyph", "anchors=[rejected at the second item]"), ("font", "guidelines=[rejected at the second item]")])
        ops += [["touch", kind, gp, name], ["touch", kind, gp, rng.randrange(1000)],
                ["touch", rng.choice(["contour", "anchor", "lib"]) if kind == "glyph" else "info", gp, rng.randrange(1000)]]
    # a hold on the whole dispatcher (everything any object posts is queued) around the SAME edit of two mappings of
    # different owners that hold equal contents: both must be heard once the hold is released
    if rng.random() < 0.25:
        p1, p2 = rng.randrange(1000), rng.randrange(1000)
        ops += [["touch", "lib", p1, "clear[if not empty]"], ["touch", "lib", p2, "clear[if not empty]"], ["ghold", "font", 0],
                ["touch", "lib", p1, "__setitem__[fixed item]"], ["touch", "lib", p2, "__setitem__[fixed item]"]]
        if rng.random() < 0.5:
            ops += [["touch", rng.choice(["contour", "anchor", "info", "kerning"]), rng.randrange(1000), rng.randrange(1000)]]
        ops += [["grelease", "font", 0]]
    # a save that FAILS while the layers are written (content no writer accepts), the content is taken out again, the
    # font is edited further and saved: what a failed save leaves behind must not cut later changes off
    if rng.random() < 0.3:
        gp = rng.randrange(1000)
        how = rng.choice(["anchor", "anchor", "layer lib", "some lib"])
        if how == "anchor":
            poison = [["touch", "glyph", gp, "appendAnchor[no coordinates]"]]
            cure = [["touch", "glyph", gp, "removeAnchor"]]
        else:
            lp = 0 if how == "layer lib" else rng.randrange(1000)
            poison = [["touch", "lib", lp, "__setitem__[unwritable value]"]]
            cure = [["touch", "lib", lp, "__delitem__[unwritable value]"]]
        after = [["touch", rng.choice(["glyph", "glyph", "contour", "anchor", "lib", "layer"]), gp if rng.random() < 0.6 else rng.randrange(1000),
                  rng.randrange(1000)] for _ in range(rng.randint(1, 3))]
        ops += poison + [["save", "font", 0]] + cure + [["touch", "glyph", gp, rng.randrange(1000)]]
        if rng.random() < 0.6:
            ops += [["save", "font", 0]]
        ops += after
    return dict(spec=spec, origin=origin, ops=ops, watcher=watcher)


_GENERATED = []     # the cases of the running check (generate() remembers them) …
_LINES = {}         # … and their model lines, made in one parallel pass when the first of them is asked for


def generate(rng, tier):
    n, maxops = (400, 12) if tier == "quick" else (5000, 30)
    del _GENERATED[:]
    _LINES.clear()
    for _ in range(n):
        c = gen_case(rng, maxops)
        _GENERATED.append(c)
        yield c


# ---------------------------------------------------------------------------------------
# running a case on the real font (also yields the model's lines: the tree shape is only known here)
# ---------------------------------------------------------------------------------------

def _build(case, tmpd):
    from defcon import Font
    import persist_common as pc
    spec = case["spec"]
    if case["origin"] == "memory":
        impl = pc.Impl(dict(spec=spec, origin="memory", ops=[]), tmpd)
        font = impl.font
    else:
        p = os.path.join(tmpd, "f.ufo")
        fg.write_ufo(spec, p)
        font = Font(p)
    # load everything so the tree is complete, then settle the flags
    for ln in font.layers.layerOrder:
        for gn in sorted(font.layers[ln].keys()):
            g = font.layers[ln][gn]
            len(g)
    font.info, font.kerning, font.groups, font.features, font.lib
    if case["origin"] == "saved":
        font.save()
    return font


def _pick(tree, kind, pick, need_attached=True):
    cands = [i for i, (o, k, p) in enumerate(tree.nodes) if k == kind and (not need_attached or tree.attached(i))]
    if not cands:
        return None
    return cands[pick % len(cands)]


def _fingerprint(obj, kind):
    """the own data of the objects a glyph-level mutator edits on the side (moving a glyph moves its contours, components
    and anchors): an object whose notifications are held and that is dirty already would otherwise change unseen"""
    try:
        if kind == "contour":
            return (obj.identifier, tuple((p.x, p.y, p.segmentType, p.smooth, p.name, p.identifier) for p in obj))
        if kind == "component":
            return (obj.baseGlyph, tuple(obj.transformation), obj.identifier)
        if kind in ("anchor", "guideline", "image", "lib"):
            return tuple(sorted((k, repr(v)) for k, v in dict(obj).items()))
    except Exception:
        return None
    return None


def _fingerprints(tree):
    return {j: _fingerprint(o, k) for j, (o, k, p) in enumerate(tree.nodes) if k in ("contour", "component", "anchor", "guideline", "image", "lib")}


def _dirty_set(tree):
    res = []
    for i, (o, k, p) in enumerate(tree.nodes):
        if tree.attached(i) and o.dirty:
            res.append(i)
    return res


FP_KINDS = ("contour", "component", "anchor", "guideline", "image", "lib")
_CALIB = None      # a list, when harness/selftest/C02/calibrate.py collects what each mutator was seen to do


def _deepest(tree, nodes):
    """the members of `nodes` that have no descendant in `nodes`"""
    nodes = set(nodes)
    return sorted(j for j in nodes if not any(j in tree.path(c)[1:] for c in nodes))


def _rel(tree, i, j):
    """where node j sits, seen from the receiver i (calibration aid only)"""
    kj = tree.nodes[j][1]
    if j == i:
        return "self"
    if tree.nodes[j][2] == i:
        return "child:" + kj
    if j in tree.path(i):
        return "ancestor:" + kj
    if kj == "lib" and tree.nodes[j][2] == 0:
        return "font.lib"
    return "other:" + kj


def run(case, want_lines):
    tmpd = tempfile.mkdtemp(prefix="vc02_")
    try:
        font = _build(case, tmpd)
        tree = Tree(font)
        _CTX["tree"] = tree
        wscope = case.get("watcher")
        # (the global watcher registers first: the centre serves it before the Recorder)
        watcher = Watcher(tree, "global", font) if wscope == "global" else None
        rec = Recorder(font)
        if wscope and wscope != "global":
            watcher = Watcher(tree, "specific", font)
        oheld_at = None
        owed_held = []
        keep = [tree, rec, watcher]
        outs, lines, viol = [], [], []
        stats = {"origin." + case["origin"]: 1}
        # the initial tree (shape, kinds) and flags: the only thing the model is told about the font
        init_dirty = _dirty_set(tree)
        lines.append([Atom("init"), [[i, (-1 if p is None else p), Atom(k)] for i, (o, k, p) in enumerate(tree.nodes)], init_dirty])
        outs.append(Atom("ok"))
        holds = {}

        gheld = [False]

        def active_holds():
            # (a hold on an object that a mutator has taken out of the font holds nothing back inside the font)
            return gheld[0] or any(n and tree.attached(j) for j, n in holds.items())
        touched_since = []     # (node, log index) of effective changes whose propagation is still owed
        deep = False
        for step, op in enumerate(case["ops"]):
            kind = op[1]
            tree.refresh()
            i = _pick(tree, kind, op[2])
            before_dirty = set(_dirty_set(tree))
            before_attached = {j for j in range(len(tree.nodes)) if tree.attached(j)}
            before_fp = _fingerprints(tree)
            mark = len(rec.log)
            wlen = len(watcher.log) if watcher is not None else 0
            wbefore = watcher.snapshot() if watcher is not None else set()
            nnodes = len(tree.nodes)
            line = [Atom("nop")]
            if op[0] == "save":
                # the font is written (in place; a font that has no place yet gets one).  What a save does to the flags is
                # C06's subject: the model is told the flags afterwards, as it is told the initial ones.  What matters here
                # is what follows: a save - failed ones included - must not cut later changes off.
                if active_holds() or oheld_at is not None:
                    outs.append([Atom("skip")])
                    lines.append([Atom("skip")])
                    continue
                ok = True
                try:
                    font.save(font.path or os.path.join(tmpd, "m.ufo"))
                except Exception as e:
                    # (the catalogue's data are not all writable - a lib item that holds None, a guideline with x and y
                    # but no angle … - and SCRIPTED adds content no writer accepts: a failing save is an outcome, not a finding)
                    ok = False
                    stats["save.failed.%s" % type(e).__name__] = stats.get("save.failed.%s" % type(e).__name__, 0) + 1
                tree.refresh()
                d = sorted(_dirty_set(tree))
                stats["save." + ("ok" if ok else "failed")] = stats.get("save." + ("ok" if ok else "failed"), 0) + 1
                lines.append([Atom("save"), Atom("ok" if ok else "failed"), d])
                outs.append([[Atom("saved"), Atom("ok" if ok else "failed")], [Atom("dirty"), [Atom("set")] + d]])
                continue
            if i is None:
                outs.append([Atom("skip")])
                lines.append([Atom("skip")])
                continue
            obj = tree.nodes[i][0]
            entries = CATALOGUE[kind]
            if op[0] in ("touch", "same"):
                if op[0] == "touch":
                    cands = [e for e in entries if e[1] is not None]
                else:
                    cands = [e for e in entries if e[2] is not None]
                if isinstance(op[3], str):
                    # an entry the history names (SCRIPTED, or a catalogue entry by its name)
                    cands = [(op[3], SCRIPTED[kind][op[3]], None)] if op[3] in SCRIPTED.get(kind, {}) else [e for e in cands if e[0] == op[3]]
                if not cands:
                    outs.append([Atom("skip")])
                    lines.append([Atom("skip")])
                    continue
                name, eff, same = cands[(op[3] if isinstance(op[3], int) else 0) % len(cands)]
                applied = True
                try:
                    if op[0] == "touch":
                        variant = eff(obj, step)
                        if variant == "__skip__":
                            applied = False
                        elif isinstance(variant, str):
                            name = variant      # decided from public reads before the call (see _margin, _contour_op)
                    else:
                        applied = bool(same(obj))
                except Exception as e:
                    outs.append([Atom("err"), Atom(type(e).__name__), name])
                    lines.append([Atom("skip")])
                    viol.append(dict(clause="C02/mutator-raised", signature="C02/mutator-raised/%s.%s" % (kind, name), step=step,
                                     error="%s: %s" % (type(e).__name__, str(e)[:200])))
                    continue
                if not applied:
                    outs.append([Atom("skip")])
                    lines.append([Atom("skip")])
                    continue
                stats["%s.%s.%s" % (op[0], kind, name)] = stats.get("%s.%s.%s" % (op[0], kind, name), 0) + 1
                # ALL the model is told: receiver, its kind, the mutator's name, effective or same-value
                line = [Atom("mut"), i, Atom(kind), name, Atom("effective" if op[0] == "touch" else "same")]
                if op[0] == "touch" and len(tree.path(i)) >= 3:
                    deep = True
            elif op[0] in ("ohold", "orelease"):
                # (observer-scoped and object-scoped brackets are not nested into each other: what a release re-posts into
                # another hold is the notification centre's business, C04)
                if watcher is None or (op[0] == "ohold") == (oheld_at is not None) or (op[0] == "ohold" and active_holds()):
                    outs.append([Atom("skip")])
                    lines.append([Atom("skip")])
                    continue
                try:
                    if op[0] == "ohold":
                        font.dispatcher.holdNotifications(observer=watcher)
                        oheld_at = (len(rec.log), len(watcher.log))
                        owed_held = []
                    else:
                        font.dispatcher.releaseHeldNotifications(observer=watcher)
                except Exception as e:
                    outs.append([Atom("err"), Atom(type(e).__name__), op[0]])
                    lines.append([Atom("skip")])
                    viol.append(dict(clause="C02/hold-release-raised", signature="C02/hold-release-raised/%s" % op[0], step=step,
                                     error="%s: %s" % (type(e).__name__, str(e)[:200])))
                    continue
                line = [Atom("nop")]
            elif op[0] in ("ghold", "grelease"):
                # a hold on everything the dispatcher is handed (no observable, no name, no observer); not nested into the
                # other kinds of hold, and nothing that makes new objects happens inside
                if (op[0] == "ghold") == gheld[0] or (op[0] == "ghold" and (active_holds() or oheld_at is not None)):
                    outs.append([Atom("skip")])
                    lines.append([Atom("skip")])
                    continue
                try:
                    if op[0] == "ghold":
                        font.dispatcher.holdNotifications()
                    else:
                        font.dispatcher.releaseHeldNotifications()
                except Exception as e:
                    outs.append([Atom("err"), Atom(type(e).__name__), op[0]])
                    lines.append([Atom("skip")])
                    viol.append(dict(clause="C02/hold-release-raised", signature="C02/hold-release-raised/%s" % op[0], step=step,
                                     error="%s: %s" % (type(e).__name__, str(e)[:200])))
                    continue
                gheld[0] = op[0] == "ghold"
                stats[op[0]] = stats.get(op[0], 0) + 1
                line = [Atom(op[0])]
            elif op[0] == "hold" and (oheld_at is not None or gheld[0]):
                outs.append([Atom("skip")])
                lines.append([Atom("skip")])
                continue
            elif op[0] == "hold":
                obj.holdNotifications()
                holds[i] = holds.get(i, 0) + 1
                line = [Atom("hold"), i]
            elif op[0] == "release":
                if not holds.get(i):
                    outs.append([Atom("skip")])
                    lines.append([Atom("skip")])
                    continue
                try:
                    obj.releaseHeldNotifications()
                except Exception as e:
                    outs.append([Atom("err"), Atom(type(e).__name__), op[0]])
                    lines.append([Atom("skip")])
                    viol.append(dict(clause="C02/hold-release-raised", signature="C02/hold-release-raised/release", step=step,
                                     error="%s: %s" % (type(e).__name__, str(e)[:200])))
                    continue
                holds[i] -= 1
                line = [Atom("release"), i]
            tree.refresh()
            lines.append(line)
            # ---- what the implementation did, observed: compared with the model's prediction, never handed to it ----
            new_nodes = [[j, -1 if tree.nodes[j][2] is None else tree.nodes[j][2], Atom(tree.nodes[j][1])]
                         for j in range(nnodes, len(tree.nodes))]
            after_attached = {j for j in range(len(tree.nodes)) if tree.attached(j)}
            gone = sorted(j for j in before_attached if j not in after_attached)
            changed = [tree.ids[oid] for (nm, oid) in rec.log[mark:] if nm.endswith(".Changed") and oid in tree.ids
                       and tree.ids[oid] < nnodes]
            after_dirty = set(_dirty_set(tree))
            after_fp = _fingerprints(tree)
            # the touched set as far as it can be seen from outside: the deepest objects (that were there before and still
            # are) which announced a change, became dirty, or whose own data differ
            evid = {j for j in changed if j in after_attached}
            evid |= {j for j in (after_dirty - before_dirty) if j < nnodes}
            evid |= {j for j, v in before_fp.items() if j in after_attached and after_fp.get(j) != v}
            touched = _deepest(tree, evid)
            outs.append([[Atom("dirty"), [Atom("set")] + sorted(after_dirty)],
                         [Atom("changed"), [Atom("set")] + sorted(set(changed))],
                         [Atom("touched"), [Atom("set")] + touched],
                         [Atom("new"), new_nodes],
                         [Atom("gone"), [Atom("set")] + gone]])
            if _CALIB is not None and op[0] in ("touch", "same", "release"):
                _CALIB.append(dict(op=op[0], kind=kind, name=name if op[0] != "release" else "release",
                                   touched=sorted(_rel(tree, i, j) for j in touched),
                                   new=[(k, _rel(tree, i, p), bool(tree.nodes[j][0].dirty)) for j, p, k in new_nodes],
                                   gone=sorted(_rel(tree, i, j) for j in gone),
                                   held=sorted(_rel(tree, i, j) for j, n in holds.items() if n and j in tree.path(i))))
            # ---- oracle -----------------------------------------------------------------
            if viol:
                continue
            if watcher is not None:
                if op[0] == "ohold":
                    stats["ohold"] = stats.get("ohold", 0) + 1
                elif op[0] == "orelease":
                    # everything the un-held Recorder heard from a watched object during the bracket reaches the watcher
                    # now (once: coalesced), nothing else does
                    r0, w0 = oheld_at
                    oheld_at = None
                    owed = [e for e in owed_held if e[1] in tree.ids]
                    want = []
                    for e in owed:
                        if e not in want:
                            want.append(e)
                    got = [e for e in watcher.log[w0:] if e[1] in tree.ids]
                    if sorted(got) != sorted(want):
                        viol.append(dict(clause="C02/held-observer-not-served", signature="C02/held-observer-not-served/orelease",
                                         step=step, missing=len([e for e in want if e not in got]),
                                         extra=len([e for e in got if e not in want])))
                    if want:
                        stats["ohold.released_nonempty"] = stats.get("ohold.released_nonempty", 0) + 1
                elif oheld_at is None:
                    # no observer-scoped hold: the watcher hears exactly what the Recorder hears about the watched objects
                    wnew = [e for e in watcher.log[wlen:] if e[1] in tree.ids]
                    rnew = [e for e in rec.log[mark:] if e[0].endswith(".Changed") and e[1] in wbefore and e[1] in tree.ids]
                    if sorted(wnew) != sorted(rnew):
                        viol.append(dict(clause="C02/observers-disagree", signature="C02/observers-disagree/%s" % op[0], step=step))
                else:
                    # (only objects the watcher was registered with when the notification was posted)
                    owed_held += [e for e in rec.log[mark:] if e[0].endswith(".Changed") and e[1] in wbefore]
                    if [e for e in watcher.log[wlen:]]:
                        viol.append(dict(clause="C02/held-observer-served-early", signature="C02/held-observer-served-early/%s" % op[0],
                                         step=step))
                watcher.sync()
            if viol:
                continue
            path = tree.path(i)
            if op[0] == "same":
                other = [(nm, oid) for (nm, oid) in rec.log[mark:]]
                if other or after_dirty != before_dirty:
                    viol.append(dict(clause="C02/same-value-not-silent", signature="C02/same-value-not-silent/%s.%s" % (kind, name),
                                     step=step, delivered=[nm for nm, _ in other][:6],
                                     dirtied=sorted(after_dirty - before_dirty)))
            if op[0] == "touch":
                if i not in after_dirty and not (kind == "font" and name == "glyphOrder=") and not (kind == "glyph" and name in VIA_LIB):
                    viol.append(dict(clause="C02/changed-object-not-dirty", signature="C02/changed-object-not-dirty/%s.%s" % (kind, name),
                                     step=step))
                touched_since.append((i, mark, kind, name))
            if op[0] != "same":
                # the first sentence of the property for WHICHEVER object's own data differ after the step - the receiver,
                # an object the mutator edits on the side (glyph lib, image), one a callback wrote (the font lib through the
                # glyph order, also when a held notification is released): it is dirty now, and owes the whole chain
                opname = name if op[0] == "touch" else op[0]
                for j in sorted(j for j, v in before_fp.items() if j in after_attached and after_fp.get(j) != v):
                    if j not in after_dirty:
                        viol.append(dict(clause="C02/data-changed-not-dirty", signature="C02/data-changed-not-dirty/%s.%s/%s" % (
                            kind, opname, tree.nodes[j][1]), step=step, node=j))
                        break
                    if (j, mark, kind, opname) not in touched_since:
                        touched_since.append((j, mark, kind, opname))
            if not active_holds():
                # nothing held anywhere: every owed propagation must be complete now
                for (t, m, tk, tn) in touched_since:
                    if not tree.attached(t):
                        continue
                    got = {tree.ids[oid] for (nm, oid) in rec.log[m:] if nm.endswith(".Changed") and oid in tree.ids}
                    for a in tree.path(t):
                        if a not in after_dirty:
                            viol.append(dict(clause="C02/ancestor-not-dirty", signature="C02/ancestor-not-dirty/%s.%s/%s" % (
                                tk, tn, tree.nodes[a][1]), step=step, node=a))
                            break
                        if a not in got:
                            viol.append(dict(clause="C02/changed-not-delivered", signature="C02/changed-not-delivered/%s.%s/%s" % (
                                tk, tn, tree.nodes[a][1]), step=step, node=a))
                            break
                touched_since = []
        stats["len"] = len(case["ops"])
        try:
            font.close()
        except Exception:
            pass
        return dict(out=outs, viol=viol, info=dict(nontrivial=deep, stats=stats), lines=lines)
    finally:
        _CTX["tree"] = None
        shutil.rmtree(tmpd, ignore_errors=True)


def run_impl(case):
    r = run(case, False)
    r.pop("lines")
    return r


def _lines_worker(case):
    import sys
    import warnings
    import logging
    import sexp
    warnings.filterwarnings("ignore")
    logging.disable(logging.CRITICAL)
    sys.unraisablehook = lambda *a: None
    return [sexp.dumps(x) for x in run(case, True)["lines"]]


def model_lines(case):
    """the lines for the model: the initial tree, then per op only (receiver, kind, mutator, effective|same) / hold / release
    (the tree shape and the receiver ids are only known on the real font, so the case is run once more for them; the cases
    of a check are run in parallel the first time one is asked for)"""
    import json
    import multiprocessing
    key = json.dumps(case, sort_keys=True, default=str)
    if key not in _LINES and len(_GENERATED) >= 32 and not _LINES:
        nproc = max(1, min(16, os.cpu_count() or 1))
        ctx = multiprocessing.get_context("fork")
        with ctx.Pool(nproc) as pool:
            res = pool.map(_lines_worker, _GENERATED, chunksize=max(1, len(_GENERATED) // (nproc * 8)))
        for c, r in zip(_GENERATED, res):
            _LINES[json.dumps(c, sort_keys=True, default=str)] = r
    if key not in _LINES:
        return [Atom(x) for x in _lines_worker(case)]
    # (already encoded: an Atom is written out verbatim)
    return [Atom(x) for x in _LINES[key]]
