"""C16 - saving to an older UFO format keeps everything that format can express.

Correspondence with M-Conv (driver `conv`): the conversion functions (feature splitting with the real
regular expression, blue-value pairing, rename maps) and the format branches of Font.save / Font(path)
(which components are written for target format t, what is read back, what stays loaded).
Direct oracle: the property's predicate on the implementation's own trace, from a specification of the
three formats written here independently of the Lean model (ufoLib's reader is used to look at the
saved UFO, never defcon)."""
import copy
import errno
import hashlib
import json
import os
import random as _random
import re
import shutil
import tempfile

import fontgen as fg
import persist_common as pc
from sexp import Atom, opt

PROP = "C16"
MODEL = "conv"
SHRINKABLE = True
RULE = ("generated fonts (as C01, plus PostScript hint values, info attributes of every format generation, kerning "
        "groups in both naming schemes, feature texts built from class definitions / lookups / several feature blocks "
        "with odd spacing and occasionally repeated tags) written with ufoLib alone as UFO 1, 2 or 3 (package or zip), "
        "opened with defcon with a random subset of glyphs/images/data pre-read, optionally edited (scripted patterns "
        "at known positions: edit then save, delete then re-create a renamed kerning group, chains 3>2>3 / 3>1>3 / "
        "2>3>2 / 1>2>1, a failing save before the real one) and saved to every target format 1/2/3 in place, to a new "
        "path and over an existing UFO (package over package, zip over zip, zip over package, package over zip); failing "
        "saves are of two kinds: a validation error inside ufoLib, and one injected fault at the final replace of a "
        "conversion in place / a save over an existing UFO (the put-aside raises; the move of the new UFO onto the "
        "destination raises before anything arrived, after a part arrived - an empty or half-filled directory, an empty or "
        "truncated zip -, or after everything arrived), every fault x kind combination drawn without replacement; after a "
        "failed save the destination is compared byte for byte and kind for kind with what was there; "
        "after each save the UFO is read back raw (ufoLib) and reopened with defcon; "
        "plus pure-function cases (feature splitting, header search, pairing) on generated texts; non-trivial = a save "
        "that changes the format (or goes to another path) followed by a reopen; distinct = distinct cases")
ASSUMPTIONS = [
    "texts are ASCII without carriage returns (the line protocol); str.strip()/\\s/\\w agree with the model on that alphabet",
    "the font lib does not use the org.robofab.* keys UFO 1 reserves for features and hint data",
    "anchors are named and no contour consists of a single named move point (GLIF 1 cannot tell the two apart)",
    "new kerning-group names chosen by ufoLib's reader do not collide (no numeric suffixes; their order would depend on "
    "Python's string hashing)",
    "top-level parts count as loaded; a layer is renamed to a name no other layer has and the default layer is not "
    "deleted (defcon accepts both and leaves a layer set that is none); no layer is called public.default unless it is "
    "the default layer (Font.save refuses such a font by an assertion before it does anything)",
    "info values are valid for format 3 and convert to formats 2/1 without change of value (integers, strings, the "
    "enumerations ufoLib maps one to one)",
    "a feature header's opening brace is not followed on the same line by another feature header (nested feature "
    "blocks are not FEA; the splitter would start a block in the middle of that line)",
    "which glyphs of a layer are loaded is compared only for the layers a save determines (all of them on a save-as or "
    "below format 3; loading a composite glyph loads its bases, which the model does not follow)",
    "a save that fails does so by raising from a validation inside ufoLib, or from ONE injected fault at the final "
    "replace: shutil.move of the destination aside raises before moving anything; shutil.move of the new UFO onto the "
    "destination raises before anything arrived, after a part arrived (torn: that move comes from the system's temporary "
    "directory, i.e. may be a copy) or after everything arrived; the moves inside the destination's directory (put aside, "
    "put back) are renames and happen or do not; the clean-up calls do not fail; faults at the writing steps: C18",
]
TRUSTED = ["fontTools.ufoLib reader/writer and its info/kerning conversion tables (used by defcon and, independently, by the "
           "oracle's raw read-back)", "the abstraction of glyphs into (GLIF 1 part, rest) done by this module"]

HINT_SCALARS = ["postscriptBlueFuzz", "postscriptBlueScale", "postscriptBlueShift", "postscriptForceBold"]
HINT_LISTS = ["postscriptStemSnapV", "postscriptStemSnapH", "postscriptBlueValues", "postscriptOtherBlues",
              "postscriptFamilyBlues", "postscriptFamilyOtherBlues"]
HINT_ATTRS = HINT_SCALARS + HINT_LISTS
HINT_KEYS = {"postscriptBlueFuzz": "blueFuzz", "postscriptBlueScale": "blueScale", "postscriptBlueShift": "blueShift",
             "postscriptForceBold": "forceBold", "postscriptStemSnapV": "vStems", "postscriptStemSnapH": "hStems",
             "postscriptBlueValues": "blueValues", "postscriptOtherBlues": "otherBlues",
             "postscriptFamilyBlues": "familyBlues", "postscriptFamilyOtherBlues": "familyOtherBlues"}
ROBOFAB_KEYS = ["org.robofab.opentype.classes", "org.robofab.opentype.features", "org.robofab.opentype.featureorder",
                "org.robofab.postScriptHintData"]
# a header right after another header's opening brace, on the same line: the splitter (which searches the rest of
# the text after each header) takes it for a block start although it is not at a line start.  Nested feature blocks
# are not FEA; such texts are compared with the model but not judged by the oracle.
NESTED_HEADER = re.compile(r"feature[ \t\n]+\w{4}[ \t\n]*\{[ \t]*feature[ \t\n]+\w{4}[ \t\n]*\{")
GEN_FILE = os.path.join("DefconModel", "Gen", "InfoAttrs.lean")

EXTRA_INFO = {
    # attributes of format 1 (some under another name there), with values ufoLib maps one to one
    "styleMapStyleName": ["regular", "bold italic"], "styleMapFamilyName": ["Fam"], "openTypeOS2WidthClass": [3, 5],
    "postscriptWindowsCharacterSet": [1, 4], "postscriptFontName": ["Fam-Regular"], "postscriptFullName": ["Fam Regular"],
    "openTypeNameLicense": ["OFL"], "year": [2009], "trademark": ["tm"], "postscriptUniqueID": [4000001],
    # attributes format 2 introduced
    "openTypeHheaAscender": [800], "openTypeHheaLineGap": [50], "openTypeOS2TypoAscender": [750],
    "openTypeOS2Type": [[2]], "postscriptUnderlineThickness": [50], "openTypeNameSampleText": ["abc"],
    "postscriptIsFixedPitch": [False],
    # attributes format 3 introduced
    "woffMajorVersion": [1], "woffMetadataUniqueID": [{"id": "x.y"}],
    "openTypeGaspRangeRecords": [[{"rangeMaxPPEM": 9, "rangeGaspBehavior": [0]}]],
}


# ---------------------------------------------------------------------------------------
# the three formats, as this module understands them (independent of defcon and of the model)
# ---------------------------------------------------------------------------------------

def info_tables():
    import fontTools.ufoLib as u
    v3 = sorted(u.fontInfoAttributesVersion3)
    v2 = sorted(a for a in v3 if a in u.fontInfoAttributesVersion2)
    v1 = sorted(a for a in v2 if u.fontInfoAttributesVersion2To1.get(a, a) in u.fontInfoAttributesVersion1)
    return v1, v2, v3


_TABLES = []


def attrs_of(fmt):
    if not _TABLES:
        _TABLES.extend(info_tables())
    return set(_TABLES[fmt - 1])


def ws_norm_blocks(text):
    """a feature text up to the whitespace the UFO 1 conversion may change: block boundaries are line starts, and the
    conversion strips each block and joins them with newlines, so every run of whitespace that contains a line break
    counts as one line break and the ends of the text are trimmed; spacing inside a line is kept exactly.  Returned
    as the list of lines."""
    if not text:
        return []
    t = re.sub(r"[ \t\n\r\x0b\x0c]*\n[ \t\n\r\x0b\x0c]*", "\n", text).strip()
    return t.split("\n") if t else []


def spec_join_v1(lib):
    """feature text a UFO 1 lib stands for (RoboFab convention): classes, then the features in the stored order"""
    parts = []
    if lib.get("org.robofab.opentype.classes") is not None:
        parts.append(lib["org.robofab.opentype.classes"])
    feats = lib.get("org.robofab.opentype.features")
    if feats is not None:
        order = lib.get("org.robofab.opentype.featureorder")
        if order is None:
            order = sorted(feats)
        for tag in order:
            if feats.get(tag) is not None:
                parts.append(feats[tag])
    return "\n".join(parts)


def spec_hint_from_v1(lib):
    """info hint attributes a UFO 1 lib stands for"""
    hd = lib.get("org.robofab.postScriptHintData")
    res = {}
    if hd is None:
        return res
    for attr, key in HINT_KEYS.items():
        if key not in hd or hd[key] is None:
            continue
        v = hd[key]
        if attr in HINT_LISTS[2:]:
            flat = []
            for pair in v:
                a, b = pair
                flat.extend([a, b])
            v = flat
        res[attr] = v
    return res


def spec_down(kerning, groups, maps):
    """what ufoLib documents for writing kerning and groups below format 3 with rename maps: every new name is
    written under its old name (a renamed group overwrites a group already stored under the old name)"""
    if not maps:
        return dict(kerning), {k: list(v) for k, v in groups.items()}
    remap = {}
    for side in ("side1", "side2"):
        for old, new in maps[side].items():
            remap[new] = old
    k2 = {}
    for key, v in kerning.items():
        a, b = key.split("|")
        k2["%s|%s" % (remap.get(a, a), remap.get(b, b))] = v
    g2 = {n: list(c) for n, c in groups.items() if n not in remap}
    for n, c in groups.items():
        if n in remap:
            g2[remap[n]] = list(c)
    return k2, g2


def reader_maps(raw_kerning, raw_groups, glyph_names):
    """the rename maps ufoLib's reader builds for raw UFO 1/2 kerning and groups"""
    from fontTools.ufoLib.converters import convertUFO1OrUFO2KerningToUFO3Kerning
    nested = {}
    for key, v in raw_kerning.items():
        a, b = key.split("|")
        nested.setdefault(a, {})[b] = v
    k, g, maps = convertUFO1OrUFO2KerningToUFO3Kerning(nested, copy.deepcopy(raw_groups), set(glyph_names))
    flat = {}
    for a in k:
        for b in k[a]:
            flat["%s|%s" % (a, b)] = k[a][b]
    return flat, g, {"side1": dict(maps["side1"]), "side2": dict(maps["side2"])}


def exp_dump(spec):
    """dump_font-shaped expectation for spec-shaped content: unset list attributes of the info read as absent, and the
    glyph order the font keeps in its lib is C12's subject"""
    d = pc.strip_order(fg.expected_dump(spec))
    d["info"] = {a: v for a, v in d["info"].items() if v is not None and v != []}
    return d


def glif1_gspec(g):
    """what GLIF 1 keeps of a glyph spec"""
    g = copy.deepcopy(g)
    for c in g["contours"]:
        c["id"] = None
        for p in c["points"]:
            p[5] = None
    for c in g["components"]:
        c[2] = None
    g["anchors"] = [[a[0], a[1], a[2], None, None] for a in g["anchors"]]
    g["guidelines"] = []
    g["image"] = None
    return g


# ---------------------------------------------------------------------------------------
# generation
# ---------------------------------------------------------------------------------------

TAGS = ["kern", "liga", "calt", "ss01", "aalt", "mark", "c2sc", "onum"]
CLASSES = ["@cls = [A B];", "languagesystem DFLT dflt;", "# classes", "@c2=[C D];\n@c3 = [E];",
           "lookup L1 {\n  sub A by B;\n} L1;", "@feature = [A];", "# feature kern { not a header", "featurekern {", "feature abc {",
           "feature kerning {", "table OS/2 {\n  TypoAscender 750;\n} OS/2;"]
BODIES = ["\n    pos A B -10;\n", " sub f_i by A; ", "\n  lookup L1;\n", "\n\tsub A' B by C;\n\n\tsub B by A;\n", "\n# feature liga {\n  sub A by B;\n",
          "", "\n    script latn;\n    language DEU ;\n    sub A by a.alt;\n"]
BETWEEN = ["\n", "\n\n", "\n\n\n", "\n  \n", "\n# comment\n", "\nlookup Lx { sub B by A; } Lx;\n", " ", "\n@late = [A];\n"]


def gen_features(rng, repeat_ok=True):
    """feature text from top-level pieces; returns (text, has_repeated_tag)"""
    r = rng.random()
    if r < 0.06:
        return None, False
    if r < 0.10:
        return rng.choice(["", "\n", "   ", "# only a comment", "@cls = [A];\n"]), False
    parts = []
    if rng.random() < 0.6:
        parts.append(rng.choice(["", "\n", "  "]) + "\n".join(rng.sample(CLASSES, rng.randint(1, 3))))
        parts.append(rng.choice(BETWEEN))
    n = rng.choice([1, 1, 2, 2, 3, 4])
    tags = []
    for i in range(n):
        if tags and repeat_ok and rng.random() < 0.12:
            t = rng.choice(tags)
        else:
            free = [t for t in TAGS if t not in tags]
            t = rng.choice(free)
        tags.append(t)
        indent = rng.choice(["", "", "", "  ", "\t"])
        sp1 = rng.choice([" ", " ", "  ", "\t"])
        sp2 = rng.choice([" ", " ", "", "  ", "\n"])
        parts.append("%sfeature%s%s%s{%s} %s;" % (indent, sp1, t, sp2, rng.choice(BODIES), t))
        if i < n - 1:
            parts.append(rng.choice(BETWEEN))
    parts.append(rng.choice(["\n", "\n", "", "\n\n", "\n# end", " "]))
    return "".join(parts), len(set(tags)) < len(tags)


def gen_hint(rng, info):
    if rng.random() < 0.35:
        return
    blues = [[-10, 0, 500, 510], [0, 10], [], [-12, 0, 480, 492, 700, 712]]
    if rng.random() < 0.8:
        info["postscriptBlueValues"] = rng.choice(blues)
    if rng.random() < 0.4:
        info["postscriptOtherBlues"] = rng.choice([[-250, -240], [-260, -250, -120, -110]])
    if rng.random() < 0.4:
        info["postscriptFamilyBlues"] = rng.choice(blues[:2])
    if rng.random() < 0.3:
        info["postscriptFamilyOtherBlues"] = [-250, -240]
    if rng.random() < 0.5:
        info["postscriptStemSnapH"] = rng.choice([[80, 90], [75]])
    if rng.random() < 0.5:
        info["postscriptStemSnapV"] = rng.choice([[90, 100], [88]])
    if rng.random() < 0.5:
        info["postscriptBlueFuzz"] = rng.choice([0, 1, 2])
    if rng.random() < 0.5:
        info["postscriptBlueShift"] = rng.choice([7, 8])
    if rng.random() < 0.5:
        info["postscriptBlueScale"] = rng.choice([0.0625, 0.25])     # dyadic: exact in binary and in the plist
    if rng.random() < 0.5:
        info["postscriptForceBold"] = rng.choice([True, False])


def gen_groups_kerning(rng, old_scheme):
    """kerning and groups; old_scheme: names of the UFO 1/2 conventions (prefix @MMK_ or none) referenced from kerning"""
    groups, kerning = {}, {}
    if rng.random() < 0.15:
        return groups, kerning
    names = fg.GLYPH_NAMES
    if old_scheme:
        # distinct stems, so that the names the reader invents never collide
        if rng.random() < 0.7:
            groups["@MMK_L_A"] = rng.sample(names, rng.randint(1, 2))
        if rng.random() < 0.7:
            groups["@MMK_R_B"] = rng.sample(names, rng.randint(1, 2))
        if rng.random() < 0.5:
            groups["plainL"] = rng.sample(names, rng.randint(1, 2))
        if rng.random() < 0.4:
            groups["both"] = rng.sample(names, rng.randint(1, 2))
        if rng.random() < 0.3:
            groups["@MMK_L_unref"] = rng.sample(names, 1)
        if rng.random() < 0.3:
            groups["public.kern1.X"] = ["E"]
    else:
        if rng.random() < 0.7:
            groups["public.kern1.O"] = rng.sample(names, rng.randint(1, 2))
        if rng.random() < 0.7:
            groups["public.kern2.H"] = rng.sample(names, rng.randint(1, 2))
        if rng.random() < 0.25:
            # a format-3 font may use the old names too: a save below 3 followed by a reopen renames them
            groups["@MMK_L_Q"] = ["D"]
        if rng.random() < 0.2:
            groups["plainQ"] = ["E"]
    if rng.random() < 0.4:
        groups["other"] = rng.sample(names, rng.randint(0, 3))
    # a glyph may be in one kerning group per side only (ufoLib refuses to write anything else)
    seen1, seen2 = set(), set()
    for n in list(groups):
        side1 = n.startswith(("public.kern1.", "@MMK_L_")) or n in ("plainL", "both", "plainQ")
        side2 = n.startswith(("public.kern2.", "@MMK_R_")) or n == "both"
        keep = []
        for gname in groups[n]:
            if (side1 and gname in seen1) or (side2 and gname in seen2):
                continue
            keep.append(gname)
        for gname in keep:
            if side1:
                seen1.add(gname)
            if side2:
                seen2.add(gname)
        groups[n] = keep
    firsts = names[:4] + [g for g in groups if g.startswith(("public.kern1.", "@MMK_L_")) or g in ("plainL", "both", "plainQ")]
    firsts = [f for f in firsts if f != "@MMK_L_unref"]
    seconds = names[:4] + [g for g in groups if g.startswith(("public.kern2.", "@MMK_R_")) or g == "both"]
    for _ in range(rng.randint(0, 5)):
        kerning["%s|%s" % (rng.choice(firsts), rng.choice(seconds))] = rng.randint(-80, 80)
    return groups, kerning


def name_anchors(spec):
    for l in spec["layers"]:
        for g in l["glyphs"].values():
            for i, a in enumerate(g["anchors"]):
                if a[2] is None:
                    a[2] = "an%d" % i


def gen_spec(rng, s):
    """content of a source UFO of format s (for s < 3: what such a UFO holds on disk)"""
    spec = fg.gen_font(rng, max_layers=3, max_glyphs=5)
    name_anchors(spec)
    # the default layer is not always the first one
    spec["default"] = rng.choice([l["name"] for l in spec["layers"]])
    info = spec["info"]
    for a in rng.sample(sorted(EXTRA_INFO), rng.randint(0, 5)):
        info[a] = copy.deepcopy(rng.choice(EXTRA_INFO[a]))
    gen_hint(rng, info)
    spec["features"], _ = gen_features(rng)
    spec["groups"], spec["kerning"] = gen_groups_kerning(rng, old_scheme=(s < 3))
    if s == 3:
        return spec
    # below format 3: one layer, GLIF 1, no images/data/guidelines, info attributes of that format
    L = [l for l in spec["layers"] if l["name"] == spec["default"]][0]
    spec["layers"] = [{"name": "public.default", "color": None, "lib": {},
                       "glyphs": {k: glif1_gspec(v) for k, v in L["glyphs"].items()}}]
    spec["default"] = "public.default"
    spec["images"], spec["data"], spec["guidelines"] = {}, {}, []
    spec["info"] = {a: v for a, v in info.items() if a in attrs_of(s)}
    if s == 1:
        # RoboFab's UFO 1: features and hint values live in the lib
        lib = spec["lib"]
        hint = {a: info[a] for a in HINT_ATTRS if a in info}
        text = spec["features"]
        spec["features"] = None
        if text and rng.random() < 0.9:
            blocks = re.split(r"(?m)^(?=\s*feature\s+\w{4}\s*\{)", text)
            classes = blocks[0] if not re.match(r"\s*feature\s+\w{4}\s*\{", blocks[0]) else ""
            feats = blocks[1:] if classes or not blocks[0] else blocks
            feats = [b for b in feats if b.strip()]
            if classes.strip():
                lib["org.robofab.opentype.classes"] = classes.strip() + "\n"
            d, order = {}, []
            for b in feats:
                m = re.match(r"\s*feature\s+(\w{4})", b)
                if not m or m.group(1) in d:
                    continue
                d[m.group(1)] = b.strip() + "\n"
                order.append(m.group(1))
            if d:
                lib["org.robofab.opentype.features"] = d
                k = rng.random()
                if k < 0.6:
                    lib["org.robofab.opentype.featureorder"] = order
                elif k < 0.75:
                    lib["org.robofab.opentype.featureorder"] = order[::-1] + ["zzzz"]
        if hint or rng.random() < 0.3:
            hd = {}
            for a, v in hint.items():
                if a in HINT_LISTS[2:]:
                    v = [[v[i], v[i + 1]] for i in range(0, len(v), 2)]
                hd[HINT_KEYS[a]] = v
            lib["org.robofab.postScriptHintData"] = hd
    return spec


EDIT_FEATS = ["feature kern {\n    pos A B -3;\n} kern;\n", "# f\n", "@x = [A];\nfeature liga { sub f_i by A; } liga;\nfeature kern { pos A B 1; } kern;"]


def gen_edit(rng, mem_spec):
    """one edit op on the memory-level content"""
    r = rng.random()
    L = rng.choice(mem_spec["layers"])
    ln = L["name"]
    present = sorted(L["glyphs"])
    if r < 0.15:
        t, _ = gen_features(rng)
        return ["feat", t if t is not None else ""]
    if r < 0.25:
        ks = sorted(mem_spec["kerning"])
        if ks and rng.random() < 0.5:
            return ["kern", rng.choice(ks), rng.choice([None, 11])]
        return ["kern", "%s|%s" % (rng.choice(fg.GLYPH_NAMES[:4]), rng.choice(fg.GLYPH_NAMES[:4])), rng.choice([-20, 35])]
    if r < 0.38:
        gs = sorted(mem_spec["groups"])
        if gs and rng.random() < 0.6:
            n = rng.choice(gs)
            return ["group", n, rng.choice([None, list(mem_spec["groups"][n])[:1]])]
        return ["group", rng.choice(["other", "grp2"]), rng.sample(fg.GLYPH_NAMES, rng.randint(0, 2))]
    if r < 0.48:
        return ["lib", rng.choice(["com.a.k1", "com.a.k2", "org.new"]), rng.choice([9, "s", {"a": [1]}])]
    if r < 0.60:
        a = rng.choice(sorted(EXTRA_INFO) + sorted(fg.INFO_ATTRS))
        pool = EXTRA_INFO.get(a) or fg.INFO_ATTRS[a]
        return ["info", a, copy.deepcopy(rng.choice(pool))]
    if r < 0.70:
        a = rng.choice(HINT_ATTRS)
        if a in HINT_SCALARS:
            v = {"postscriptBlueFuzz": 3, "postscriptBlueScale": 0.125, "postscriptBlueShift": 9, "postscriptForceBold": True}[a]
        elif a in HINT_LISTS[:2]:
            v = rng.choice([[70, 80], [66]])
        else:
            v = rng.choice([[-20, 0], [-8, 0, 400, 408]])
        return ["info", a, v]
    if r < 0.80 and present:
        return ["gfield", ln, rng.choice(present), "width", rng.choice([0, 300, 777])]
    if r < 0.88 and present:
        gn = rng.choice(present)
        g = fg.gen_glyph(rng, gn, mem_spec["images"])
        for i, a in enumerate(g["anchors"]):
            a[2] = a[2] or "an%d" % i
        return ["gset", ln, gn, g]
    if r < 0.94 and present:
        return ["gdel", ln, rng.choice(present)]
    gn = rng.choice(fg.GLYPH_NAMES)
    g = fg.gen_glyph(rng, gn, mem_spec["images"])
    for i, a in enumerate(g["anchors"]):
        a[2] = a[2] or "an%d" % i
    return ["ginsert", ln, gn, g]


LAYER_OPS = ("lnew", "ldel", "lrename", "lorder", "ldefault", "lcolor", "llib")
LAYER_POOL = list(fg.LAYER_NAMES) + ["sketches", "bg2", "L9", "mask"]


def layer_op_ok(spec, op):
    """a layer operation inside the domain: defcon accepts it AND leaves a layer set that still is one (a rename goes
    to a name no other layer has, the default layer is not deleted) that Font.save will not refuse (a layer called
    public.default that is not the default layer trips the sanity check at the top of Font.save)"""
    names = [l["name"] for l in spec["layers"]]
    k = op[0]
    if k == "lnew":
        return op[1] not in names and op[1] != "public.default"
    if k == "ldel":
        return op[1] in names and op[1] != spec["default"]
    if k == "lrename":
        return op[1] in names and op[2] not in names and (op[2] != "public.default" or op[1] == spec["default"])
    if k == "lorder":
        return sorted(op[1]) == sorted(names)
    if k == "ldefault":
        return op[1] in names and ("public.default" not in names or op[1] == "public.default")
    if k in ("lcolor", "llib"):
        return op[1] in names
    raise ValueError(op)


def _new_glyph_op(rng, spec, ln):
    gn = rng.choice(fg.GLYPH_NAMES)
    g = fg.gen_glyph(rng, gn, spec["images"])
    for j, a in enumerate(g["anchors"]):
        a[2] = a[2] or "an%d" % j
    return ["ginsert", ln, gn, g]


def gen_layer_ops(rng, spec, kind=None):
    """one operation on the layer set in memory, with the operations that make it meaningful (glyphs for a new layer,
    the re-creation after a deletion, the rename a new default layer needs); `spec` is the content at that point"""
    names = [l["name"] for l in spec["layers"]]
    others = [n for n in names if n != spec["default"]]
    free = [n for n in LAYER_POOL if n not in names]
    kind = kind or rng.choice(["rename", "rename", "new", "delete", "default", "default", "order", "info", "rename-default"])
    ops = []
    if kind == "rename" and others and free:
        ops.append(["lrename", rng.choice(others), rng.choice(free)])
    elif kind == "rename-default" and free:
        ops.append(["lrename", spec["default"], rng.choice(free)])
    elif kind == "new" and free:
        n = rng.choice(free)
        ops.append(["lnew", n])
        for _ in range(rng.randint(0, 3)):
            ops.append(_new_glyph_op(rng, spec, n))
    elif kind == "delete" and others:
        n = rng.choice(others)
        ops.append(["ldel", n])
        if rng.random() < 0.6:
            # ... and a layer of that name again: nothing of the deleted one may come back with it
            ops.append(["lnew", n])
            for _ in range(rng.randint(0, 2)):
                ops.append(_new_glyph_op(rng, spec, n))
    elif kind == "default":
        if not others and free:
            n = rng.choice(free)
            free = [x for x in free if x != n]
            ops.append(["lnew", n])
            for _ in range(rng.randint(1, 2)):
                ops.append(_new_glyph_op(rng, spec, n))
            others = [n]
        if others:
            if "public.default" in names and free:
                ops.append(["lrename", "public.default", rng.choice(free)])
            if "public.default" not in names or free:
                ops.append(["ldefault", rng.choice(others)])
    elif kind == "order" and len(names) > 1:
        order = list(names)
        while order == names:
            rng.shuffle(order)
        ops.append(["lorder", order])
    elif kind == "info":
        ln = rng.choice(names)
        if rng.random() < 0.5:
            ops.append(["lcolor", ln, rng.choice(fg.COLORS + [None])])
        else:
            ops.append(["llib", ln, rng.choice(["com.l.a", "com.l.b"]), rng.choice([1, "v", None])])
    return ops


POISONS = ["groups-overlap", "kerning-value", "lib-key", "glyph-lib"]
# one fault at the final replace (see MoveFaults); the model's name of each
REPLACE_FAULTS = {"aside-raises": "aside-raises", "movein-raises": "movein-raises", "movein-torn-0": "movein-torn",
                  "movein-torn-half": "movein-torn", "movein-copied": "movein-copied"}
STRUCTURES = ["package", "zip"]
KIND_OF = {"package": "dir", "zip": "file"}


def gen_font_case(rng, tier, i):
    s = [3, 3, 2, 1][i % 4]
    spec = gen_spec(rng, s)
    structure = rng.choice(["package", "package", "zip"])
    mem = mem_spec_from_disk(spec, s)
    pre = {"glyphs": [], "images": [], "data": []}
    mode = rng.random()
    for l in mem["layers"]:
        for gn in l["glyphs"]:
            if mode < 0.25 or (mode < 0.7 and rng.random() < 0.4):
                pre["glyphs"].append([l["name"], gn])
    for n in mem["images"]:
        if mode < 0.25 or (mode < 0.7 and rng.random() < 0.4):
            pre["images"].append(n)
    for n in mem["data"]:
        if mode < 0.25 or (mode < 0.7 and rng.random() < 0.4):
            pre["data"].append(n)
    ops = []
    sh = pc.Shadow(mem)

    def edits(n):
        for _ in range(n):
            op = gen_edit(rng, sh.s)
            if sh.do(copy.deepcopy(op)):
                ops.append(op)

    cur = {"fmt": s, "st": structure}     # format and structure of the UFO the font is bound to

    def save(t=None, mode=None):
        t = t or rng.choice([1, 2, 3])
        mode = mode or rng.choice(["inplace", "inplace", "new", "over"])
        st = cur["st"] if mode == "inplace" else rng.choice([cur["st"], cur["st"], "package", "zip"])
        if mode == "over":
            # the UFO that is overwritten is a package or a zip whatever the new one is
            ops.append(["save", t, mode, st, rng.choice([st, "package", "zip"])])
        else:
            ops.append(["save", t, mode, st])
        cur["fmt"] = t
        if mode != "inplace":
            cur["st"] = st
        return t

    def savefaults(n_over):
        """saves whose final replace fails: n_over over an existing UFO (distinct fault x kind-of-new x kind-of-old
        combinations), and one conversion in place (the font's own UFO is the destination)"""
        combos = [(est, st, f) for est in STRUCTURES for st in STRUCTURES for f in sorted(REPLACE_FAULTS)]
        batch = [["savefault", rng.choice([1, 2, 3]), "over", st, est, f] for est, st, f in rng.sample(combos, n_over)]
        t = rng.choice([x for x in (1, 2, 3) if x != cur["fmt"]])
        batch.insert(rng.randint(0, len(batch)), ["savefault", t, "inplace", cur["st"], cur["st"], rng.choice(sorted(REPLACE_FAULTS))])
        ops.extend(batch)

    def layer_ops(n, kinds=None):
        """n operations on the layer set (each with its companions), applied to the shadow as they are drawn"""
        for j in range(n):
            for op in gen_layer_ops(rng, sh.s, kinds[j % len(kinds)] if kinds else None):
                if op[0] in LAYER_OPS and not layer_op_ok(sh.s, op):
                    continue
                if sh.do(copy.deepcopy(op)):
                    ops.append(op)

    k = (i // 4) % 14
    others = [t for t in (1, 2, 3) if t != s]
    below = [t for t in (1, 2) if t != s] or [1, 2]
    if k == 0:                      # plain conversion, nothing read before
        save(rng.choice(others))
    elif k == 1:                    # edit, then convert
        edits(rng.randint(1, 3))
        save(rng.choice(others))
    elif k == 2:                    # down and back up ("saving back to UFO 3 from such a font"), same object
        t1 = save(rng.choice([1, 2]))
        if rng.random() < 0.5:
            ops.append(["dump"])
        if rng.random() < 0.5:
            edits(1)
        save(3)
    elif k == 3:                    # a failing save first: the destination must survive, then the real save
        edits(rng.randint(0, 2))
        t = rng.choice([1, 2, 3])
        fmode = rng.choice(["inplace", "over", "over"]) if t != s else "over"
        ops.append(["savefail", t, fmode, structure, rng.choice(POISONS)])
        # the save that follows rewrites everything (a conversion or another path): what a failed save does to a
        # later plain in-place save is C18's subject (F19)
        save(t, None if t != s else rng.choice(["new", "over"]))
    elif k == 4:                    # delete a (renamed) kerning group and re-create it under the old name, then save
        gs = sorted(sh.s["groups"])
        if gs:
            n = rng.choice(gs)
            members = list(sh.s["groups"][n])
            for op in (["group", n, None], ["group", n, members if rng.random() < 0.6 else members[:1]]):
                sh.do(copy.deepcopy(op))
                ops.append(op)
        save(rng.choice([1, 2, 2, 3]))
    elif k == 5:                    # edit, pure read of everything, save; edit again, save in place in the new format
        edits(rng.randint(1, 2))
        ops.append(["dump"])
        t = save()
        edits(rng.randint(1, 2))
        save(t, "inplace")
    elif k == 6:                    # same format (no conversion) to another path / in place, after edits
        edits(rng.randint(1, 3))
        save(s)
    elif k == 7:                    # convert, then delete / add / change glyphs of the default layer, save in place in the
        t = save(rng.choice(others))    # new format: the font must by then work against the UFO it wrote
        D = sh.layer(sh.s["default"])
        present = sorted(D["glyphs"])
        script = []
        if present:
            script.append(["gdel", D["name"], rng.choice(present)])
        if len(present) > 1 and rng.random() < 0.6:
            script.append(["gfield", D["name"], [g for g in present if g != script[0][2]][0], "width", 555])
        if rng.random() < 0.6:
            gn = rng.choice(fg.GLYPH_NAMES)
            g = fg.gen_glyph(rng, gn, sh.s["images"])
            for j, a in enumerate(g["anchors"]):
                a[2] = a[2] or "an%d" % j
            script.append(["ginsert", D["name"], gn, g])
        for op in script:
            if sh.do(copy.deepcopy(op)):
                ops.append(op)
        save(t, "inplace")
    elif k == 8:                    # the final replace fails (put-aside / move-in; before, in the middle of, after the
        edits(rng.randint(0, 2))    # arrival of the new UFO) - sometimes after a conversion -, then the real save
        if rng.random() < 0.3:
            save(rng.choice(others), rng.choice(["inplace", "new"]))
        savefaults(2 if tier == "quick" else 3)
        # (as above: the save that follows rewrites everything)
        t = rng.choice([1, 2, 3])
        save(t, None if t != cur["fmt"] else rng.choice(["new", "over"]))
    elif k == 10:                   # the layer set is changed in memory on a partly read font, then the font is saved to a
        layer_ops(rng.randint(1, 3))    # format that stores one layer; then everything is read; then back to format 3
        if rng.random() < 0.3:
            edits(1)
        save(rng.choice(below + below + [3]))
        if rng.random() < 0.6:
            ops.append(["dump"])
        if rng.random() < 0.6:
            save(3, rng.choice(["new", "new", "inplace", "over"]))
    elif k == 11:                   # ... saved below format 3, the layer set changed AGAIN (another default layer among the
        layer_ops(rng.randint(0, 2))    # changes), saved in place in that format, and back to format 3
        if s < 3 and rng.random() < 0.5:
            # a UFO 1/2 as it was opened (partly read), its layer renamed / joined by others, saved in place as it is
            layer_ops(1, [rng.choice(["rename-default", "new", "default"])])
            t = save(s, "inplace")
        else:
            t = save(rng.choice(below))
        layer_ops(rng.randint(1, 3), rng.choice([["default"], ["default", "rename"], ["new", "default"], ["delete", "default"],
                                                   ["rename-default", "order"], None]))
        if rng.random() < 0.3:
            edits(1)
        save(t, "inplace")
        if rng.random() < 0.5:
            ops.append(["dump"])
        if rng.random() < 0.6:
            save(3, rng.choice(["new", "inplace"]))
    elif k == 12:                   # every layer but the default one gets another name and the order is reversed - nothing of
        for l in list(sh.s["layers"]):  # them need have been read -, a new layer with glyphs joins, then down
            if l["name"] != sh.s["default"]:
                layer_ops(1, ["rename"])
        layer_ops(rng.randint(0, 2), ["order", "new"])
        if rng.random() < 0.4:
            layer_ops(1, ["rename-default"])
        if s < 3 and rng.random() < 0.4:
            save(s, "inplace")
            edits(1)
        save(rng.choice(below), rng.choice(["inplace", "new", "over"]))
        if rng.random() < 0.5:
            save(3, "new")
    elif k == 13:                   # layer operations, edits, reads and saves of every kind mixed
        for _ in range(rng.randint(3, 6 if tier == "quick" else 10)):
            r = rng.random()
            if r < 0.4:
                layer_ops(1)
            elif r < 0.6:
                edits(1)
            elif r < 0.68:
                ops.append(["dump"])
            else:
                save()
        if not any(o[0] == "save" for o in ops):
            save()
    else:                           # op soup
        for _ in range(rng.randint(2, 5 if tier == "quick" else 9)):
            r = rng.random()
            if r < 0.55:
                edits(1)
            elif r < 0.65:
                ops.append(["dump"])
            else:
                save()
        if not any(o[0] == "save" for o in ops):
            save()
    # an observer that READS the font's top-level data from inside the notifications a save posts (clearing a dirty
    # flag posts *.Changed), and/or a hold bracket around every save
    return dict(kind="font", spec=spec, s=s, structure=structure, preread=pre, ops=ops,
                observer=rng.random() < 0.3, hold=rng.random() < 0.15)


def gen_text(rng):
    t, _ = gen_features(rng)
    t = t or ""
    r = rng.random()
    if r < 0.2 and t:
        # cut / splice at a random place: headers end up in odd positions
        i = rng.randrange(len(t))
        t = t[:i] + rng.choice(["\n", " ", "{", "feature ", "feature ab12 {", "\nfeature\tx_y1\n{", "}"]) + t[i:]
    elif r < 0.3:
        t = "".join(rng.choice(["feature", " ", "\n", "kern", "{", "}", "\t", "a1_b", ";", "#", "featur", "  feature liga{"])
                    for _ in range(rng.randint(1, 14)))
    return t


def gen_pure_case(rng, tier):
    ops = []
    for _ in range(rng.randint(3, 8)):
        r = rng.random()
        if r < 0.35:
            ops.append(["split", gen_text(rng)])
        elif r < 0.55:
            ops.append(["findheader", gen_text(rng)])
        elif r < 0.8:
            ops.append(["v1", gen_text(rng)])
        elif r < 0.9:
            ops.append(["pair", [rng.randint(-300, 800) for _ in range(rng.randint(0, 9))]])
        else:
            ops.append(["unpair", [[rng.randint(-9, 9) for _ in range(rng.choice([2, 2, 2, 2, 1, 3, 0]))]
                                   for _ in range(rng.randint(0, 5))]])
    return dict(kind="pure", ops=ops)


def generate(rng, tier):
    n_font, n_pure = (616, 250) if tier == "quick" else (8400, 4000)
    for i in range(n_font):
        yield gen_font_case(rng, tier, i)
    for _ in range(n_pure):
        yield gen_pure_case(rng, tier)


def neighbourhood(case, step, rng):
    """around a diverging step: the same content saved to every format and mode, and the prefix alone"""
    if case.get("kind") != "font":
        for op in case["ops"][step:step + 1]:
            yield dict(case, ops=[op])
        return
    prefix = [o for o in case["ops"][:step + 1]]
    base = [o for o in prefix if o[0] not in ("save", "savefail")]
    yield dict(case, ops=prefix)
    for t in (1, 2, 3):
        for mode in ("inplace", "new", "over"):
            yield dict(case, ops=base + [["save", t, mode, case["structure"]]])
            yield dict(case, ops=prefix + [["save", t, mode, case["structure"]]])
    for pre in ({"glyphs": [], "images": [], "data": []},):
        for t in (1, 2):
            yield dict(case, preread=pre, ops=base + [["save", t, "inplace", case["structure"]], ["dump"]])
    if any(o[0] == "savefault" for o in case["ops"]):
        # the same history with the final replace failing in every way, over every kind of destination
        for est in STRUCTURES:
            for st in STRUCTURES:
                for f in sorted(REPLACE_FAULTS):
                    yield dict(case, ops=base + [["savefault", 1 + (len(base) + len(f)) % 3, "over", st, est, f]])
    yield case


# ---------------------------------------------------------------------------------------
# content <-> abstract values of the model
# ---------------------------------------------------------------------------------------

def blob(v):
    """stable id of a value (0 = nothing)"""
    if v is None or v == {} or v == [] or v == "":
        return 0
    return int(hashlib.md5(json.dumps(v, sort_keys=True).encode()).hexdigest()[:11], 16) + 1


def abs_glyph(g):
    """(what GLIF 1 carries, the rest) of a glyph dump"""
    v1 = {"unicodes": g["unicodes"], "width": g["width"], "height": g["height"], "note": g["note"], "lib": g["lib"],
          "contours": [[p[:5] for p in c["points"]] for c in g["contours"]],
          "components": [c[:2] for c in g["components"]],
          "anchors": [a[:3] for a in g["anchors"]]}
    ids = [c["id"] for c in g["contours"]] + [p[5] for c in g["contours"] for p in c["points"]] + [c[2] for c in g["components"]]
    v2 = {}
    if any(i is not None for i in ids):
        v2["ids"] = ids
    if any(a[3] is not None or a[4] is not None for a in g["anchors"]):
        v2["anchors"] = [a[3:] for a in g["anchors"]]
    if g["guidelines"]:
        v2["guidelines"] = g["guidelines"]
    if g["image"] is not None:
        v2["image"] = g["image"]
    return blob(v1), blob(v2)


def abs_layers(layers):
    res = []
    for l in layers:
        li = {}
        if l["color"] is not None:
            li["color"] = l["color"]
        if l["lib"]:
            li["lib"] = l["lib"]
        res.append([l["name"], [[gn] + list(abs_glyph(g)) for gn, g in l["glyphs"].items()], blob(li)])
    return res


def abs_hint(info):
    res = []
    for a in HINT_SCALARS:
        res.append(None if info.get(a) is None else blob_num(info[a]))
    for a in HINT_LISTS:
        res.append([blob_num(x) for x in (info.get(a) or [])])
    return res


def blob_num(x):
    # 1 and True are different values in a plist; 1 and 1.0 are not for ufoLib's readers
    if isinstance(x, bool):
        return blob({"bool": x}) or 1
    if isinstance(x, float) and x == int(x):
        x = int(x)
    return blob({"n": x})


def abs_kerning(k):
    return [key.split("|") + [v] for key, v in k.items()]


def abs_parts(d):
    """kerning, groups, lib, info, hint, guidelines, features of a dump"""
    info = {a: v for a, v in d["info"].items() if a not in HINT_ATTRS}
    return dict(kerning=abs_kerning(d["kerning"]), groups=[[n, list(c)] for n, c in d["groups"].items()],
                lib=[[k, blob(v)] for k, v in d["lib"].items() if k != "public.glyphOrder"], info=[[a, blob(v)] for a, v in info.items()],
                hint=abs_hint(d["info"]), guidelines=blob(d["guidelines"]), features=d["features"] or "")


def abs_files(d):
    return [[n, blob(h)] for n, h in d.items()]


def enc_set(xs):
    return [Atom("set")] + list(xs)


def enc_hint(h):
    return [opt(x) for x in h[:4]] + [list(x) for x in h[4:]]


def enc_full(d):
    """a dump_font-shaped dict as the driver prints a `Full`"""
    p = abs_parts(d)
    layers = [[n, enc_set(gl), li] for n, gl, li in abs_layers(d["layers"])]
    return [layers, d["default"], enc_set(p["kerning"]), enc_set(p["groups"]), enc_set(p["lib"]), enc_set(p["info"]),
            enc_hint(p["hint"]), p["guidelines"], p["features"], enc_set(abs_files(d["images"])), enc_set(abs_files(d["data"]))]


def raw_disk(path):
    """a UFO read file by file with ufoLib (kerning/groups/lib RAW), as the dict the model calls Disk"""
    from fontTools.ufoLib import UFOReader
    full = fg.read_ufo(path)          # ufoLib's own decoding: info under format-3 names, glyphs, images, data
    fmt = full["formatVersion"]
    with UFOReader(path, validate=False) as r:
        raw_k = r._getPlist("kerning.plist", {})
        raw_g = r._getPlist("groups.plist", {})
        raw_lib = r._getPlist("lib.plist", {})
    kerning = {}
    for a in raw_k:
        for b in raw_k[a]:
            kerning["%s|%s" % (a, b)] = fg._num(raw_k[a][b])
    lib = fg._norm_lib(raw_lib)
    d = dict(fmt=fmt, layers=full["layers"], default=full["default"], kerning=kerning,
             groups={k: list(v) for k, v in raw_g.items()}, info=full["info"], guidelines=full["guidelines"],
             features=full["features"] or "", images=full["images"], data=full["data"], v1feat=[None, None, None], hintdata=None)
    if fmt == 1:
        d["v1feat"] = [lib.pop(ROBOFAB_KEYS[0], None), lib.pop(ROBOFAB_KEYS[1], None), lib.pop(ROBOFAB_KEYS[2], None)]
        d["hintdata"] = lib.pop(ROBOFAB_KEYS[3], None)
    d["lib"] = lib
    return d


def abs_hintdata(hd):
    if hd is None:
        return None
    res = []
    for a in HINT_SCALARS:
        v = hd.get(HINT_KEYS[a])
        res.append(None if v is None else blob_num(v))
    for a in HINT_LISTS[:2]:
        v = hd.get(HINT_KEYS[a])
        res.append(None if v is None else [blob_num(x) for x in v])
    for a in HINT_LISTS[2:]:
        v = hd.get(HINT_KEYS[a])
        res.append(None if v is None else [[blob_num(x) for x in pair] for pair in v])
    return res


def enc_disk(d, out):
    """Disk dict -> S-expression; out=True: as the driver prints it (dicts as sets), else as it parses it"""
    st = enc_set if out else list
    p = abs_parts(dict(info=d["info"], kerning=d["kerning"], groups=d["groups"], lib=d["lib"], guidelines=d["guidelines"],
                       features=d["features"]))
    layers = [[n, st(gl), li] for n, gl, li in abs_layers(d["layers"])]
    c, f, o = d["v1feat"]
    v1 = [opt(c), opt(None if f is None else st([[t, x] for t, x in f.items()])), opt(None if o is None else list(o))]
    hd = abs_hintdata(d["hintdata"])
    hd = opt(None if hd is None else [opt(x) for x in hd])
    return [Atom(str(d["fmt"])), layers, d["default"], st(p["kerning"]), st(p["groups"]), st(p["lib"]), st(p["info"]),
            enc_hint(p["hint"]), p["guidelines"], p["features"], v1, hd, st(abs_files(d["images"])), st(abs_files(d["data"]))]


def enc_maps(maps, out=False):
    st = enc_set if out else list
    maps = maps or {"side1": {}, "side2": {}}
    return [st([[a, b] for a, b in maps["side1"].items()]), st([[a, b] for a, b in maps["side2"].items()])]


# ---------------------------------------------------------------------------------------
# the shadow: content in memory for a source UFO, what a save must leave, what a reopen must show
# ---------------------------------------------------------------------------------------

def mem_spec_from_disk(spec, s):
    """spec-shaped content defcon holds after opening a UFO of format s written from `spec`"""
    if s == 3:
        return copy.deepcopy(spec)
    m = copy.deepcopy(spec)
    names = list(m["layers"][0]["glyphs"])
    m["kerning"], m["groups"], _ = reader_maps(spec["kerning"], spec["groups"], names)
    if s == 1:
        lib = m["lib"]
        m["features"] = spec_join_v1(lib) or None
        m["info"].update(spec_hint_from_v1(lib))
        for k in ROBOFAB_KEYS:
            lib.pop(k, None)
    return m


def maps_of_source(spec, s):
    if s == 3:
        return None
    return reader_maps(spec["kerning"], spec["groups"], list(spec["layers"][0]["glyphs"]))[2]


def expected_reopen(mem, t, maps):
    """(content a reopen of the saved UFO must show, rename maps the reader builds); features for t = 1 are given as
    normalised blocks (compare with ws_norm_blocks)"""
    e = copy.deepcopy(mem)
    if t == 3:
        return e, None
    L = [l for l in e["layers"] if l["name"] == e["default"]][0]
    e["layers"] = [{"name": "public.default", "color": None, "lib": {},
                    "glyphs": {k: glif1_gspec(v) for k, v in L["glyphs"].items()}}]
    e["default"] = "public.default"
    e["images"], e["data"], e["guidelines"] = {}, {}, []
    keep = attrs_of(t) | (set(HINT_ATTRS) if t == 1 else set())
    e["info"] = {a: v for a, v in e["info"].items() if a in keep}
    rk, rg = spec_down(e["kerning"], e["groups"], maps)
    e["kerning"], e["groups"], maps2 = reader_maps(rk, rg, list(L["glyphs"]))
    return e, maps2


# ---------------------------------------------------------------------------------------
# model side
# ---------------------------------------------------------------------------------------

def _setparts(sh):
    d = exp_dump(sh)
    p = abs_parts(d)
    return [Atom("setparts"), p["kerning"], p["groups"], p["lib"], p["info"], enc_hint(p["hint"]), p["guidelines"], p["features"]]


def _source_disk(case):
    tmpd = tempfile.mkdtemp(prefix="vc16m_")
    try:
        p = os.path.join(tmpd, "src.ufoz" if case["structure"] == "zip" else "src.ufo")
        fg.write_ufo(case["spec"], p, case["structure"], case["s"])
        return raw_disk(p)
    finally:
        shutil.rmtree(tmpd, ignore_errors=True)


PART_OPS = ("feat", "kern", "group", "lib", "info")


def _layer_line(spec_after, op):
    """a layer operation as the driver reads it; spec_after: the content once it is done"""
    k = op[0]
    if k == "lrename":
        return [Atom("layerop"), Atom("rename"), op[1], op[2]]
    if k == "lnew":
        return [Atom("layerop"), Atom("new"), op[1]]
    if k == "ldel":
        return [Atom("layerop"), Atom("delete"), op[1]]
    if k == "ldefault":
        return [Atom("layerop"), Atom("default"), op[1]]
    if k == "lorder":
        return [Atom("layerop"), Atom("order"), list(op[1])]
    # colour / lib: the layer's info as one value
    for n, _, li in abs_layers(fg.expected_dump(spec_after)["layers"]):
        if n == op[1]:
            return [Atom("layerop"), Atom("info"), n, li]
    raise ValueError(op)


def model_lines(case):
    if case.get("kind") == "pure":
        lines = []
        for op in case["ops"]:
            lines.append([Atom(op[0]), op[1]])
        return lines
    s = case["s"]
    disk = _source_disk(case)
    maps = maps_of_source(case["spec"], s)
    lines = [[Atom("open"), enc_disk(disk, False), enc_maps(maps)]]
    pre = case["preread"]
    lines.append([Atom("preread"), [list(x) for x in pre["glyphs"]], list(pre["images"]), list(pre["data"])])
    sh = pc.Shadow(mem_spec_from_disk(case["spec"], s))
    cur_fmt, cur_st = s, case["structure"]
    for op in case["ops"]:
        k = op[0]
        if k in PART_OPS:
            sh.do(copy.deepcopy(op))
            lines.append(_setparts(sh.s))
        elif k in ("gfield", "gset", "ginsert"):
            if not sh.do(copy.deepcopy(op)):
                lines.append([Atom("noop")])        # rejected (only in shrunk histories): nothing changes
                continue
            g = sh.layer(op[1])["glyphs"][op[2]]
            a, b = abs_glyph(fg.expected_dump({"layers": [{"name": "x", "color": None, "lib": {}, "glyphs": {op[2]: g}}], "info": {},
                                               "kerning": {}, "groups": {}, "features": None, "lib": {}, "images": {}, "data": {},
                                               "default": "x"})["layers"][0]["glyphs"][op[2]])
            lines.append([Atom("gset"), op[1], op[2], a, b])
        elif k == "gdel":
            if not sh.do(copy.deepcopy(op)):
                lines.append([Atom("noop")])
                continue
            lines.append([Atom("gdel"), op[1], op[2]])
        elif k in LAYER_OPS:
            if not layer_op_ok(sh.s, op):
                lines.append([Atom("noop")])        # outside the domain (only in shrunk histories): skipped on both sides
                continue
            sh.do(copy.deepcopy(op))
            lines.append(_layer_line(sh.s, op))
        elif k == "dump":
            lines.append([Atom("observe")])
        elif k == "savefail":
            lines.append([Atom("noop")])
        elif k == "savefault":
            t, mode, st, est, fault = op[1:6]
            if mode == "inplace" and t == cur_fmt:
                lines.append([Atom("noop")])        # no temporary UFO, no replace (only in shrunk histories): skipped
                continue
            if mode == "inplace":
                st = est = cur_st
            lines.append([Atom("savefault"), Atom(str(t)), opt(Atom(KIND_OF[est])), Atom(KIND_OF[st]), Atom(REPLACE_FAULTS[fault])])
        elif k == "save":
            t, mode = op[1], op[2]
            cur_fmt = t
            if mode != "inplace":
                cur_st = op[3]
            lines.append([Atom("save"), Atom(str(t)), mode == "inplace"])
            _, maps2 = expected_reopen(sh.s, t, maps)
            lines.append([Atom("reopen"), enc_maps(maps2)])
        else:
            raise ValueError(op)
    return lines


# ---------------------------------------------------------------------------------------
# implementation side
# ---------------------------------------------------------------------------------------

def _lazy(font, t, save_as):
    """what is still not loaded, for the layers whose state this save determines"""
    layers = []
    for ln in font.layers.layerOrder:
        layer = font.layers[ln]
        is_default = layer == font.layers.defaultLayer
        if not ((not (is_default and not save_as)) if t < 3 else save_as):
            continue
        layers.append([ln, enc_set(sorted(n for n in layer.keys() if n not in layer._glyphs))])
    return [layers, enc_set(sorted(n for n, e in font.images._data.items() if e["data"] is None)),
            enc_set(sorted(n for n, e in font.data._data.items() if e["data"] is None))]


def _poison(font, kind, keep):
    """make the next save raise from a validation inside ufoLib; returns the undo"""
    if kind == "groups-overlap":
        old = {n: font.groups.get(n) for n in ("public.kern1.zz1", "public.kern1.zz2")}
        font.groups["public.kern1.zz1"] = ["A"]
        font.groups["public.kern1.zz2"] = ["A"]

        def undo():
            for n in old:
                del font.groups[n]
        return undo
    if kind == "kerning-value":
        font.kerning[("A", "zz")] = "not a number"
        return lambda: font.kerning.__delitem__(("A", "zz"))
    if kind == "lib-key":
        font.lib[7] = "x"
        return lambda: font.lib.__delitem__(7)
    if kind == "glyph-lib":
        layer = font.layers.defaultLayer
        names = sorted(layer.keys())
        if not names:
            g = layer.newGlyph("zz")
            keep.append(g)
            g.lib[7] = "x"
            return lambda: layer.__delitem__("zz")
        g = layer[names[-1]]
        keep.append(g)
        g.lib[7] = "x"
        return lambda: g.lib.__delitem__(7)
    raise ValueError(kind)


def safe_digest(path):
    """pc.tree_digest, or a description of why the UFO at path cannot be read (a destination that an earlier failed
    save damaged must not crash the run: that is a finding, reported where it happened)"""
    if not os.path.lexists(path):
        return {"<gone>": True}
    try:
        return pc.tree_digest(path)
    except Exception as e:
        return {"<unreadable>": type(e).__name__}


def raw_snapshot(path):
    """what lies at a path, byte for byte and kind for kind (no UFO reader involved: a truncated zip or a half-filled
    directory must be describable): None, ("link", target), ("file", md5) or ("dir", {relative path: md5 | None})"""
    if os.path.islink(path):
        return ("link", os.readlink(path))
    if os.path.isdir(path):
        found = {}
        for d, dirs, files in os.walk(path):
            for n in files:
                full = os.path.join(d, n)
                with open(full, "rb") as f:
                    found[os.path.relpath(full, path)] = hashlib.md5(f.read()).hexdigest()
            for n in dirs:
                found[os.path.relpath(os.path.join(d, n), path) + "/"] = None
        return ("dir", found)
    if os.path.isfile(path):
        with open(path, "rb") as f:
            return ("file", hashlib.md5(f.read()).hexdigest())
    return None


class MoveFaults(object):
    """One fault at the final replace of a save onto `dest`, injected by standing in for shutil.move while the save runs
    (no hook in defcon).  The calls are told apart by what they move, not by how defcon names its temporaries:
      aside    the move that takes what lies at dest away (to wherever),
      putback  a move onto dest of the very thing `aside` took away,
      movein   any other move onto dest - the new UFO, coming from a temporary directory elsewhere.
    Faults (REPLACE_FAULTS): aside-raises (nothing moved); movein-raises (nothing arrived); movein-torn-0 (the
    directory was created / the file opened, nothing copied), movein-torn-half (the first half of the files, the last
    of them half written / the first half of the bytes), movein-copied (everything arrived, the source could not be
    removed).  Only the move-in is ever torn: it is the one move that leaves its directory, i.e. may be a copy; putting
    aside and putting back are renames inside the destination's directory."""

    def __init__(self, dest, fault):
        self.dest = os.path.abspath(dest)
        self.fault = fault
        self.real = shutil.move
        self.aside_at = None
        self.fired = None
        self.calls = []
        self.new = None           # snapshot of the complete new UFO, taken when it is about to be moved in

    def __enter__(self):
        shutil.move = self
        return self

    def __exit__(self, *exc):
        shutil.move = self.real
        return False

    def __call__(self, src, dst, *a, **kw):
        s, d = os.path.abspath(str(src)), os.path.abspath(str(dst))
        if s == self.dest:
            role = "aside"
        elif d == self.dest and self.aside_at is not None and s == self.aside_at:
            role = "putback"
        elif d == self.dest:
            role = "movein"
        else:
            role = "other"
        self.calls.append(role)
        if role == "movein" and self.new is None:
            self.new = raw_snapshot(s)
        if self.fired is None and role == "aside" and self.fault == "aside-raises":
            self.fired = role
            raise OSError(errno.EACCES, "injected fault: the destination cannot be put aside")
        if self.fired is None and role == "movein" and self.fault.startswith("movein-"):
            self.fired = role
            self._arrive(s, d, self.fault[len("movein-"):])
            raise OSError(errno.ENOSPC, "injected fault: the new UFO cannot be moved in (%s)" % self.fault)
        res = self.real(src, dst, *a, **kw)
        if role == "aside":
            self.aside_at = d
        return res

    @staticmethod
    def _arrive(s, d, how):
        if how == "raises" or os.path.lexists(d):
            return
        if how == "copied":
            if os.path.isdir(s):
                shutil.copytree(s, d)
            else:
                shutil.copy2(s, d)
            return
        half = how == "torn-half"
        if os.path.isdir(s):
            os.mkdir(d)
            if half:
                files = sorted(os.path.relpath(os.path.join(r, n), s) for r, _, ns in os.walk(s) for n in ns)
                files = files[:(len(files) + 1) // 2]
                for j, n in enumerate(files):
                    os.makedirs(os.path.dirname(os.path.join(d, n)), exist_ok=True)
                    with open(os.path.join(s, n), "rb") as f:
                        data = f.read()
                    with open(os.path.join(d, n), "wb") as f:
                        f.write(data if j < len(files) - 1 else data[:len(data) // 2])
        else:
            with open(s, "rb") as f:
                data = f.read()
            with open(d, "wb") as f:
                f.write(data[:len(data) // 2] if half else b"")


class Watcher(object):
    """observer of the font, its info, kerning and lib: every callback reads the top-level data through the getters"""

    def __init__(self, font):
        self.font = font
        self.seen = []
        self.active = False
        font.addObserver(self, "cb", "Font.Changed")
        font.info.addObserver(self, "cb", "Info.Changed")
        font.kerning.addObserver(self, "cb", "Kerning.Changed")
        font.lib.addObserver(self, "cb", "Lib.Changed")
        font.layers.addObserver(self, "cb", "LayerSet.Changed")

    def cb(self, notification):
        if not self.active:
            return
        f = self.font
        try:
            snap = dict(kerning={"%s|%s" % k: fg._num(v) for k, v in f.kerning.items()},
                        groups={k: list(v) for k, v in f.groups.items()}, features=f.features.text or None,
                        lib=fg._norm_lib({k: v for k, v in f.lib.items() if k != "public.glyphOrder"}),
                        glyphs=sorted(f.keys()), layers=list(f.layers.layerOrder))
        except Exception as e:
            snap = dict(error="%s: %s" % (type(e).__name__, str(e)[:100]))
        self.seen.append((notification.name, snap))


class Run(object):
    def __init__(self, case, tmpd):
        from defcon import Font
        self.case, self.tmpd = case, tmpd
        self.n_paths = 0
        self.s = case["s"]
        src = self.new_path(case["structure"])
        fg.write_ufo(case["spec"], src, case["structure"], self.s)
        self.src_disk = raw_disk(src)
        self.twin = Font(src)
        self.twin_dump = fg.dump_font(self.twin)
        self.twin_maps = self.twin.kerningGroupConversionRenameMaps
        self.twin.close()
        impl = pc.Impl.__new__(pc.Impl)
        impl.tmpd, impl.keep, impl.case, impl.n_paths = tmpd, [], case, 0
        impl.font = Font(src)
        self.impl = impl
        self.font = impl.font
        self.maps = self.font.kerningGroupConversionRenameMaps

    def new_path(self, structure):
        self.n_paths += 1
        return os.path.join(self.tmpd, "f%d.%s" % (self.n_paths, "ufoz" if structure == "zip" else "ufo"))

    def preread(self):
        pre = self.case["preread"]
        for ln, gn in pre["glyphs"]:
            self.impl.keep.append(self.font.layers[ln][gn])
        for n in pre["images"]:
            self.font.images[n]
        for n in pre["data"]:
            self.font.data[n]

    def destination(self, mode, structure, t, existing=None):
        """(path argument or None, existed before, digest before); existing: structure of the UFO that lies at the
        destination of an overwriting save (default: the structure that is written)"""
        if mode == "inplace":
            return None, self.font.path, safe_digest(self.font.path)
        p = self.new_path(structure)
        if mode == "over":
            other = fg.gen_font(_random.Random(len(p) + t), 2, 3)
            name_anchors(other)
            ofmt = 1 + (len(p) + t) % 3
            if ofmt < 3:
                for l in other["layers"]:
                    l["glyphs"] = {k: glif1_gspec(v) for k, v in l["glyphs"].items()}
            fg.write_ufo(other, p, existing or structure, ofmt)
            return p, p, pc.tree_digest(p)
        return p, None, None


def run_impl(case):
    if case.get("kind") == "pure":
        return run_pure(case)
    tmpd = tempfile.mkdtemp(prefix="vc16_")
    try:
        return run_font(case, tmpd)
    finally:
        shutil.rmtree(tmpd, ignore_errors=True)


def run_pure(case):
    from defcon import Font
    f = Font()
    outs, viol = [], []
    stats = {"pure_cases": 1}
    for i, op in enumerate(case["ops"]):
        k = op[0]
        stats["op." + k] = stats.get("op." + k, 0) + 1
        if k == "findheader":
            m = Font.featureRE.search(op[1])
            outs.append(opt(None if m is None else [m.start(), m.end(), m.group(1)]))
        elif k == "split":
            try:
                c, fs = f._splitFeaturesForConversion(op[1])
                outs.append([Atom("ok"), c, [[a, b] for a, b in fs]])
                if c + "".join(b for _, b in fs) != op[1]:
                    viol.append(dict(clause="C16/split-loses-text", signature="C16/split-loses-text", step=i, op=op))
            except AssertionError:
                outs.append([Atom("err"), Atom("AssertionError")])
        elif k == "v1":
            f.features.text = op[1]
            lib = {}
            try:
                f._convertToFormatVersion1RoboFabData(lib)
            except AssertionError:
                outs.append([Atom("err"), Atom("AssertionError")])
                continue
            feats = lib.get(ROBOFAB_KEYS[1])
            v1 = [opt(lib.get(ROBOFAB_KEYS[0])), opt(None if feats is None else enc_set([[t, x] for t, x in feats.items()])),
                  opt(lib.get(ROBOFAB_KEYS[2]))]
            back = spec_join_v1(lib)
            outs.append([Atom("ok"), v1, back])
            order = lib.get(ROBOFAB_KEYS[2]) or []
            rep = len(set(order)) < len(order)
            stats["v1.repeated_tag" if rep else "v1.distinct_tags"] = stats.get("v1.repeated_tag" if rep else "v1.distinct_tags", 0) + 1
            if NESTED_HEADER.search(op[1]):
                stats["v1.nested_header_not_judged"] = stats.get("v1.nested_header_not_judged", 0) + 1
            elif ws_norm_blocks(back) != ws_norm_blocks(op[1]):
                viol.append(dict(clause="C16/features-via-lib", step=i, op=op,
                                 signature="C16/features-via-lib/%s" % ("repeated-tag" if rep else "distinct-tags"),
                                 expected=ws_norm_blocks(op[1])[:12], observed=ws_norm_blocks(back)[:12]))
        elif k == "pair":
            f.info.postscriptBlueValues = []
            f.info._postscriptBlueValues = list(op[1])      # the setter would refuse an odd count: the loop is what is compared
            lib = {}
            f.features.text = ""
            f._convertToFormatVersion1RoboFabData(lib)
            outs.append([list(p) for p in lib[ROBOFAB_KEYS[3]]["blueValues"]])
        elif k == "unpair":
            g = Font()
            g.lib[ROBOFAB_KEYS[3]] = {"blueValues": [list(p) for p in op[1]]}
            try:
                g._convertFromFormatVersion1RoboFabData()
                outs.append([Atom("ok"), list(g.info.postscriptBlueValues or [])])
            except ValueError as e:
                if "Invalid value" in str(e):
                    # unpacked fine; the Info setter then refused the value: the loop itself is what is compared
                    outs.append([Atom("ok"), [x for p in op[1] for x in p]])
                else:
                    outs.append([Atom("err"), Atom("ValueError")])
        else:
            raise ValueError(op)
    return dict(out=outs, viol=viol, info=dict(nontrivial=any(o[0] in ("split", "v1", "findheader") for o in case["ops"]), stats=stats))


def run_font(case, tmpd):
    from defcon import Font
    run = Run(case, tmpd)
    font = run.font
    s = case["s"]
    outs, viol = [], []
    stats = {"font_cases": 1, "source.%d" % s: 1, "structure." + case["structure"]: 1}
    sh = pc.Shadow(mem_spec_from_disk(case["spec"], s))
    exp_maps = maps_of_source(case["spec"], s)

    def V(clause, sig, **kw):
        viol.append(dict(clause="C16/" + clause, signature="C16/%s/%s" % (clause, sig), **kw))

    # open: the model's `read` against what defcon shows for the source UFO
    outs.append([Atom("ok"), [Atom("some"), enc_full(run.twin_dump)]])
    r = fg.diff_dumps(exp_dump(sh.s), pc.strip_order(run.twin_dump))
    if r:
        V("open-differs", "%d/%s" % (s, r.split(":")[0].strip("/").split("/")[0].split("[")[0]), step=-1, diff=r)
    if (run.maps or None) != (exp_maps or None) and s < 3:
        V("open-differs", "%d/maps" % s, step=-1, expected=exp_maps, observed=run.maps)
    run.preread()
    outs.append(Atom("ok"))
    conversions = 0
    layer_ops_since_save = []
    watcher = Watcher(font) if case.get("observer") else None
    if watcher:
        stats["observer_cases"] = 1
    if case.get("hold"):
        stats["hold_cases"] = 1

    def do_save(*a, **kw):
        if watcher:
            watcher.seen, watcher.active = [], True
        if case.get("hold"):
            font.holdNotifications(note="harness bracket")
        try:
            font.save(*a, **kw)
        finally:
            if case.get("hold"):
                font.releaseHeldNotifications()
            if watcher:
                watcher.active = False

    def check_watcher(i, op):
        if not watcher or viol:
            return
        e = exp_dump(sh.s)
        D = sh.layer(sh.s["default"])
        want = dict(kerning=e["kerning"], groups=e["groups"], features=e["features"], lib=e["lib"], glyphs=sorted(D["glyphs"]),
                    layers=[l["name"] for l in sh.s["layers"]])
        stats["observer_callbacks"] = stats.get("observer_callbacks", 0) + len(watcher.seen)
        for name, snap in watcher.seen:
            if snap != want:
                bad = sorted(k for k in set(snap) | set(want) if snap.get(k) != want.get(k))
                V("memory-differs-inside-callback", "%s/%s" % (name, bad[0]), step=i, op=op, observed={k: snap.get(k) for k in bad[:2]},
                  expected={k: want.get(k) for k in bad[:2]})
                return
    for i, op in enumerate(case["ops"]):
        k = op[0]
        stats["op." + k] = stats.get("op." + k, 0) + 1
        if k in PART_OPS or k in ("gfield", "gset", "ginsert", "gdel"):
            ok_expected = sh.do(copy.deepcopy(op))
            try:
                status, extra = run.impl.do(copy.deepcopy(op))
            except Exception as e:
                status, extra = "err:" + type(e).__name__, str(e)[:200]
            outs.append(Atom("ok"))       # whether the edit was accepted is judged by the oracle below, not by the model
            if (status == "ok") != bool(ok_expected) and not viol:
                V("op-outcome", k, step=i, op=op, observed=status, detail=extra)
            continue
        if k in LAYER_OPS:
            if not layer_op_ok(sh.s, op):
                outs.append(Atom("ok"))
                stats["layerop.skipped"] = stats.get("layerop.skipped", 0) + 1
                continue
            sh.do(copy.deepcopy(op))
            lazy_before = sum(1 for ln in font.layers.layerOrder for n in font.layers[ln].keys() if n not in font.layers[ln]._glyphs)
            try:
                status, extra = run.impl.do(copy.deepcopy(op))
            except Exception as e:
                status, extra = "err:" + type(e).__name__, str(e)[:200]
            if status == "ok":
                outs.append([Atom("ok"), list(font.layers.layerOrder), font.layers.defaultLayer.name])
            else:
                outs.append([Atom("err"), Atom("layerop")])
                if not viol:
                    V("op-outcome", k, step=i, op=op, observed=status, detail=extra)
            stats["layerop." + ("partly-read" if lazy_before else "all-read")] = stats.get("layerop." + ("partly-read" if lazy_before else "all-read"), 0) + 1
            layer_ops_since_save.append(k)
            continue
        if k == "dump":
            try:
                got = fg.dump_font(font)
                outs.append([Atom("ok"), enc_full(got)])
                r = fg.diff_dumps(exp_dump(sh.s), pc.strip_order(got))
                if r and not viol:
                    V("memory-differs", _where(r), step=i, op=op, diff=r)
            except Exception as e:
                outs.append([Atom("err"), Atom("observe")])
                if not viol:
                    V("memory-unreadable", type(e).__name__, step=i, op=op, error=str(e)[:200])
            continue
        if k == "savefail":
            t, mode, structure, kind = op[1], op[2], op[3], op[4]
            outs.append(Atom("ok"))
            arg, existed, before = run.destination(mode, structure, t)
            path0, fmt0 = font.path, font.ufoFormatVersionTuple
            undo = _poison(font, kind, run.impl.keep)
            raised = None
            try:
                if arg is None:
                    do_save(formatVersion=t)
                else:
                    do_save(arg, formatVersion=t, structure=structure)
            except Exception as e:
                raised = type(e).__name__
            undo()
            stats["savefail." + ("raised" if raised else "completed")] = stats.get("savefail." + ("raised" if raised else "completed"), 0) + 1
            conv = (t != s_now(fmt0)) or mode != "inplace"
            if raised is None:
                outs[-1] = [Atom("harness-error"), "poisoned save completed: " + kind]
                continue
            if viol:
                continue
            if conv and existed is not None:
                after = safe_digest(existed)
                if after != before:
                    ch = sorted(x for x in set(before) | set(after) if before.get(x) != after.get(x))
                    V("destination-damaged", "%s/%s" % (mode, kind), step=i, op=op, changed=ch[:8], raised=raised)
            if font.path != path0 or font.ufoFormatVersionTuple != fmt0:
                V("identity-changed-by-failed-save", mode, step=i, op=op)
            continue
        if k == "savefault":
            t, mode, structure, existing, fault = op[1:6]
            fmt0 = s_now(font.ufoFormatVersionTuple)
            outs.append(Atom("ok"))
            if mode == "inplace" and t == fmt0:
                stats["savefault.skipped"] = stats.get("savefault.skipped", 0) + 1
                continue
            arg, existed, _ = run.destination(mode, structure, t, existing)
            before = raw_snapshot(existed)
            path0, fmtv0 = font.path, font.ufoFormatVersionTuple
            raised = None
            with MoveFaults(existed, fault) as mf:
                try:
                    if arg is None:
                        do_save(formatVersion=t)
                    else:
                        do_save(arg, formatVersion=t, structure=structure)
                except Exception as e:
                    raised = type(e).__name__
            after = raw_snapshot(existed)
            what = "old" if after == before else ("new" if mf.new is not None and after == mf.new else "other")
            outs[-1] = [Atom("raised" if raised else "done"),
                        Atom("nothing") if after is None else [Atom({"link": "other"}.get(after[0], after[0])), Atom(what)]]
            new_kind = KIND_OF[structure] if arg is not None else before[0]
            combo = "%s-over-%s" % (new_kind, before[0])
            for key in ("savefault." + fault, "savefault." + mode, "savefault." + combo,
                        "savefault." + ("raised" if raised else "completed")):
                stats[key] = stats.get(key, 0) + 1
            if mf.fired is None:
                outs[-1] = [Atom("harness-error"), "the fault %s found no call to fire at: %r" % (fault, mf.calls)]
                continue
            if viol:
                continue
            # the property: "never damages a UFO at the destination unless the save completes".  This save did not
            # complete; a save that nevertheless returns must have left the complete new UFO there.
            if after != before and not (raised is None and what == "new"):
                if after is None:
                    found = "nothing"
                elif after[0] != before[0]:
                    found = "a %s where the %s was" % (after[0], before[0])
                else:
                    found = "other content: " + (", ".join(sorted(x for x in set(before[1]) | set(after[1])
                                                                  if before[1].get(x) != after[1].get(x))[:6])
                                                 if after[0] == "dir" else "another file")
                V("destination-damaged", "%s/%s/%s" % (mode, fault, combo), step=i, op=op, raised=raised, found=found,
                  calls=mf.calls)
            if raised is not None and (font.path != path0 or font.ufoFormatVersionTuple != fmtv0):
                V("identity-changed-by-failed-save", mode, step=i, op=op)
            continue
        if k != "save":
            raise ValueError(op)
        t, mode, structure = op[1], op[2], op[3]
        fmt_before = s_now(font.ufoFormatVersionTuple)
        arg, existed, before = run.destination(mode, structure, t, op[4] if len(op) > 4 else None)
        if mode == "over":
            key = "save.%s-over-%s" % (KIND_OF[structure], KIND_OF[op[4] if len(op) > 4 else structure])
            stats[key] = stats.get(key, 0) + 1
        stats["save.%d>%d.%s" % (fmt_before, t, mode)] = stats.get("save.%d>%d.%s" % (fmt_before, t, mode), 0) + 1
        stats["save.structure." + structure] = stats.get("save.structure." + structure, 0) + 1
        try:
            if arg is None:
                do_save(formatVersion=t)
            else:
                do_save(arg, formatVersion=t, structure=structure)
        except Exception as e:
            outs.append([Atom("err"), Atom("save")])
            outs.append([Atom("err"), Atom("reopen")])
            if not viol:
                V("save-raised", "%d>%d/%s/%s" % (fmt_before, t, mode, type(e).__name__), step=i, op=op, error=str(e)[:300])
            continue
        if fmt_before != t or mode != "inplace":
            conversions += 1
        if layer_ops_since_save:
            key = "save.after-layer-ops.%s" % ("down" if t < 3 and fmt_before > t else "below3-same" if t < 3 and fmt_before == t else "1>2" if t < 3 else "to3" if fmt_before < 3 else "3>3")
            stats[key] = stats.get(key, 0) + 1
            for lk in set(layer_ops_since_save):
                stats["save.after.%s.%s" % (lk, "below3" if t < 3 else "3")] = stats.get("save.after.%s.%s" % (lk, "below3" if t < 3 else "3"), 0) + 1
            del layer_ops_since_save[:]
        check_watcher(i, op)
        # --- the UFO that was written, read back raw
        try:
            disk = raw_disk(font.path)
            outs.append([Atom("ok"), [Atom("some"), enc_disk(disk, True)], _lazy(font, t, fmt_before != t or mode != "inplace")])
        except Exception as e:
            outs.append([Atom("err"), Atom("unreadable")])
            outs.append([Atom("err"), Atom("reopen")])
            if not viol:
                V("saved-ufo-unreadable", "%d>%d/%s" % (fmt_before, t, type(e).__name__), step=i, op=op, error=str(e)[:300])
            continue
        # --- reopen with defcon
        try:
            f2 = Font(font.path)
            got = fg.dump_font(f2)
            maps2 = f2.kerningGroupConversionRenameMaps
            f2.close()
        except Exception as e:
            outs.append([Atom("err"), Atom("reopen")])
            if not viol:
                V("reopen-raises", "%d>%d/%s" % (fmt_before, t, type(e).__name__), step=i, op=op, error=str(e)[:300])
            continue
        outs.append([Atom("ok"), [Atom("some"), enc_full(got)], opt(None if t == 3 else enc_maps(maps2, True))])
        if viol:
            continue
        check_reopen(V, sh.s, got, maps2, disk, t, fmt_before, run.maps, i, op, stats)
    if not viol:
        # the in-memory font after everything: unchanged by the saves (reads every lazily loaded item now)
        try:
            got = fg.dump_font(font)
            r = fg.diff_dumps(exp_dump(sh.s), pc.strip_order(got))
            if r:
                V("memory-differs", _where(r), step=len(case["ops"]), diff=r)
        except Exception as e:
            V("memory-unreadable", type(e).__name__, step=len(case["ops"]), error=str(e)[:300])
    try:
        font.close()
    except Exception:
        pass
    stats["conversions"] = conversions
    return dict(out=outs, viol=viol, info=dict(nontrivial=conversions > 0, stats=stats))


def s_now(fv):
    return 3 if fv is None else int(fv[0])


def _where(r):
    w = r.split(":")[0].strip("/").split("/")
    top = w[0].split("[")[0] if w else "?"
    if top == "layers" and len(w) >= 2:
        return "layers/" + w[1].split("[")[0]
    return top


# ---------------------------------------------------------------------------------------
# direct oracle for one completed save
# ---------------------------------------------------------------------------------------

def check_reopen(V, mem, got, maps2, disk, t, fmt_before, maps, step, op, stats):
    """mem: spec-shaped content the font holds; got: dump of the reopened font; disk: raw read of the saved UFO"""
    exp_mem = exp_dump(mem)
    got = pc.strip_order(got)
    tag = "%d>%d" % (fmt_before, t)
    if t == 3:
        # format 3 expresses everything: kerning and groups as in memory and consistent with each other
        for part in ("kerning", "groups"):
            r = fg.diff_dumps(exp_mem[part], got[part])
            if r:
                return V("reopen-differs", "%s/%s" % (tag, part), step=step, op=op, diff=r)
        bad = inconsistent(got["kerning"], got["groups"], exp_mem["kerning"], exp_mem["groups"])
        if bad:
            return V("kerning-groups-inconsistent", tag, step=step, op=op, detail=bad)
        r = fg.diff_dumps(exp_mem, got)
        if r:
            return V("reopen-differs", "%s/%s" % (tag, _where(r)), step=step, op=op, diff=r)
        return
    exp, exp_maps2 = expected_reopen(mem, t, maps)
    e = exp_dump(exp)
    # default layer's glyphs: names, unicodes, widths, outlines, components, glyph libs
    eg = e["layers"][0]["glyphs"]
    gg = got["layers"][0]["glyphs"] if got["layers"] else {}
    if sorted(eg) != sorted(gg):
        return V("reopen-differs", "%s/glyph-names" % tag, step=step, op=op, expected=sorted(eg), observed=sorted(gg))
    for gn in sorted(eg):
        for field in ("unicodes", "width", "contours", "components", "lib"):
            r = fg.diff_dumps(eg[gn][field], gg[gn][field])
            if r:
                return V("reopen-differs", "%s/glyph.%s" % (tag, field), step=step, op=op, glyph=gn, diff=r)
    # kerning and groups: what is on disk is the memory's data under the old names, and the reopened font shows
    # that data under the names its own rename maps define
    rk, rg = spec_down(exp_mem["kerning"], exp_mem["groups"], maps)
    if disk["kerning"] != rk:
        return V("disk-differs", "%s/kerning" % tag, step=step, op=op, expected=rk, observed=disk["kerning"])
    if disk["groups"] != rg:
        return V("disk-differs", "%s/groups" % tag, step=step, op=op, expected=rg, observed=disk["groups"])
    bk, bg = spec_down(got["kerning"], got["groups"], maps2)
    if bk != rk or bg != rg:
        return V("reopen-differs", "%s/kerning-groups-modulo-maps" % tag, step=step, op=op, expected=[rk, rg], observed=[bk, bg])
    bad = inconsistent(got["kerning"], got["groups"], rk, rg, maps2)
    if bad:
        return V("kerning-groups-inconsistent", tag, step=step, op=op, detail=bad)
    for part in ("kerning", "groups", "lib"):
        r = fg.diff_dumps(e[part], got[part])
        if r:
            return V("reopen-differs", "%s/%s" % (tag, part), step=step, op=op, diff=r)
    # info attributes the format defines; hint values (directly in 2, through the lib in 1)
    r = fg.diff_dumps(e["info"], got["info"])
    if r:
        a = r.split(":")[0].strip("/")
        kind = "hint" if a in HINT_ATTRS else "info"
        return V("reopen-differs", "%s/%s" % (tag, kind), step=step, op=op, diff=r)
    # feature text: directly in 2; through the lib in 1, up to whitespace between blocks
    if t == 2:
        if (e["features"] or None) != (got["features"] or None):
            return V("reopen-differs", "%s/features" % tag, step=step, op=op, expected=e["features"], observed=got["features"])
    else:
        a, b = ws_norm_blocks(e["features"]), ws_norm_blocks(got["features"])
        if a != b and not NESTED_HEADER.search(e["features"] or ""):
            tags = re.findall(r"(?m)^\s*feature\s+(\w{4})\s*\{", e["features"] or "")
            rep = len(set(tags)) < len(tags)
            stats["f28_hits"] = stats.get("f28_hits", 0) + (1 if rep else 0)
            return V("features-via-lib", "repeated-tag" if rep else "distinct-tags", step=step, op=op, expected=a[:14], observed=b[:14])
        if disk["features"]:
            return V("disk-differs", "%s/features.fea-in-ufo1" % tag, step=step, op=op)


def inconsistent(kerning, groups, ref_k, ref_g, maps2=None):
    """kerning and groups of a (re)opened font agree with each other: every kerning member that named a group in the
    reference data names a group with the same glyphs now"""
    ren1 = (maps2 or {}).get("side1", {})
    ren2 = (maps2 or {}).get("side2", {})
    for key, v in ref_k.items():
        a, b = key.split("|")
        a2, b2 = ren1.get(a, a), ren2.get(b, b)
        if kerning.get("%s|%s" % (a2, b2)) != v:
            return "pair %s lost or changed (now under %s|%s)" % (key, a2, b2)
        for old, new in ((a, a2), (b, b2)):
            if old in ref_g and list(groups.get(new, [None])) != list(ref_g[old]):
                return "group %s (%s) has other glyphs than the kerning was written for" % (new, old)
    return None


# ---------------------------------------------------------------------------------------
# regenerated table: the info attributes each format defines (from the installed fontTools)
# ---------------------------------------------------------------------------------------

def _lean_list(xs):
    out, line = [], "  "
    for i, x in enumerate(xs):
        item = '"%s"' % x + ("," if i < len(xs) - 1 else "")
        if len(line) + len(item) > 110:
            out.append(line.rstrip())
            line = "  "
        line += item + " "
    out.append(line.rstrip())
    return "[\n" + "\n".join(out) + "]"


def extract(repo, lean_dir):
    v1, v2, v3 = info_tables()
    if not (set(v1) <= set(v2) <= set(v3)) or len(v1) < 10:
        raise ValueError("unexpected shape of ufoLib's fontinfo attribute tables")
    text = ("/-\nGENERATED by harness/props/c16.py (extract) from the tables of the installed fontTools.ufoLib\n"
            "(fontInfoAttributesVersion1/2/3 and fontInfoAttributesVersion2To1).  Do not edit: regenerated on every\n"
            "run of ./check C16.  Attribute names are the format-3 names defcon's Info object uses.\n-/\n"
            "namespace DefconModel.Gen.InfoAttrs\n\n"
            "/-- attributes fontinfo.plist of UFO 2 defines -/\n"
            "def v2Attrs : List String := %s\n\n"
            "/-- attributes that have a counterpart in fontinfo.plist of UFO 1 (possibly under an older name) -/\n"
            "def v1Attrs : List String := %s\n\n"
            "end DefconModel.Gen.InfoAttrs\n" % (_lean_list(v2), _lean_list(v1)))
    path = os.path.join(lean_dir, GEN_FILE)
    old = open(path).read() if os.path.exists(path) else None
    changed = []
    if old != text:
        with open(path, "w") as f:
            f.write(text)
        changed.append(GEN_FILE)
    return changed, dict(tables=dict(v1Attrs=len(v1), v2Attrs=len(v2)), obligations=0)


# ---------------------------------------------------------------------------------------
# known finding F28: its witness, replayed on every run
# ---------------------------------------------------------------------------------------

F28_TEXT = "feature kern {\n    pos A B -10;\n} kern;\nfeature kern {\n    pos B A -20;\n} kern;\n"


def replay_known(entry):
    if entry.get("id") != "F28":
        return False
    r = run_pure(dict(kind="pure", ops=[["v1", F28_TEXT]]))
    return any(v["signature"] == entry["signature"] for v in r["viol"])
