"""C08 - implementation adaptor: drives the REAL defcon objects and observes every notification.

One `World` = one font (built in memory, loaded from a generated UFO, or just saved) with ONE universal
observer registered for `(None, None)` on the font's dispatcher.  INSIDE the callback the observer evaluates
the public getter the notification talks about and records `(name, sender, subject, old, new, getter-now)`.

Nothing here knows the Lean model; `props/c08.py` builds the model lines and the oracle on top of it.
"""
import copy
import os
import warnings

import fontgen as fg

# ---------------------------------------------------------------------------------------------------
# what each notification talks about
# ---------------------------------------------------------------------------------------------------

def _dict_get(o, k):
    return o[k] if k in o else None


def _norm_order(v):
    # Font.glyphOrder: the payload carries the stored lib value (None when absent), the getter
    # normalises "absent" to []
    return [] if v is None else list(v)


# attribute notifications carrying old/new values: WHICH getter they talk about is data of the Lean model
# (lean/DefconModel/NotifGetters.lean, tied to the sources by `getter_keys_follow_source` and to the catalogue by
# `catalogue_reads_table_getters`).  GETTERS is the harness's copy of that table - (notification, old key, new key,
# data key that names the item, public attribute) - and is compared with the model's `(getter-table)` on every run;
# the observers are BUILT from it by `getter_from`:
#   "a.b"    -> object.a.b, None as soon as a link is None
#   "[item]" -> object[data[item]], None when absent        "<item>" -> getattr(object, data[item])
GETTERS = [
    ("Glyph.NameWillChange", "oldValue", "newValue", None, "name"),
    ("Glyph.NameChanged", "oldValue", "newValue", None, "name"),
    ("Glyph.UnicodesChanged", "oldValue", "newValue", None, "unicodes"),
    ("Glyph.WidthChanged", "oldValue", "newValue", None, "width"),
    ("Glyph.HeightChanged", "oldValue", "newValue", None, "height"),
    ("Glyph.NoteChanged", "oldValue", "newValue", None, "note"),
    ("Glyph.MarkColorChanged", "oldValue", "newValue", None, "markColor"),
    ("Glyph.VerticalOriginChanged", "oldValue", "newValue", None, "verticalOrigin"),
    ("Glyph.LeftMarginWillChange", "oldValue", "newValue", None, "leftMargin"),
    ("Glyph.LeftMarginDidChange", "oldValue", "newValue", None, "leftMargin"),
    ("Glyph.RightMarginWillChange", "oldValue", "newValue", None, "rightMargin"),
    ("Glyph.RightMarginDidChange", "oldValue", "newValue", None, "rightMargin"),
    ("Glyph.TopMarginWillChange", "oldValue", "newValue", None, "topMargin"),
    ("Glyph.TopMarginDidChange", "oldValue", "newValue", None, "topMargin"),
    ("Glyph.BottomMarginWillChange", "oldValue", "newValue", None, "bottomMargin"),
    ("Glyph.BottomMarginDidChange", "oldValue", "newValue", None, "bottomMargin"),
    ("Anchor.XChanged", "oldValue", "newValue", None, "x"),
    ("Anchor.YChanged", "oldValue", "newValue", None, "y"),
    ("Anchor.NameChanged", "oldValue", "newValue", None, "name"),
    ("Anchor.ColorChanged", "oldValue", "newValue", None, "color"),
    ("Anchor.IdentifierChanged", "oldValue", "newValue", None, "identifier"),
    ("Guideline.XChanged", "oldValue", "newValue", None, "x"),
    ("Guideline.YChanged", "oldValue", "newValue", None, "y"),
    ("Guideline.AngleChanged", "oldValue", "newValue", None, "angle"),
    ("Guideline.NameChanged", "oldValue", "newValue", None, "name"),
    ("Guideline.ColorChanged", "oldValue", "newValue", None, "color"),
    ("Guideline.IdentifierChanged", "oldValue", "newValue", None, "identifier"),
    ("Image.FileNameChanged", "oldValue", "newValue", None, "fileName"),
    ("Image.TransformationChanged", "oldValue", "newValue", None, "transformation"),
    ("Image.ColorChanged", "oldValue", "newValue", None, "color"),
    ("Component.BaseGlyphChanged", "oldValue", "newValue", None, "baseGlyph"),
    ("Component.TransformationChanged", "oldValue", "newValue", None, "transformation"),
    ("Component.IdentifierChanged", "oldValue", "newValue", None, "identifier"),
    ("Contour.WindingDirectionChanged", "oldValue", "newValue", None, "clockwise"),
    ("Contour.IdentifierChanged", "oldValue", "newValue", None, "identifier"),
    ("Layer.NameChanged", "oldName", "newName", None, "name"),
    ("Layer.ColorChanged", "oldColor", "newColor", None, "color"),
    ("LayerSet.DefaultLayerChanged", "oldValue", "newValue", None, "defaultLayer.name"),
    ("LayerSet.LayerOrderChanged", "oldValue", "newValue", None, "layerOrder"),
    ("Font.GlyphOrderChanged", "oldValue", "newValue", None, "glyphOrder"),
    ("Info.ValueChanged", "oldValue", "newValue", "attribute", "<item>"),
    ("Features.TextChanged", "oldValue", "newValue", None, "text"),
    ("Lib.ItemSet", "oldValue", "newValue", "key", "[item]"),
    ("Kerning.PairSet", "oldValue", "newValue", "key", "[item]"),
    ("Groups.GroupSet", "oldValue", "newValue", "key", "[item]"),
]


def getter_from(attr, item):
    """the observer's reading of a row of the getter table: `getter(sender, data)`"""
    if attr == "[item]":
        return lambda o, d: _dict_get(o, d[item])
    if attr == "<item>":
        return lambda o, d: getattr(o, d[item])
    path = attr.split(".")

    def f(o, d):
        for a in path:
            if o is None:
                return None
            o = getattr(o, a)
        return o
    return f


# name -> (old key, new key, getter(sender, data))
PAYLOAD = {n: (ok, nk, getter_from(attr, item)) for n, ok, nk, item, attr in GETTERS}
# the attribute a payload notification is about (for chaining old values within one operation)
ATTR = {n: n.split(".")[1].replace("WillChange", "").replace("DidChange", "").replace("Changed", "")
        for n in PAYLOAD}
NORMALISE = {"Font.GlyphOrderChanged": _norm_order}

# Will/Did pairs:  will -> (did, kind, observation(sender, data))
#   kind "attr": observation = the attribute getter;  "add"/"del": observation = membership of the subject
def _member(attr):
    def f(o, d):
        subj = d["object"]
        return any(x is subj for x in getattr(o, attr))
    return f


def _contour_member(o, d):
    subj = d["object"]
    return any(x is subj for x in o)


def _image_state(o, d):
    im = o._image        # the getter would create the image object
    if im is None:
        return None
    return (im.fileName, im.transformation, im.color)


WILL = {
    "Glyph.NameWillChange": ("Glyph.NameChanged", "attr", lambda o, d: o.name),
    "Glyph.LeftMarginWillChange": ("Glyph.LeftMarginDidChange", "attr", lambda o, d: o.leftMargin),
    "Glyph.RightMarginWillChange": ("Glyph.RightMarginDidChange", "attr", lambda o, d: o.rightMargin),
    "Glyph.TopMarginWillChange": ("Glyph.TopMarginDidChange", "attr", lambda o, d: o.topMargin),
    "Glyph.BottomMarginWillChange": ("Glyph.BottomMarginDidChange", "attr", lambda o, d: o.bottomMargin),
    "Glyph.ImageWillBeCleared": ("Glyph.ImageCleared", "attr", _image_state),
    "Glyph.ContourWillBeAdded": ("Glyph.ContoursChanged", "add", _contour_member),
    "Glyph.ContourWillBeDeleted": ("Glyph.ContoursChanged", "del", _contour_member),
    "Glyph.ComponentWillBeAdded": ("Glyph.ComponentsChanged", "add", _member("components")),
    "Glyph.ComponentWillBeDeleted": ("Glyph.ComponentsChanged", "del", _member("components")),
    "Glyph.AnchorWillBeAdded": ("Glyph.AnchorsChanged", "add", _member("anchors")),
    "Glyph.AnchorWillBeDeleted": ("Glyph.AnchorsChanged", "del", _member("anchors")),
    "Glyph.GuidelineWillBeAdded": ("Glyph.GuidelinesChanged", "add", _member("guidelines")),
    "Glyph.GuidelineWillBeDeleted": ("Glyph.GuidelinesChanged", "del", _member("guidelines")),
    "Font.GuidelineWillBeAdded": ("Font.GuidelinesChanged", "add", _member("guidelines")),
    "Font.GuidelineWillBeDeleted": ("Font.GuidelinesChanged", "del", _member("guidelines")),
    "Layer.GlyphWillBeAdded": ("Layer.GlyphAdded", "add", lambda o, d: d["name"] in o),
    "Layer.GlyphWillBeDeleted": ("Layer.GlyphDeleted", "del", lambda o, d: d["name"] in o),
    "LayerSet.DefaultLayerWillChange": ("LayerSet.DefaultLayerChanged", "attr",
                                        lambda o, d: None if o.defaultLayer is None else o.defaultLayer.name),
    "LayerSet.LayerWillBeDeleted": ("LayerSet.LayerDeleted", "del", lambda o, d: d["name"] in o),
    "ImageSet.ImageWillBeAdded": ("ImageSet.ImageAdded", "add", lambda o, d: d["name"] in o.fileNames),
    "ImageSet.ImageWillBeDeleted": ("ImageSet.ImageDeleted", "del", lambda o, d: d["name"] in o.fileNames),
}
# the data key that names the subject of a will-notification (Lean: `willSubject`, NotifGetters.lean)
WILL_SUBJECT = {w: ("object" if k in ("add", "del") and w.split(".")[0] in ("Glyph", "Font") else
                    "name" if k in ("add", "del") else None) for w, (d_, k, f_) in WILL.items()}


def table_rendering():
    """the harness's getter table and Will/Did pairs as the `setters` driver prints its own (`(getter-table)`)"""
    from sexp import Atom, opt
    return [[Atom("getters")] + [[n, ok, nk, opt(item), attr] for n, ok, nk, item, attr in GETTERS],
            [Atom("wills")] + [[w, opt(WILL[w][0]), opt(WILL_SUBJECT[w])] for w in WILL]]


DID = {}
for _w, (_d, _k, _f) in WILL.items():
    DID.setdefault(_d, _f)
# the did notifications of membership pairs observe the whole container
CONTAINER = {
    "Glyph.ContoursChanged": lambda o, d: list(o),
    "Glyph.ComponentsChanged": lambda o, d: o.components,
    "Glyph.AnchorsChanged": lambda o, d: o.anchors,
    "Glyph.GuidelinesChanged": lambda o, d: o.guidelines,
    "Font.GuidelinesChanged": lambda o, d: o.guidelines,
    "Layer.GlyphAdded": lambda o, d: d["name"] in o,
    "Layer.GlyphDeleted": lambda o, d: d["name"] in o,
    "LayerSet.LayerDeleted": lambda o, d: d["name"] in o,
    "LayerSet.LayerAdded": lambda o, d: d["name"] in o,
    "ImageSet.ImageAdded": lambda o, d: d["name"] in o.fileNames,
    "ImageSet.ImageDeleted": lambda o, d: d["name"] in o.fileNames,
    "ImageSet.ImageChanged": lambda o, d: d["name"] in o.fileNames,
    "Glyph.ImageCleared": _image_state,
}

# notifications one object posts BECAUSE another object changed (documented by the relaying class): recorded with
# their sender and data, judged by props/c08.py `relay_oracle`
RELAY = {"Component.BaseGlyphDataChanged", "Layer.GlyphNameChanged", "Layer.GlyphUnicodesChanged"}

INTERESTING = set(PAYLOAD) | set(WILL) | set(CONTAINER) | {w[0] for w in WILL.values()} | RELAY


class Event(object):
    __slots__ = ("name", "sender", "data", "subject", "old", "new", "now", "has_payload", "obs", "members", "error", "raw", "ident")

    def __repr__(self):
        return "<%s old=%r new=%r now=%r obs=%r>" % (self.name, self.old, self.new, self.now, self.obs)


class Recorder(object):
    """an observer that reads the getters inside its callback.  `early` is registered for (None, None) and is
    called before every other observer (also before the sender's own cache-evicting callback); `late` is
    registered per notification name for every sender and is called after the sender's own callback."""

    def __init__(self, world, label):
        self.world = world
        self.label = label
        self.events = []
        self.all_names = []

    def callback(self, notification):
        name = notification.name
        self.all_names.append(name)
        if name not in INTERESTING:
            return
        o = notification.object
        d = notification.data
        ev = Event()
        ev.name, ev.sender, ev.data = name, o, d
        ev.subject = None
        ev.old = ev.new = ev.now = ev.obs = ev.members = None
        ev.has_payload = False
        ev.error = None
        ev.raw = None
        ev.ident = None
        try:
            if isinstance(d, dict):
                if "object" in d:
                    ev.subject = d["object"]
                elif "name" in d:
                    ev.subject = d["name"]
                elif "key" in d:
                    ev.subject = d["key"]
                elif "attribute" in d:
                    ev.subject = d["attribute"]
            if name in PAYLOAD:
                ko, kn, getter = PAYLOAD[name]
                if isinstance(d, dict) and ko in d and kn in d:
                    ev.has_payload = True
                    ev.old, ev.new = copy.deepcopy(d[ko]), copy.deepcopy(d[kn])
                elif isinstance(d, dict) and any(k.startswith("old") for k in d):
                    # carries old/new values under other keys (e.g. a forwarded payload)
                    ev.has_payload = True
                    ok = [k for k in d if k.startswith("old")][0]
                    nk = [k for k in d if k.startswith("new")][0]
                    ev.old, ev.new = copy.deepcopy(d[ok]), copy.deepcopy(d[nk])
                ev.now = copy.deepcopy(getter(o, d))
                if name == "Font.GlyphOrderChanged":
                    ev.raw = copy.deepcopy(o.lib.get("public.glyphOrder"))     # the stored value the payload carries
            if name in ("Layer.GlyphWillBeAdded", "Layer.GlyphAdded"):
                g = o._glyphs.get(d["name"])          # peek: which glyph OBJECT is filed under the name (no lazy load)
                ev.ident = None if g is None else id(g)
            if name in WILL:
                ev.obs = copy.copy(WILL[name][2](o, d))
            elif name in CONTAINER:
                ev.obs = copy.copy(CONTAINER[name](o, d))
                if name in DID and isinstance(ev.obs, list):
                    ev.members = list(ev.obs)
            elif name in DID:
                ev.obs = copy.copy(DID[name](o, d))
        except Exception as e:      # a getter raising inside a callback is itself worth seeing
            ev.error = "%s: %s" % (type(e).__name__, e)
        self.events.append(ev)


# ---------------------------------------------------------------------------------------------------
# the world
# ---------------------------------------------------------------------------------------------------

def tr6(v):
    return tuple(v) if v is not None else None


class Skip(Exception):
    """the operation's target does not exist in the current state"""


class World(object):
    def __init__(self, case, tmpd):
        from defcon import Font
        warnings.filterwarnings("ignore")
        self.case = case
        self.tmpd = tmpd
        self.keep = []           # every defcon object we ever touched stays alive
        self.limbo = {"contour": [], "component": [], "anchor": [], "guideline": [], "fguideline": []}
        self.user_holds = []     # stack of held objects
        self.n_paths = 0
        spec = case["spec"]
        origin = case.get("origin", "memory")
        if origin == "disk":
            p = self.new_path()
            fg.write_ufo(spec, p)
            self.font = Font(p)
        else:
            self.font = Font()
            self.build_in_memory(spec)
            if origin == "saved":
                self.font.save(self.new_path())
        self.rec = Recorder(self, "early")
        self.font.dispatcher.addObserver(self.rec, "callback", None, None)
        self.late = Recorder(self, "late")
        for n in sorted(INTERESTING):
            self.font.dispatcher.addObserver(self.late, "callback", n, None)

    def new_path(self):
        self.n_paths += 1
        return os.path.join(self.tmpd, "f%d.ufo" % self.n_paths)

    def build_in_memory(self, spec):
        font = self.font
        first = True
        for l in spec["layers"]:
            if first:
                layer = font.layers.defaultLayer
                layer.name = l["name"]
                first = False
            else:
                layer = font.newLayer(l["name"])
            layer.color = l["color"]
            layer.lib.update(copy.deepcopy(l["lib"]))
            for gn, g in l["glyphs"].items():
                glyph = layer.newGlyph(gn)
                fg.apply_gspec(glyph, g)
                self.keep.append(glyph)
        font.layers.defaultLayer = font.layers[spec["default"]]
        for a, v in spec["info"].items():
            setattr(font.info, a, copy.deepcopy(v))
        font.guidelines = [fg._guideline_dict(g) for g in spec.get("guidelines", [])]
        if spec["kerning"]:
            font.kerning.update({tuple(k.split("|")): v for k, v in spec["kerning"].items()})
        if spec["groups"]:
            font.groups.update(copy.deepcopy(spec["groups"]))
        if spec["features"] is not None:
            font.features.text = spec["features"]
        if spec["lib"]:
            font.lib.update(copy.deepcopy(spec["lib"]))
        for n, seed in spec["images"].items():
            font.images[n] = fg.png_bytes(seed)

    # -- target resolution ---------------------------------------------------------------------

    def layer_at(self, li):
        order = self.font.layers.layerOrder
        if not order:
            raise Skip()
        return self.font.layers[order[li % len(order)]]

    def glyph_at(self, li, gi):
        layer = self.layer_at(li)
        names = sorted(layer.keys())
        if not names:
            raise Skip()
        if isinstance(gi, str):
            # addressed by name (scripted scenarios that follow one glyph through renames and replacements)
            if gi not in names:
                raise Skip()
            g = layer[gi]
        else:
            g = layer[names[gi % len(names)]]
        self.keep.append(g)
        return g

    def resolve(self, t):
        k = t[0]
        font = self.font
        if k == "font":
            return font
        if k == "info":
            return font.info
        if k == "features":
            return font.features
        if k == "lib":
            return font.lib
        if k == "kerning":
            return font.kerning
        if k == "groups":
            return font.groups
        if k == "images":
            return font.images
        if k == "layers":
            return font.layers
        if k == "layer":
            return self.layer_at(t[1])
        if k == "llib":
            return self.layer_at(t[1]).lib
        if k == "glyph":
            return self.glyph_at(t[1], t[2])
        if k == "glib":
            return self.glyph_at(t[1], t[2]).lib
        if k == "image":
            return self.glyph_at(t[1], t[2]).image
        if k == "fguideline":
            xs = font.guidelines
            if not xs:
                raise Skip()
            return xs[t[1] % len(xs)]
        g = self.glyph_at(t[1], t[2])
        xs = {"anchor": lambda: g.anchors, "guideline": lambda: g.guidelines,
              "component": lambda: g.components, "contour": lambda: list(g)}[k]()
        if not xs:
            raise Skip()
        o = xs[t[3] % len(xs)]
        self.keep.append(o)
        return o

    # -- domain: the component graph stays acyclic (glyphs named like a base glyph never get components) ------

    BASES = ("A", "B", "C")

    def no_components_for(self, name):
        if name in self.BASES:
            raise Skip()

    # -- snapshot of every payload getter, before an operation ------------------------------------

    def snapshot(self, margins_of=None):
        """{(id(obj), attribute): value} for every live object, without triggering lazy loading"""
        snap = {}
        font = self.font

        def put(o, attr, v):
            snap[(id(o), attr)] = copy.deepcopy(v)
            snap[(id(o), "exists")] = True
        ls = font.layers
        put(ls, "DefaultLayer", None if ls.defaultLayer is None else ls.defaultLayer.name)
        put(ls, "LayerOrder", ls.layerOrder)
        if font._lib is not None or font._reader is None or True:
            put(font, "GlyphOrder", font.glyphOrder)
        if font._features is not None:
            put(font.features, "Text", font.features.text)
        for gl in font.guidelines:
            self._snap_dict(put, gl, ("X", "Y", "Angle", "Name", "Color", "Identifier"))
        for o in (font._lib, font._kerning, font._groups):
            if o is not None:
                snap[(id(o), "exists")] = True
                snap[("dictall", id(o))] = copy.deepcopy(dict(o))
        if font._info is not None:
            from fontTools.ufoLib import fontInfoAttributesVersion3
            snap[(id(font._info), "exists")] = True
            snap[("dictall", id(font._info))] = {a: copy.deepcopy(getattr(font._info, a))
                                                 for a in fontInfoAttributesVersion3 if a != "guidelines"}
        for ln in ls.layerOrder:
            layer = ls[ln]
            put(layer, "Name", layer.name)
            put(layer, "Color", layer.color)
            if layer._lib is not None:
                snap[(id(layer._lib), "exists")] = True
                snap[("dictall", id(layer._lib))] = copy.deepcopy(dict(layer._lib))
            for g in list(layer._glyphs.values()):
                self.keep.append(g)
                put(g, "Name", g.name)
                put(g, "Unicodes", g.unicodes)
                put(g, "Width", g.width)
                put(g, "Height", g.height)
                put(g, "Note", g.note)
                if g._lib is not None:
                    snap[(id(g._lib), "exists")] = True
                    snap[("dictall", id(g._lib))] = copy.deepcopy(dict(g._lib))
                    put(g, "MarkColor", g.markColor)
                    put(g, "VerticalOrigin", g.verticalOrigin)
                else:
                    put(g, "MarkColor", None)
                    put(g, "VerticalOrigin", None)
                if g is margins_of:
                    put(g, "LeftMargin", g.leftMargin)
                    put(g, "RightMargin", g.rightMargin)
                    put(g, "TopMargin", g.topMargin)
                    put(g, "BottomMargin", g.bottomMargin)
                im = g._image
                if im is not None:
                    put(im, "FileName", im.fileName)
                    put(im, "Transformation", im.transformation)
                    put(im, "Color", im.color)
                for a in g.anchors:
                    self._snap_dict(put, a, ("X", "Y", "Name", "Color", "Identifier"))
                for gl in g.guidelines:
                    self._snap_dict(put, gl, ("X", "Y", "Angle", "Name", "Color", "Identifier"))
                for c in g.components:
                    put(c, "BaseGlyph", c.baseGlyph)
                    put(c, "Transformation", c.transformation)
                    put(c, "Identifier", c.identifier)
                for c in list(g._contours):
                    put(c, "Identifier", c.identifier)
                    try:
                        put(c, "WindingDirection", c.clockwise)
                    except Exception:
                        pass
        return snap

    @staticmethod
    def _snap_dict(put, o, attrs):
        for a in attrs:
            put(o, a, getattr(o, a[0].lower() + a[1:]))

    # -- operations ----------------------------------------------------------------------------------
    #
    # `plan(op)` resolves the target, builds the objects the call needs and returns `(thunk, details)`;
    # `do(op, mid)` = reset the recorders, plan, call `mid(details)` (a reader: the model adaptor takes the
    # pre-state there), run the thunk.

    def make_contour(self, glyph, spec):
        """a contour built by the caller: free-standing (`Contour()`, its points' identifiers are checked by nobody
        until it is handed to a glyph) or, when `owned`, created by `glyph.instantiateContour()` (identifiers are
        registered with the glyph as they are given; a clash raises here, before the operation: skipped)"""
        owned = spec.get("owned")
        c = glyph.instantiateContour() if owned else glyph.contourClass(pointClass=glyph.pointClass)
        try:
            if spec.get("id") is not None:
                c.identifier = spec["id"]
            for pt in spec["points"]:
                x, y, t = pt[:3]
                pid = pt[3] if len(pt) > 3 else None
                c.appendPoint(glyph.pointClass((x, y), segmentType=t, identifier=pid))
        except AssertionError:
            if owned:
                raise Skip()
            raise
        c.dirty = False
        return c

    def do(self, op, mid=None):
        """executes one op; returns (status, details) with status 'ok' | 'skip' | 'err:<Class>'"""
        self.rec.events = []
        self.rec.all_names = []
        self.late.events = []
        self.late.all_names = []
        details = {}
        try:
            with warnings.catch_warnings():
                warnings.simplefilter("ignore")
                thunk, details = self.plan(op)
                if mid is not None:
                    mid(details)
                thunk()
            return "ok", details
        except Skip:
            return "skip", details
        except Exception as e:
            details["error"] = "%s: %s" % (type(e).__name__, e)
            seen = (list(self.rec.events), list(self.late.events))
            self.release_leaked_holds()
            self.rec.events, self.late.events = seen
            return "err:" + type(e).__name__, details

    def release_leaked_holds(self):
        """a composite mutator that holds the object's notifications without try/finally leaves them held for
        good when an element is rejected (the list assignments and Layer.insertGlyph were repaired in 67bac07;
        decompose* still bracket without finally).  The harness releases such a hold after the failed call
        (outside the recorded window) so that later operations stay observable."""
        center = self.font.dispatcher
        users = [id(o) for o in self.user_holds]
        for (name, obs, observer) in list(center.getHeldNotifications()):
            o = obs() if obs is not None else None
            if o is None or id(o) in users:
                continue
            n = 0
            while center.areNotificationsHeld(observable=o, notification=name, observer=None if observer is None else observer()) and n < 10:
                center.releaseHeldNotifications(observable=o, notification=name, observer=None if observer is None else observer())
                n += 1
            self.leaked = getattr(self, "leaked", 0) + 1

    def plan(self, op):
        k = op[0]
        font = self.font
        if k == "set":
            o = self.resolve(op[1])
            attr, v = op[2], op[3]
            tk = op[1][0]
            if attr == "transformation":
                v = tr6(v)
            elif attr in ("markColor", "color") and isinstance(v, list):
                v = tuple(v)
            elif tk == "layers" and attr == "defaultLayer":
                v = self.layer_at(v)
            elif tk == "layers" and attr == "layerOrder":
                order = o.layerOrder
                v = [order[i % len(order)] for i in v] if v and all(isinstance(i, int) for i in v) else v
            elif tk == "glyph" and attr == "image" and v is not None:
                v = dict(v)
            elif tk == "glyph" and attr == "name":
                # renaming onto an existing name replaces the glyph that was filed under it (the layer lets the
                # replaced object go, 5fa9b2d): in the domain - what refers to that NAME (components) must follow
                if o.components:
                    self.no_components_for(v)
            elif tk == "layer" and attr == "name":
                if str(v) in self.font.layers and str(v) != o.name:
                    raise Skip()
            if not (tk == "layers" and attr == "defaultLayer"):
                v = copy.deepcopy(v)
            return (lambda: setattr(o, attr, v)), dict(target=o, attr=attr, value=v)
        if k == "setitem":
            o = self.resolve(op[1])
            key, v = op[2], op[3]
            if op[1][0] == "kerning":
                key = tuple(key)
            if op[1][0] == "images":
                v = fg.png_bytes(v)
            v = copy.deepcopy(v)

            def t():
                o[key] = v
            return t, dict(target=o, key=key, value=v)
        if k == "delitem":
            o = self.resolve(op[1])
            key = op[2]
            if op[1][0] == "kerning":
                key = tuple(key)
            if op[1][0] == "layer":
                names = sorted(o.keys())
                if isinstance(key, int):
                    if not names:
                        raise Skip()
                    key = names[key % len(names)]
            if op[1][0] == "layers":
                order = o.layerOrder
                if isinstance(key, int):
                    key = order[key % len(order)]
                # deleting the default layer leaves `defaultLayer` pointing at a layer that is no longer in the
                # set ("it's up to the caller to ensure that a default layer is present"): outside the domain
                if o.defaultLayer is not None and key == o.defaultLayer.name:
                    raise Skip()

            def t():
                del o[key]
            return t, dict(target=o, key=key)
        if k in ("setdefault", "pop"):
            o = self.resolve(op[1])
            key = tuple(op[2]) if op[1][0] == "kerning" else op[2]
            if k == "setdefault":
                v = copy.deepcopy(op[3])
                return (lambda: o.setdefault(key, v)), dict(target=o, key=key, value=v)
            return (lambda: o.pop(key, None)), dict(target=o, key=key)
        if k == "clear":
            o = self.resolve(op[1])
            return o.clear, dict(target=o)
        if k == "update":
            o = self.resolve(op[1])
            d = op[2]
            if op[1][0] == "kerning":
                d = {tuple(a.split("|")): b for a, b in d.items()}
            d = copy.deepcopy(d)
            return (lambda: o.update(d)), dict(target=o)
        if k == "hold":
            o = self.resolve(op[1])

            def t():
                o.holdNotifications(note="user")
                self.user_holds.append(o)
            return t, dict(target=o)
        if k == "release":
            if not self.user_holds:
                raise Skip()

            def t():
                o = self.user_holds.pop()
                o.releaseHeldNotifications()
            return t, {}
        if k == "save":
            return (lambda: font.save(font.path if font.path else self.new_path())), {}
        if k == "touch":
            o = self.resolve(op[1])

            def t():
                if op[1][0] == "glyph":
                    len(o), o.bounds, o.anchors, o.lib.keys()
            return t, dict(target=o)
        if k == "call":
            return self._plan_call(op)
        raise ValueError(op)

    def _plan_call(self, op):
        t, m, args = op[1], op[2], op[3:]
        o = self.resolve(t)
        tk = t[0]
        d = dict(target=o, method=m)
        if tk == "glyph":
            g = o
            if m == "insertContour":
                c = self.make_contour(g, args[1])
                self.keep.append(c)
                d.update(obj=c, kind="contour")
                if args[0] is None:         # the other spelling: appendContour(c) == insertContour(len, c)
                    d.update(index=len(g))
                    return (lambda: g.appendContour(c)), d
                i = args[0] % (len(g) + 1)
                d.update(index=i)
                return (lambda: g.insertContour(i, c)), d
            if m == "drawContour":
                # the pen spelling: beginPath / addPoint ... / endPath builds a contour that belongs to the glyph from
                # the start (identifiers are checked point by point) and appends it
                spec = args[0]

                def t():
                    pen = g.getPointPen()
                    pen.beginPath(identifier=spec.get("id"))
                    for pt in spec["points"]:
                        pen.addPoint((pt[0], pt[1]), segmentType=pt[2], identifier=pt[3] if len(pt) > 3 else None)
                    pen.endPath()
                return t, d
            if m == "removeContour":
                cs = list(g)
                if not cs:
                    raise Skip()
                c = cs[args[0] % len(cs)]
                self.limbo["contour"].append(c)
                d.update(obj=c, kind="contour")
                return (lambda: g.removeContour(c)), d
            if m == "insertComponent":
                self.no_components_for(g.name)
                c = g.instantiateComponent() if args[4] else g.componentClass()
                self.keep.append(c)
                c.baseGlyph = args[1]
                c.transformation = tr6(args[2])
                if args[3] is not None:
                    c.identifier = args[3]
                c.dirty = False
                d.update(obj=c, kind="component")
                if args[0] is None:
                    d.update(index=len(g.components))
                    return (lambda: g.appendComponent(c)), d
                i = args[0] % (len(g.components) + 1)
                d.update(index=i)
                return (lambda: g.insertComponent(i, c)), d
            if m in ("removeComponent", "decomposeComponent"):
                cs = g.components
                if not cs:
                    raise Skip()
                c = cs[args[0] % len(cs)]
                if m == "removeComponent":
                    self.limbo["component"].append(c)
                d.update(obj=c, kind="component")
                return (lambda: getattr(g, m)(c)), d
            if m in ("insertAnchor", "insertGuideline"):
                kind = "anchor" if m == "insertAnchor" else "guideline"
                a = dict(args[1])
                d.update(kind=kind, dict=dict(a))
                if args[2] == "object":
                    a = g.anchorClass(anchorDict=a) if kind == "anchor" else g.guidelineClass(guidelineDict=a)
                    d["obj"] = a
                elif args[2] == "owned":
                    a = g.instantiateAnchor(a) if kind == "anchor" else g.instantiateGuideline(a)
                    d["obj"] = a
                self.keep.append(a)
                if args[0] is None:
                    d["index"] = len(getattr(g, kind + "s"))
                    return (lambda: getattr(g, "append" + kind.capitalize())(a)), d
                i = args[0] % (len(getattr(g, kind + "s")) + 1)
                d["index"] = i
                return (lambda: getattr(g, m)(i, a)), d
            if m in ("removeAnchor", "removeGuideline"):
                kind = "anchor" if m == "removeAnchor" else "guideline"
                xs = getattr(g, kind + "s")
                if not xs:
                    raise Skip()
                a = xs[args[0] % len(xs)]
                self.limbo[kind].append(a)
                d.update(obj=a, kind=kind)
                return (lambda: getattr(g, m)(a)), d
            if m == "reinsert":
                kind = args[0]
                if not self.limbo[kind]:
                    raise Skip()
                if kind == "component":
                    self.no_components_for(g.name)
                x = self.limbo[kind].pop()
                cont = list(g) if kind == "contour" else getattr(g, kind + "s")
                d.update(obj=x, kind=kind, method="insert" + kind.capitalize())
                if args[1] is None:
                    d.update(index=len(cont))
                    return (lambda: getattr(g, "append" + kind.capitalize())(x)), d
                i = args[1] % (len(cont) + 1)
                d.update(index=i)
                return (lambda: getattr(g, "insert" + kind.capitalize())(i, x)), d
            if m == "removeForeign":
                kind = args[0]
                if not self.limbo[kind]:
                    raise Skip()
                x = self.limbo[kind][-1]
                d.update(obj=x, kind=kind, method="remove" + kind.capitalize())
                return (lambda: getattr(g, "remove" + kind.capitalize())(x)), d
            if m == "copyDataFromGlyph":
                src = self.glyph_at(args[0], args[1])
                if src is g:
                    raise Skip()
                if src.components:
                    self.no_components_for(g.name)
                return (lambda: g.copyDataFromGlyph(src)), d
            if m == "move":
                return (lambda: g.move((args[0], args[1]))), d
            if m in ("clearContours", "clearComponents", "clearAnchors", "clearGuidelines", "clear", "clearImage",
                     "decomposeAllComponents"):
                for kind, xs in (("contour", list(g)), ("component", g.components), ("anchor", g.anchors),
                                 ("guideline", g.guidelines)):
                    if m in ("clear", "clear" + kind.capitalize() + "s"):
                        self.limbo[kind].extend(xs)
                        del self.limbo[kind][:-4]
                return getattr(g, m), d
            raise ValueError(op)
        if tk in ("anchor", "component", "contour", "image"):
            if m == "move":
                return (lambda: o.move((args[0], args[1]))), d
            if m == "reverse" and tk == "contour":
                return o.reverse, d
            raise ValueError(op)
        if tk == "layer":
            if m == "newGlyph":
                d["name"] = args[0]
                return (lambda: self.keep.append(o.newGlyph(args[0]))), d
            if m == "insertGlyph":
                src = self.glyph_at(args[0], args[1])
                list(src)
                name = args[2] if args[2] is not None else src.name
                if src.components:
                    self.no_components_for(name)
                d["name"] = name
                return (lambda: self.keep.append(o.insertGlyph(src, name=args[2]))), d
            raise ValueError(op)
        if tk == "layers":
            if m == "newLayer":
                return (lambda: self.keep.append(o.newLayer(args[0]))), d
            raise ValueError(op)
        if tk == "font":
            if m == "newGlyph":
                return (lambda: self.keep.append(o.newGlyph(args[0]))), d
            if m == "insertGuideline":
                a = dict(args[1])
                d.update(kind="fguideline", dict=dict(a))
                if args[2] == "object":
                    a = o._guidelineClass(guidelineDict=a)
                    d["obj"] = a
                elif args[2] == "owned":
                    a = o.instantiateGuideline(a)
                    d["obj"] = a
                self.keep.append(a)
                if args[0] is None:
                    d["index"] = len(o.guidelines)
                    return (lambda: o.appendGuideline(a)), d
                i = args[0] % (len(o.guidelines) + 1)
                d["index"] = i
                return (lambda: o.insertGuideline(i, a)), d
            if m == "removeGuideline":
                xs = o.guidelines
                if not xs:
                    raise Skip()
                a = xs[args[0] % len(xs)]
                self.limbo["fguideline"].append(a)
                d.update(obj=a, kind="fguideline")
                return (lambda: o.removeGuideline(a)), d
            if m == "reinsertGuideline":
                if not self.limbo["fguideline"]:
                    raise Skip()
                x = self.limbo["fguideline"].pop()
                d.update(obj=x, kind="fguideline", method="insertGuideline")
                if args[0] is None:
                    d.update(index=len(o.guidelines))
                    return (lambda: o.appendGuideline(x)), d
                i = args[0] % (len(o.guidelines) + 1)
                d.update(index=i)
                return (lambda: o.insertGuideline(i, x)), d
            if m == "removeForeignGuideline":
                if not self.limbo["fguideline"]:
                    raise Skip()
                x = self.limbo["fguideline"][-1]
                d.update(obj=x, kind="fguideline", method="removeGuideline")
                return (lambda: o.removeGuideline(x)), d
            if m == "clearGuidelines":
                self.limbo["fguideline"].extend(o.guidelines)
                del self.limbo["fguideline"][:-4]
                return o.clearGuidelines, d
            raise ValueError(op)
        raise ValueError(op)
