#!/bin/bash
# after a conflicting `git pull` of a slice: keep our manifest machinery, extract the slice's CLAIMED entry
# usage: harness/merge_claim.sh Cxx
set -e
git show MERGE_HEAD:harness/mkmanifest.py > /tmp/mk_slice.py
git checkout --ours harness/mkmanifest.py MANIFEST.json
/venv/bin/python - "$1" <<'PY'
import json, sys, os
s=open('/tmp/mk_slice.py').read()
a=s.index("CLAIMED = {"); b=s.index("NOT_YET = {}")
ns={"json": json, "os": os}
try:
    exec(s[a:b], ns)
    json.dump(ns["CLAIMED"][sys.argv[1]], open('/verif/harness/claims/%s.json' % sys.argv[1], 'w'), indent=1)
    print("claim extracted")
except Exception as e:
    print("could not extract claim:", e)
PY
/venv/bin/python harness/mkmanifest.py
