"""Run-time census of construction sites for C15 (no source hooks: the wrappers are put on from the harness).

`install()` wraps `__init__` of defcon's own class for each of the 17 roles (and of Font).  Every construction of an
instance of such a class - of the class itself or of any subclass, defined by defcon, by the harness or anywhere else -
is recorded with the place that asked for it: the first frame below the wrapper that is not the `__init__` of a class
of the object under construction (a `super().__init__()` chain inside defcon or inside a subclass is skipped).

A record is  (role, file relative to Lib/defcon or None when the caller is outside defcon, line, function)  and the
object's id is remembered, so that a sweep can ask "who made this object?".

`SiteTable` maps an executed (file, line) to a creation site of the table the Lean theorems are proved over: it is made
by the same extractor run (`extract_classwiring.scan_repo`) that writes `Gen/ClassWiring.lean`, and `tied_to(lean_dir)`
checks that the ids it knows are exactly the ids of the `def sites` list of that file.
"""
import os
import re
import sys

ROLE_OF_CLASS = None     # defcon class -> role
_INSTALLED = False
_ORIG = {}
_ACTIVE = None           # the Census that records at the moment (one case at a time per process)
_BUILDING = set()        # ids of objects inside a wrapped __init__
_ROOT = None             # realpath of Lib/defcon


class Census(object):
    def __init__(self):
        self.records = []        # (role, rel file | None, line, function name, class name, column | None)
        self.by_id = {}          # id(obj) -> index into records
        self.keep = []           # the objects stay alive: ids stay unique

    def mark(self):
        return len(self.records)

    def since(self, mark):
        return self.records[mark:]


_RELS = {}


def _rel(filename):
    if filename not in _RELS:
        _RELS[filename] = _rel_uncached(filename)
    return _RELS[filename]


def _rel_uncached(filename):
    try:
        p = os.path.realpath(filename)
    except Exception:
        return None
    if p.startswith(_ROOT + os.sep):
        rel = os.path.relpath(p, _ROOT)
        if rel.split(os.sep)[0] == "test":
            return None
        return rel
    return None


_POS = {}


def _position(f):
    """(line, column) of the call expression the frame is executing (exact: two sites may share a line)"""
    co = f.f_code
    key = (co, f.f_lasti)
    r = _POS.get(key)
    if r is None:
        r = (f.f_lineno, None)
        try:
            for i, pos in enumerate(co.co_positions()):
                if i == f.f_lasti // 2:
                    if pos[0] is not None:
                        r = (pos[0], pos[2])
                    break
        except Exception:
            pass
        _POS[key] = r
    return r


def _caller(obj):
    """the frame that asked for `obj`: below the wrapper, above every __init__ running on `obj` itself"""
    f = sys._getframe(2)
    while f is not None:
        co = f.f_code
        if co.co_name == "__init__" and co.co_argcount >= 1 and f.f_locals.get(co.co_varnames[0]) is obj:
            f = f.f_back
            continue
        return f
    return None


def _wrap(cls, role):
    orig = cls.__dict__["__init__"]

    def __init__(self, *args, **kwargs):
        c = _ACTIVE
        if c is not None and id(self) not in _BUILDING:
            _BUILDING.add(id(self))
            try:
                f = _caller(self)
                if f is not None:
                    rel = _rel(f.f_code.co_filename)
                    line, col = _position(f) if rel is not None else (f.f_lineno, None)
                    rec = (role, rel, line, f.f_code.co_name, type(self).__name__, col)
                else:
                    rec = (role, None, 0, "?", type(self).__name__, None)
                c.by_id[id(self)] = len(c.records)
                c.records.append(rec)
                c.keep.append(self)
                return orig(self, *args, **kwargs)
            finally:
                _BUILDING.discard(id(self))
        return orig(self, *args, **kwargs)
    __init__.__wrapped__ = orig
    __init__._c15_census = True
    return __init__


def install(defaults):
    """defaults: role -> defcon class.  Idempotent."""
    global _INSTALLED, ROLE_OF_CLASS, _ROOT
    if _INSTALLED:
        return
    import defcon
    _ROOT = os.path.realpath(os.path.dirname(defcon.__file__))
    ROLE_OF_CLASS = {}
    for role, cls in defaults.items():
        ROLE_OF_CLASS[cls] = role
        if "__init__" not in cls.__dict__:
            raise RuntimeError("census: %s has no __init__ of its own" % cls.__name__)
        _ORIG[cls] = cls.__dict__["__init__"]
        cls.__init__ = _wrap(cls, role)
    _INSTALLED = True


def start():
    global _ACTIVE
    _ACTIVE = Census()
    _BUILDING.clear()
    return _ACTIVE


def stop():
    global _ACTIVE
    _ACTIVE = None


# ---------------------------------------------------------------------------------------
# the table
# ---------------------------------------------------------------------------------------

class SiteTable(object):
    def __init__(self, repo):
        import extract_classwiring
        self.error = None
        self.sites = []
        try:
            _, sites = extract_classwiring.scan_repo(repo)
            self.sites = [s for s in sites if not s["guard"]]
        except Exception as e:      # the extractor fails closed: then nothing is tabled
            self.error = "%s: %s" % (type(e).__name__, e)
        self.ids = [s["id"] for s in self.sites]

    def lookup(self, rel, line, func, col=None):
        """the tabled creation site executing at (rel, line[, col]), innermost call expression first"""
        if col is not None:
            for s in self.sites:
                if s["file"] == rel and s["line"] == line and s["col"] == col:
                    return s
        best = None
        for s in self.sites:
            if s["file"] == rel and s["line"] <= line <= s.get("end_line", s["line"]):
                if best is None or (s.get("end_line", s["line"]) - s["line"]) < (best.get("end_line", best["line"]) - best["line"]):
                    best = s
        return best

    def tied_to(self, lean_dir):
        """the ids of the non-guard sites of Gen/ClassWiring.lean are exactly the ids of this table"""
        path = os.path.join(lean_dir, "DefconModel", "Gen", "ClassWiring.lean")
        try:
            text = open(path).read()
        except Exception:
            return False
        body = text.split("def sites : List Site := [", 1)[-1]
        got = [m.group(1) for m in re.finditer(r'\{ id := "([^"]+)", owner := "[^"]*", guard := false', body)]
        return sorted(got) == sorted(self.ids)
