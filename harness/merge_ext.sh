#!/bin/bash
# merge_ext.sh <id e.g. c06> : pull branch ext-<id> of the slice workspace /tmp/w/<id>/verif into /verif.
# Generated files (MANIFEST.json, the ASBUILT block of DESIGN.md, evidence) are never merged by hand: ours is kept and
# they are regenerated afterwards.  Files that every slice appends to (imports, driver registry, known findings) are
# merged line-wise (union); anything else that conflicts is listed and left for a manual decision.
set -u
id=$1
cd /verif
git pull --no-edit /tmp/w/$id/verif ext-$id > /tmp/exp/merge_$id.log 2>&1
st=$?
if [ $st -ne 0 ]; then
  for f in $(git diff --name-only --diff-filter=U); do
    case $f in
      MANIFEST.json|evidence/*) git checkout --ours -- $f; git add $f ;;
      lean/DefconModel/Gen/*) git checkout --theirs -- $f; git add $f ;;
      lean/DefconModel.lean|lean/DefconModel/AllDrivers.lean)
        git show :1:$f > /tmp/exp/m_base; git show :2:$f > /tmp/exp/m_ours; git show :3:$f > /tmp/exp/m_theirs
        git merge-file --union -p /tmp/exp/m_ours /tmp/exp/m_base /tmp/exp/m_theirs > $f; git add $f ;;
      known_findings.json) /venv/bin/python harness/merge_findings.py && git add $f ;;
      *) echo "CONFLICT (manual): $f" ;;
    esac
  done
fi
git diff --name-only --diff-filter=U | sed 's/^/UNRESOLVED: /'
echo "merge status=$st; see /tmp/exp/merge_$id.log"
