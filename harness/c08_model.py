"""C08 - glue between the implementation run (c08_world) and the Lean model M-Setters.

For every operation the model knows (`ENTRY_NAMES`), `Adaptor.before` abstracts the target object's state
through its getters into the model's store, `Adaptor.after` builds

  * the model line  `(run <entry> <key> <args> <pre-store> <names>)`
  * the implementation's answer `(<status> <deliveries of those names sent by the target> <post-store>)`

Values: None -> none, numeric attributes -> the integer, lists of integers -> (l ...), everything else ->
an integer token (equal tokens <=> values equal under Python's ==); objects -> tokens by identity.

For the operations that M-Follow knows (lean/DefconModel/Follow.lean: a glyph of a layer created, replaced, deleted,
renamed, its outline edited; a component attached, removed, pointed elsewhere) `follow_before` / `follow_after` add

  * the model line  `(follow <op> <name -> glyph object> <glyph object -> outline token> <components>)`
  * the implementation's answer `((set <components that posted Component.BaseGlyphDataChanged>) (set <components>))`

where a component is `(<object> <base name> <watch>)` and `<watch>` - what the component observes - is read through
the PUBLIC `hasObserver` of the layer and of the glyphs filed in it.
"""
import hashlib

from sexp import Atom

NONE = Atom("none")
SKIP = [Atom("skip")]

W = "WillBe"
ENTRY_NAMES = {
    "Glyph.name=": ["Glyph.NameWillChange", "Glyph.NameChanged"],
    "Glyph.unicodes=": ["Glyph.UnicodesChanged"],
    "Glyph.width=": ["Glyph.WidthChanged"],
    "Glyph.height=": ["Glyph.HeightChanged"],
    "Glyph.note=": ["Glyph.NoteChanged"],
    "Glyph.markColor=": ["Glyph.MarkColorChanged"],
    "Glyph.verticalOrigin=": ["Glyph.VerticalOriginChanged"],
    "Glyph.leftMargin=": ["Glyph.LeftMarginWillChange", "Glyph.WidthChanged", "Glyph.LeftMarginDidChange"],
    "Glyph.rightMargin=": ["Glyph.RightMarginWillChange", "Glyph.WidthChanged", "Glyph.RightMarginDidChange"],
    "Glyph.bottomMargin=": ["Glyph.VerticalOriginChanged", "Glyph.BottomMarginWillChange", "Glyph.HeightChanged",
                            "Glyph.BottomMarginDidChange"],
    "Glyph.topMargin=": ["Glyph.TopMarginWillChange", "Glyph.VerticalOriginChanged", "Glyph.HeightChanged",
                         "Glyph.TopMarginDidChange"],
    "Glyph.image=None": ["Glyph.ImageWillBeCleared", "Glyph.ImageCleared"],
    "Glyph.clear": ["Glyph.ContourWillBeDeleted", "Glyph.ContoursChanged", "Glyph.ComponentWillBeDeleted",
                    "Glyph.ComponentsChanged", "Glyph.AnchorWillBeDeleted", "Glyph.AnchorsChanged",
                    "Glyph.GuidelineWillBeDeleted", "Glyph.GuidelinesChanged", "Glyph.ImageWillBeCleared",
                    "Glyph.ImageCleared"],
    "Glyph.decomposeComponent": ["Glyph.ContourWillBeAdded", "Glyph.ContoursChanged", "Glyph.ComponentWillBeDeleted",
                                 "Glyph.ComponentsChanged"],
    "Glyph.decomposeAllComponents": ["Glyph.ComponentWillBeDeleted", "Glyph.ComponentsChanged"],
    "Glyph.copyDataFromGlyph": ["Glyph.GuidelineWillBeDeleted", "Glyph.GuidelinesChanged", "Glyph.GuidelineWillBeAdded",
                                "Glyph.AnchorWillBeDeleted", "Glyph.AnchorsChanged", "Glyph.AnchorWillBeAdded"],
    "Image.fileName=": ["Image.FileNameChanged"], "Image.color=": ["Image.ColorChanged"],
    "Image.transformation=": ["Image.TransformationChanged"], "Image.move": ["Image.TransformationChanged"],
    "Component.baseGlyph=": ["Component.BaseGlyphChanged"],
    "Component.transformation=": ["Component.TransformationChanged"],
    "Component.identifier=": ["Component.IdentifierChanged"],
    "Contour.identifier=": ["Contour.IdentifierChanged"],
    "Contour.reverse": ["Contour.WindingDirectionChanged"],
    "Contour.clockwise=": ["Contour.WindingDirectionChanged"],
    "Layer.name=": ["Layer.NameChanged"], "Layer.color=": ["Layer.ColorChanged"],
    "Layer.newGlyph": ["Layer.GlyphWillBeAdded", "Layer.GlyphAdded"],
    "Layer.insertGlyph": ["Layer.GlyphWillBeAdded", "Layer.GlyphAdded"],
    "Layer.__delitem__": ["Layer.GlyphWillBeDeleted", "Layer.GlyphDeleted"],
    "LayerSet.defaultLayer=": ["LayerSet.DefaultLayerWillChange", "LayerSet.DefaultLayerChanged"],
    "LayerSet.layerOrder=": ["LayerSet.LayerOrderChanged"],
    "LayerSet.__delitem__": ["LayerSet.LayerWillBeDeleted", "LayerSet.LayerDeleted"],
    "Font.glyphOrder=": ["Font.GlyphOrderChanged"],
    "Info.<attr>=": ["Info.ValueChanged"], "Features.text=": ["Features.TextChanged"],
    "Lib.__setitem__": ["Lib.ItemSet"], "Kerning.__setitem__": ["Kerning.PairSet"], "Groups.__setitem__": ["Groups.GroupSet"],
    "ImageSet.__setitem__": ["ImageSet.ImageWillBeAdded", "ImageSet.ImageAdded", "ImageSet.ImageChanged"],
    "ImageSet.__delitem__": ["ImageSet.ImageWillBeDeleted", "ImageSet.ImageDeleted"],
}
for _k, _K in (("contour", "Contour"), ("component", "Component"), ("anchor", "Anchor"), ("guideline", "Guideline")):
    ENTRY_NAMES["Glyph.insert" + _K] = ["Glyph.%sWillBeAdded" % _K, "Glyph.%ssChanged" % _K]
    ENTRY_NAMES["Glyph.remove" + _K] = ["Glyph.%sWillBeDeleted" % _K, "Glyph.%ssChanged" % _K]
    ENTRY_NAMES["Glyph.clear%ss" % _K] = ["Glyph.%sWillBeDeleted" % _K, "Glyph.%ssChanged" % _K]
ENTRY_NAMES["Glyph.anchors="] = ["Glyph.AnchorWillBeDeleted", "Glyph.AnchorsChanged", "Glyph.AnchorWillBeAdded"]
ENTRY_NAMES["Glyph.guidelines="] = ["Glyph.GuidelineWillBeDeleted", "Glyph.GuidelinesChanged", "Glyph.GuidelineWillBeAdded"]
ENTRY_NAMES["Font.insertGuideline"] = ["Font.GuidelineWillBeAdded", "Font.GuidelinesChanged"]
ENTRY_NAMES["Font.removeGuideline"] = ["Font.GuidelineWillBeDeleted", "Font.GuidelinesChanged"]
ENTRY_NAMES["Font.clearGuidelines"] = ["Font.GuidelineWillBeDeleted", "Font.GuidelinesChanged"]
ENTRY_NAMES["Font.guidelines="] = ["Font.GuidelineWillBeDeleted", "Font.GuidelinesChanged", "Font.GuidelineWillBeAdded"]
for _c, _attrs in (("Anchor", ("X", "Y", "Name", "Color", "Identifier")),
                   ("Guideline", ("X", "Y", "Angle", "Name", "Color", "Identifier"))):
    for _a in _attrs:
        ENTRY_NAMES["%s.%s=" % (_c, _a[0].lower() + _a[1:])] = ["%s.%sChanged" % (_c, _a)]

CLEARED_IMAGE = (None, (1, 0, 0, 1, 0, 0), None)
COMPOSITE = {"Glyph.anchors=", "Glyph.guidelines=", "Font.guidelines=", "Glyph.copyDataFromGlyph", "Layer.insertGlyph",
             "Glyph.decomposeComponent", "Glyph.decomposeAllComponents", "Glyph.clear"}

G_ATTR = ["_name", "_unicodes", "_width", "_height", "_note", "markColor", "vo"]
G_BOUNDS = ["xMin", "yMin", "xMax", "yMax"]
G_CONT = ["contours", "components", "anchors", "guidelines", "hasImage", "imgState"]


def entry_fields(entry):
    """the part of a glyph's store an entry reads or writes (bounds change with every outline edit)"""
    if not entry.startswith("Glyph."):
        return None
    if entry.endswith("Margin="):
        return G_ATTR + G_BOUNDS
    if entry in ("Glyph.name=", "Glyph.unicodes=", "Glyph.width=", "Glyph.height=", "Glyph.note=", "Glyph.markColor=",
                 "Glyph.verticalOrigin="):
        return G_ATTR
    if entry == "Glyph.copyDataFromGlyph":
        return ["anchors", "guidelines"]
    if entry == "Glyph.decomposeAllComponents":
        return ["components"]
    return G_CONT


class Unmodelled(Exception):
    """a value outside the model's value domain (floats, strings where integers are expected, ...)"""


def is_int(v):
    return isinstance(v, int) and not isinstance(v, bool)


class Adaptor(object):
    def __init__(self, world):
        self.w = world
        self.values = []      # interned values, token = index + 1000
        self.objs = {}        # id(obj) -> token
        self.keep = []

    # -- value encoding --------------------------------------------------------------------------

    def tok(self, v):
        if v is None:
            return NONE
        for i, x in enumerate(self.values):
            try:
                if type(x) is type(v) or not isinstance(v, (bool, int, float)) or not isinstance(x, (bool, int, float)):
                    if x == v:
                        return 1000 + i
                elif x == v:
                    return 1000 + i
            except Exception:
                pass
        self.values.append(v)
        return 1000 + len(self.values) - 1

    def obj(self, o):
        if o is None:
            return NONE
        if id(o) not in self.objs:
            self.objs[id(o)] = len(self.objs) + 1
            self.keep.append(o)
        return self.objs[id(o)]

    @staticmethod
    def num(v):
        if v is None:
            return NONE
        if is_int(v):
            return v
        if isinstance(v, float) and v == int(v):
            return int(v)
        raise Unmodelled(repr(v))

    def ilist(self, v):
        if v is None:
            return NONE
        return [Atom("l")] + [self.num(x) for x in v]

    def objs_list(self, xs):
        return [Atom("l")] + [self.obj(x) for x in xs]

    def names_list(self, xs, sort=False):
        ts = [self.tok(x) for x in xs]
        return [Atom("l")] + (sorted(ts) if sort else ts)

    @staticmethod
    def color(v):
        from defcon.objects.color import Color
        if v is None:
            return None
        return str(Color(tuple(v) if isinstance(v, list) else v))

    # -- stores ------------------------------------------------------------------------------------

    def store_of(self, kind, o):
        """abstraction of the object's state, through getters (private peeks are marked)"""
        num, tok = self.num, self.tok
        if kind == "glyph":
            b = o.bounds
            im = o._image                      # peek: the getter would create the image object
            s = {"_name": tok(o.name), "_unicodes": self.ilist(o.unicodes), "_width": num(o.width), "_height": num(o.height),
                 "_note": tok(o.note), "markColor": tok(None if o.markColor is None else str(o.markColor)),
                 "vo": num(o.verticalOrigin),
                 "hasImage": 1 if im is not None else 0,
                 "imgState": NONE if im is None else tok((im.fileName, im.transformation, im.color)),
                 "contours": self.objs_list(list(o)), "components": self.objs_list(o.components),
                 "anchors": self.objs_list(o.anchors), "guidelines": self.objs_list(o.guidelines)}
            for k, v in zip(("xMin", "yMin", "xMax", "yMax"), b if b is not None else (None,) * 4):
                s[k] = num(v)
            return s
        if kind == "anchor":
            return {"x": num(o.x), "y": num(o.y), "name": tok(o.name), "color": tok(o.color), "identifier": tok(o.identifier)}
        if kind in ("guideline", "fguideline"):
            return {"x": num(o.x), "y": num(o.y), "angle": num(o.angle), "name": tok(o.name), "color": tok(o.color),
                    "identifier": tok(o.identifier)}
        if kind == "image":
            s = {"fileName": tok(o.fileName), "color": tok(o.color)}
            for k in ("xScale", "xyScale", "yxScale", "yScale", "xOffset", "yOffset"):
                s[k] = num(o.get(k))
            return s
        if kind == "component":
            return {"_baseGlyph": tok(o.baseGlyph), "_transformation": self.ilist(o.transformation),
                    "_identifier": tok(o.identifier)}
        if kind == "contour":
            return {"clockwise": 1 if o.clockwise else 0, "_identifier": tok(o.identifier)}
        if kind == "layer":
            return {"_name": tok(o.name), "_color": tok(o.color), "keys": self.names_list(o.keys(), sort=True)}
        if kind == "layers":
            return {"default": tok(None if o.defaultLayer is None else o.defaultLayer.name),
                    "order": self.names_list(o.layerOrder), "names": self.names_list(o.layerOrder, sort=True)}
        if kind == "font":
            return {"glyphOrder": tok(o.lib.get("public.glyphOrder")), "guidelines": self.objs_list(o.guidelines)}
        if kind == "features":
            return {"_text": tok(o.text)}
        if kind == "images":
            # `sched`: the names deleted since the last save (peek: no public API shows them)
            return {"names": self.names_list(o.fileNames, sort=True),
                    "sched": self.names_list(list(o._scheduledForDeletion.keys()), sort=True)}
        raise KeyError(kind)

    def keyed_store(self, kind, o, key):
        if kind == "info":
            return {key: self.tok(getattr(o, key))}
        return {repr(key): self.tok(o[key] if key in o else None)}

    # -- before / after ----------------------------------------------------------------------------

    def entry_of(self, op, details):
        from props.c08 import op_name
        name = op_name(op)
        if name == "Glyph.unicode=":
            name = "Glyph.unicodes="
        if op[0] == "call" and "method" in details and op[1][0] in ("glyph", "font") and details["method"] != op[2]:
            name = ("Glyph." if op[1][0] == "glyph" else "Font.") + details["method"]
        return name if name in ENTRY_NAMES else None

    def before(self, op, details):
        """called after planning, before the call: reads only"""
        if self.w.user_holds or op[0] in ("hold", "release", "save", "touch"):
            return None
        entry = self.entry_of(op, details)
        if entry is None:
            return None
        kind = op[1][0]
        o = details["target"]
        ctx = dict(entry=entry, kind=kind, target=o, key="")
        try:
            if kind in ("info", "lib", "glib", "llib", "kerning", "groups"):
                key = op[2]
                if kind == "kerning":
                    key = tuple(key)
                ctx["rawkey"] = key
                ctx["key"] = key if kind == "info" else repr(key)
                ctx["kind"] = "info" if kind == "info" else "dict"
                ctx["pre"] = self.keyed_store(ctx["kind"], o, key)
            else:
                ctx["pre"] = self.store_of(kind, o)
            ctx["args"] = self.args_before(op, details, ctx)
        except Unmodelled:
            return None
        except Exception as e:      # a getter that raises on this state (undrawable contour, ...): not modelled
            ctx["unmodelled"] = "%s: %s" % (type(e).__name__, e)
            return None
        return ctx

    def args_before(self, op, d, ctx):
        entry, o = ctx["entry"], ctx["target"]
        num, tok = self.num, self.tok
        if op[0] == "set":
            attr, v = op[2], d["value"]
            if entry == "Glyph.unicodes=":
                if attr == "unicode":
                    v = [] if v is None else [v]
                return [self.ilist(v)]
            if entry in ("Glyph.width=", "Glyph.height=", "Glyph.verticalOrigin=") or attr.endswith("Margin"):
                return [num(v)]
            if entry == "Glyph.markColor=":
                return [tok(self.color(v))]
            if entry == "Glyph.image=None":
                return [NONE, tok(CLEARED_IMAGE)]
            if entry in ("Glyph.anchors=", "Glyph.guidelines=", "Font.guidelines="):
                return None     # the new objects exist only afterwards
            if entry.endswith(".identifier="):
                return [tok(v), 1 if (v is not None and v in o.identifiers) else 0]
            if attr == "color":
                return [tok(self.color(v))]
            if attr in ("x", "y", "angle"):
                return [num(v)]
            if attr == "transformation":
                return [self.ilist(v)]
            if entry == "Contour.clockwise=":
                return [1 if v else 0, 1 if o.getRepresentation("defcon.contour.area") == 0 else 0]
            if entry == "Layer.name=":
                return [tok(str(v))]
            if entry == "LayerSet.defaultLayer=":
                return [tok(v.name)]
            if entry == "LayerSet.layerOrder=":
                bad = not (len(v) == len(o.layerOrder) and set(v) == set(o.layerOrder))
                return [self.names_list(v), 1 if bad else 0]
            if entry == "Font.glyphOrder=":
                return [tok(v), 1 if (v is None or len(v) == 0) else 0]
            if entry == "Info.<attr>=":
                from fontTools import ufoLib
                default = type(o)._properties[attr][1]
                bad = v is not None and not ufoLib.validateFontInfoVersion3ValueForAttribute(attr, v)
                return [tok(v), tok(default), 1 if bad else 0]
            return [tok(v)]
        if op[0] == "setitem":
            if entry == "ImageSet.__setitem__":
                from defcon.objects.imageSet import _makeDigest
                name, data = d["key"], d["value"]
                sched = name in o._scheduledForDeletion          # peek
                same = False
                if sched:
                    same = o._scheduledForDeletion[name].get("digest") == _makeDigest(data)
                elif name in o.fileNames:
                    same = hashlib.md5(o[name]).digest() == hashlib.md5(data).digest()
                return [tok(name), 0, 1 if same else 0]
            return [tok(d["value"])]
        if op[0] == "delitem":
            return [tok(d["key"])]
        if op[0] == "call":
            m = d["method"]
            if m.startswith("insert") and m != "insertGlyph":
                if "obj" not in d:
                    return None      # created inside the call from a dict
                x = d["obj"]
                owner = o
                kind = d["kind"]
                cont = list(o) if kind == "contour" else o.guidelines if kind == "fguideline" else getattr(o, kind + "s")
                member = any(y is x for y in cont)
                parent = x.font if kind == "fguideline" else x.glyph
                bad = member or parent not in (owner, None)
                if kind == "guideline" and x.glyph is None and x.font is not None:
                    bad = True
                if kind == "fguideline" and x.font is None and x.glyph is not None:
                    bad = True
                if parent is None and not bad:
                    ids = [x.identifier] + ([p.identifier for p in x] if kind == "contour" else [])
                    ids = [i for i in ids if i is not None]
                    if any(i in owner.identifiers for i in ids) or len(set(ids)) != len(ids):
                        bad = True
                return [d["index"], self.obj(x), 1 if bad else 0]
            if m.startswith("remove"):
                return [self.obj(d["obj"])]
            if m == "decomposeComponent":
                return None
            if m in ("clear",):
                return [tok(CLEARED_IMAGE)]
            if m == "move":
                return [num(op[3]), num(op[4])]
            if m == "reverse":
                return [1 if o.getRepresentation("defcon.contour.area") == 0 else 0]
            if m in ("newGlyph", "insertGlyph"):
                return [tok(d["name"])]
            if m in ("copyDataFromGlyph",):
                return None
            return []
        raise Unmodelled(op)

    def after(self, op, ctx, status, details, events):
        """returns (model line, implementation output)"""
        if ctx is None or status == "skip":
            return SKIP, SKIP
        entry, o, kind = ctx["entry"], ctx["target"], ctx["kind"]
        if status.startswith("err") and entry in COMPOSITE:
            # a composite stopped half way by a rejected element is not modelled (and leaks its hold, see World.do)
            return SKIP, SKIP
        names = ENTRY_NAMES[entry]
        try:
            if kind in ("info", "dict"):
                post = self.keyed_store(kind, o, ctx["rawkey"])
            else:
                post = self.store_of(kind, o)
            args = ctx["args"]
            if args is None:
                args = self.args_after(op, details, ctx, post, status)
            evs = []
            for ev in events:
                if ev.sender is not o or ev.name not in names:
                    continue
                evs.append(self.enc_event(ev, entry, kind))
        except Unmodelled:
            return SKIP, SKIP
        except Exception:
            return SKIP, SKIP
        line = [Atom("run"), entry, ctx["key"], args, self.enc_store(ctx["pre"], False, entry), list(names)]
        out = [Atom("raised") if status.startswith("err") else Atom("ok"), evs, self.enc_store(post, True, entry)]
        return line, out

    def args_after(self, op, d, ctx, post, status):
        entry, o = ctx["entry"], ctx["target"]
        pre = ctx["pre"]

        def fresh(field):
            return [Atom("l")] + [t for t in post[field][1:] if t not in pre[field][1:]]
        if entry == "Glyph.anchors=":
            return [fresh("anchors")]
        if entry in ("Glyph.guidelines=", "Font.guidelines="):
            return [fresh("guidelines")]
        if entry == "Glyph.copyDataFromGlyph":
            return [fresh("guidelines"), fresh("anchors")]
        if entry == "Glyph.decomposeComponent":
            return [self.obj(d["obj"]), fresh("contours")]
        if entry.startswith("Glyph.insert") or entry == "Font.insertGuideline":
            # inserted from a dict: the object is created inside the call; a duplicate identifier is
            # rejected by the constructor before anything is announced
            field = {"Glyph.insertAnchor": "anchors", "Glyph.insertGuideline": "guidelines",
                     "Font.insertGuideline": "guidelines"}[entry]
            new = fresh(field)
            if status.startswith("err"):
                return [d["index"], 999999, 1]
            return [d["index"], new[1] if len(new) > 1 else 999999, 0]
        raise Unmodelled(entry)

    def enc_store(self, s, as_set, entry=None):
        keep = entry_fields(entry) if entry else None
        items = [[k, v] for k, v in sorted(s.items()) if v is not NONE and v != NONE and (keep is None or k in keep)]
        return ([Atom("set")] + items) if as_set else items

    def enc_event(self, ev, entry, kind):
        n = ev.name
        sj = NONE
        if ev.subject is not None and not (n.startswith("Info.") or n.startswith("Lib.") or n.startswith("Kerning.")
                                           or n.startswith("Groups.")):
            sj = self.tok(ev.subject) if isinstance(ev.subject, str) else self.obj(ev.subject)
        enc = self.value_encoder(n)
        old = enc(ev.old) if ev.has_payload else Atom("-")
        new = enc(ev.new) if ev.has_payload else Atom("-")
        if n == "Font.GlyphOrderChanged":
            now = enc(ev.raw)
        elif ev.has_payload:
            now = enc(ev.now)
        elif isinstance(ev.obs, bool):
            now = 1 if ev.obs else 0
        elif isinstance(ev.obs, list):
            now = self.objs_list(ev.obs)
        elif n.startswith("Glyph.Image"):
            now = self.tok(ev.obs)
        elif n == "LayerSet.DefaultLayerWillChange":
            now = self.tok(ev.obs)
        elif n == "LayerSet.LayersChanged":
            now = self.names_list(ev.sender.layerOrder)
        elif n == "Contour.PointsChanged":
            now = 1 if ev.sender.clockwise else 0
        elif ev.obs is None:
            now = NONE
        else:
            raise Unmodelled(n)
        return [n, sj, old, new, now]

    def value_encoder(self, name):
        num, tok = self.num, self.tok
        attr = name.split(".")[1]
        if name in ("Glyph.WidthChanged", "Glyph.HeightChanged", "Glyph.VerticalOriginChanged") or "Margin" in attr:
            return num
        if name == "Glyph.UnicodesChanged":
            return self.ilist
        if attr in ("XChanged", "YChanged", "AngleChanged"):
            return num
        if attr == "TransformationChanged":
            return self.ilist
        if attr in ("ColorChanged", "MarkColorChanged"):
            return lambda v: tok(None if v is None else str(v))
        if name == "Contour.WindingDirectionChanged":
            return lambda v: 1 if v else 0
        if name == "LayerSet.LayerOrderChanged":
            return self.names_list
        return tok


# ---------------------------------------------------------------------------------------------------
# M-Follow: components and the glyph filed under their base name
# ---------------------------------------------------------------------------------------------------

FOLLOW_POSTED = "Component.BaseGlyphDataChanged"


def _outline(glyph):
    return (tuple(tuple((p.x, p.y, p.segmentType, bool(p.smooth)) for p in c) for c in glyph._contours),
            tuple((k.baseGlyph, tuple(k.transformation)) for k in glyph.components))


def _follow_layer(self, op):
    k = op[1][0] if len(op) > 1 and isinstance(op[1], list) else None
    if k == "layer":
        return self.w.layer_at(op[1][1])
    if k in ("glyph", "contour", "component"):
        return self.w.layer_at(op[1][1])
    return None


def _follow_state(self, layer):
    """the layer as M-Follow sees it; None when part of it is not loaded (reading it would load it)"""
    if set(layer.keys()) != set(layer._glyphs.keys()):           # peek: glyphs that were never loaded
        return None
    filed, data, comps, objs = [], [], [], {}
    glyphs = sorted(layer._glyphs.items())
    for name, g in glyphs:
        if g._shallowLoadedContours is not None:                  # peek: contours not loaded yet
            return None
        filed.append([name, self.obj(g)])
        data.append([self.obj(g), self.tok(_outline(g))])
    for name, g in glyphs:
        for c in g.components:
            if c.baseGlyph is None:
                continue
            waits = layer.hasObserver(c, "Layer.GlyphDeleted")
            follows = layer.hasObserver(c, "Layer.GlyphWillBeDeleted")
            watched = [x for _, x in glyphs if x.hasObserver(c, "Glyph.NameChanged")]
            if waits and not follows and not watched:
                watch = Atom("layer")
            elif follows and not waits and len(watched) <= 1:
                watch = [Atom("g"), self.obj(watched[0]) if watched else 0]
            else:
                watch = Atom("mixed")       # not a state of the model: the driver answers bad-op
            comps.append([self.obj(c), c.baseGlyph, watch])
            objs[self.obj(c)] = c
    return dict(filed=filed, data=data, comps=comps, objs=objs)


def follow_before(self, op, details):
    if self.w.user_holds or op[0] in ("hold", "release", "save", "touch"):
        return None
    try:
        layer = _follow_layer(self, op)
        if layer is None:
            return None
        st = _follow_state(self, layer)
        if st is None:
            return None
        st["layer"] = layer
        tgt = details.get("target")
        if op[0] == "set" and op[1][0] == "glyph" and op[2] == "name":
            st["old"] = tgt.name
        if op[0] == "set" and op[1][0] == "component" and op[2] == "baseGlyph":
            st["oldbase"] = tgt.baseGlyph
        return st
    except Exception:
        return None


def follow_after(self, op, st, status, details, events):
    """(model line, implementation output) or None when M-Follow has nothing to say about the operation"""
    if st is None or status != "ok":
        return None
    try:
        layer = st["layer"]
        post = _follow_state(self, layer)
        if post is None:
            return None
        k, tk = op[0], op[1][0]
        before = {c[0]: c[1] for c in st["comps"]}
        after = {c[0]: c[1] for c in post["comps"]}
        line = None
        if k == "set" and tk == "glyph" and op[2] == "name":
            if after == before:
                line = [Atom("rename"), st["old"], details["value"]]
        elif k == "call" and tk == "layer" and op[2] in ("newGlyph", "insertGlyph"):
            g = layer._glyphs.get(details["name"])
            if after == before and g is not None:
                line = [Atom("new"), details["name"], self.obj(g), self.tok(_outline(g))]
        elif k == "delitem" and tk == "layer":
            if after == before:
                line = [Atom("del"), details["key"]]
        elif k == "call" and tk == "glyph" and details.get("method") == "insertComponent":
            c = self.obj(details["obj"])
            if c in after and c not in before and {x: b for x, b in after.items() if x != c} == before:
                line = [Atom("addComp"), c, after[c]]
        elif k == "call" and tk == "glyph" and details.get("method") == "removeComponent":
            c = self.obj(details["obj"])
            if c in before and c not in after and {x: b for x, b in before.items() if x != c} == after:
                line = [Atom("removeComp"), c]
        elif k == "set" and tk == "component" and op[2] == "baseGlyph":
            c = self.obj(details["target"])
            if c in before and c in after and set(before) == set(after) and \
                    all(after[x] == before[x] for x in after if x != c):
                line = [Atom("setBase"), c, after[c]]
        if line is None and after == before and post["filed"] == st["filed"]:
            # anything else: an edit of ONE glyph's outline
            changed = [(o, d) for (o, d), (o0, d0) in zip(post["data"], st["data"]) if d != d0]
            if len(changed) == 1:
                line = [Atom("edit"), changed[0][0], changed[0][1]]
        if line is None:
            return None
        mine = set(before) | set(after)
        posted = sorted({self.obj(e.sender) for e in events if e.name == FOLLOW_POSTED and not e.error
                         and id(e.sender) in self.objs and self.objs[id(e.sender)] in mine})
        mline = [Atom("follow"), line, st["filed"], st["data"], st["comps"]]
        out = [[Atom("set")] + posted, [Atom("set")] + post["comps"]]
        return mline, out
    except Exception:
        return None


Adaptor.follow_before = follow_before
Adaptor.follow_after = follow_after


# ---------------------------------------------------------------------------------------------------
# M-OrderNotify: Font.GlyphOrderChanged on explicit and implicit updates of the glyph order
# ---------------------------------------------------------------------------------------------------

ORDER_POSTED = "Font.GlyphOrderChanged"


def _optnames(v):
    from sexp import opt
    return opt(None if v is None else [str(x) for x in v])


def _order_state(font):
    """the font as M-GlyphOrder sees it: the stored order (None = key absent) and the glyph names of each layer"""
    lib = font.lib.get("public.glyphOrder")
    if lib is not None and not all(isinstance(x, str) for x in lib):
        return None
    layers = [[ln, sorted(font.layers[ln].keys())] for ln in font.layers.layerOrder]
    dl = font.layers.defaultLayer
    default = dl.name if dl is not None and dl.name in font.layers and font.layers[dl.name] is dl else None
    return dict(lib=None if lib is None else list(lib), layers=layers, default=default)


def order_before(self, op, details):
    """the operation as M-GlyphOrder names it, and the font's state before it; None = not an operation of the model"""
    if self.w.user_holds or op[0] not in ("set", "call", "delitem"):
        return None
    try:
        font = self.w.font
        k, tk = op[0], op[1][0]
        tgt = details.get("target")
        mop = None
        if k == "set" and tk == "glyph" and op[2] == "name":
            if tgt.layer is None or not isinstance(details["value"], str):
                return None
            mop = [Atom("rename"), tgt.layer.name, tgt.name, details["value"]]
        elif k == "call" and tk == "layer" and op[2] in ("newGlyph", "insertGlyph"):
            mop = [Atom(op[2]), tgt.name, details["name"]]
        elif k == "call" and tk == "font" and op[2] == "newGlyph":
            mop = [Atom("fontNewGlyph"), op[3]]
        elif k == "delitem" and tk == "layer":
            mop = [Atom("delGlyph"), tgt.name, details["key"]]
        elif k == "set" and tk == "font" and op[2] == "glyphOrder":
            v = details["value"]
            if v is not None and not all(isinstance(x, str) for x in v):
                return None
            mop = [Atom("setOrder"), _optnames(v)]
        if mop is None:
            return None
        st = _order_state(font)
        if st is None:
            return None
        st["op"] = mop
        return st
    except Exception:
        return None


def order_after(self, op, st, status, events):
    """(model line, implementation output): the deliveries of Font.GlyphOrderChanged and the stored order afterwards"""
    if st is None or status != "ok":
        return None
    try:
        font = self.w.font
        evs = []
        for e in events:
            if e.name == ORDER_POSTED and e.sender is font and not e.error and e.has_payload:
                evs.append([_optnames(e.old), _optnames(e.new), _optnames(e.raw)])
        post = _order_state(font)
        if post is None:
            return None
        from sexp import opt
        line = [Atom("order"), st["op"], _optnames(st["lib"]), st["layers"], opt(st["default"])]
        return line, [evs, _optnames(post["lib"])]
    except Exception:
        return None


# ---------------------------------------------------------------------------------------------------
# M-Geom as C08 reads it: the direction of a contour before and after reverse() / clockwise = v
# ---------------------------------------------------------------------------------------------------

def _points(contour):
    """the points of a contour made of move / line points with integer coordinates (where AreaPen's float arithmetic
    is exact); None otherwise"""
    from sexp import opt
    pts = []
    for p in contour:
        if p.segmentType not in ("move", "line"):
            return None
        x, y = p.x, p.y
        if x != int(x) or y != int(y):
            return None
        pts.append([int(x), int(y), Atom(p.segmentType), bool(p.smooth), opt(p.name), opt(p.identifier)])
    return pts


def winding_before(self, op, details):
    if self.w.user_holds or len(op) < 3 or not isinstance(op[1], list) or op[1][0] != "contour":
        return None
    try:
        c = details["target"]
        if op[0] == "call" and op[2] == "reverse":
            mop = Atom("reverse")
        elif op[0] == "set" and op[2] == "clockwise":
            mop = [Atom("set"), bool(details["value"])]
        else:
            return None
        pts = _points(c)
        if pts is None:
            return None
        return dict(op=mop, pts=pts, cw=bool(c.clockwise), zero=c.getRepresentation("defcon.contour.area") == 0)
    except Exception:
        return None


def winding_after(self, op, st, status, details):
    if st is None or status != "ok":
        return None
    try:
        c = details["target"]
        after = _points(c)
        if after is None:
            return None
        return [Atom("winding"), st["op"], st["pts"]], [st["cw"], st["zero"], bool(c.clockwise), after]
    except Exception:
        return None


Adaptor.order_before = order_before
Adaptor.order_after = order_after
Adaptor.winding_before = winding_before
Adaptor.winding_after = winding_after
