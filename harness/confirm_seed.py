#!/venv/bin/python
"""confirm_seed.py <src_dir> <seed_id> <Cxx> : confirm a seeded fault in a scratch worktree and keep it.

Confirms: patch applies to /repo HEAD; full test suite still passes with it; demo.py fails with it and passes
without it.  Then runs `./check Cxx` (quick) against /repo with the patch applied (and undoes it) and records the
outcome.  Keeps patch.diff, demo.py, notes.md, meta.json under /verif/seeded/<seed_id>/.
"""
import json, os, shutil, subprocess, sys, time

src, sid, prop = sys.argv[1], sys.argv[2], sys.argv[3]
WT = "/tmp/seed/confirm_%d" % os.getpid()
VERIF = "/verif"

def sh(cmd, cwd=None, env=None):
    p = subprocess.run(cmd, shell=True, cwd=cwd, env=env, stdout=subprocess.PIPE, stderr=subprocess.STDOUT, text=True)
    return p.returncode, p.stdout

sh("git -C /repo worktree remove --force %s" % WT)
rc, out = sh("git -C /repo worktree add -q --detach %s HEAD" % WT)
assert rc == 0, out
env = dict(os.environ, PYTHONPATH=WT + "/Lib", PYTHONWARNINGS="ignore")
meta = dict(seed_id=sid, property=prop, repo_head=sh("git -C /repo rev-parse --short HEAD")[1].strip())
try:
    patch = os.path.abspath(os.path.join(src, "patch.diff"))
    demo = os.path.abspath(os.path.join(src, "demo.py"))
    rc0, o0 = sh("/venv/bin/python %s" % demo, cwd=WT, env=env)
    rc, o = sh("git apply %s" % patch, cwd=WT)
    assert rc == 0, "patch does not apply: " + o
    rct, ot = sh("/venv/bin/python -m pytest -q -p no:cacheprovider 2>&1 | tail -1", cwd=WT, env=env)
    rc1, o1 = sh("/venv/bin/python %s" % demo, cwd=WT, env=env)
    meta.update(demo_clean_exit=rc0, demo_mutated_exit=rc1, tests_with_patch=ot.strip(),
                demo_mutated_tail=o1.strip().split("\n")[-1][:300])
    ok = rc0 == 0 and rc1 != 0 and "396 passed" in ot and "failed" not in ot
    meta["confirmed"] = ok
finally:
    sh("git -C /repo worktree remove --force %s" % WT)
if not meta.get("confirmed"):
    print("NOT CONFIRMED", json.dumps(meta, indent=1))
    sys.exit(1)
# run the check against /repo with the patch applied
assert sh("git -C /repo status --porcelain")[1].strip() == "", "/repo not clean"
rc, o = sh("git -C /repo apply %s" % patch)
assert rc == 0, o
try:
    t = time.time()
    rcq, oq = sh("./check %s --tier quick 2>/dev/null | tail -3" % prop, cwd=VERIF)
    line = [l for l in oq.split("\n") if l.startswith("VIOLATION")]
    meta["check_quick"] = dict(detected=bool(line), line=line[0] if line else oq.strip().split("\n")[-1][:300],
                               seconds=round(time.time() - t, 1))
finally:
    sh("git -C /repo checkout -- .")
    # tables regenerated from the mutated source must not stay behind
    sh("git -C /verif checkout -- lean/DefconModel/Gen")
    # the evidence file must describe the unchanged tree again
    sh("./check %s --tier quick" % prop, cwd=VERIF)
notes = os.path.join(src, "notes.md")
meta["needs"] = open(notes).read()[:1500] if os.path.exists(notes) else ""
meta["ran"] = ["git apply patch.diff (scratch worktree of /repo HEAD)", "pytest -q -p no:cacheprovider (396 passed)",
               "demo.py with patch: non-zero exit; without: exit 0", "./check %s --tier quick on /repo with patch applied, then git checkout -- ." % prop]
dst = os.path.join(VERIF, "seeded", sid)
os.makedirs(dst, exist_ok=True)
shutil.copy(patch, dst + "/patch.diff")
shutil.copy(demo, dst + "/demo.py")
if os.path.exists(notes):
    shutil.copy(notes, dst + "/notes.md")
json.dump(meta, open(dst + "/meta.json", "w"), indent=1)
print(sid, "confirmed; detected by quick check:", meta["check_quick"]["detected"])
