"""Writes harness/corpus/C18/layer_save.json: hand-made histories about ONE layer's in-place save (run before the generated
cases on every check).  They make the recorded instances of F19 / F134 reproducible in every run and pin the scenario of
the round-3 seed C18-8 (a deleted on-disk glyph and a glyph that cannot be written in the same layer).

    /venv/bin/python harness/mkcorpus_c18.py
"""
import json
import os
import random
import sys

HERE = os.path.dirname(os.path.abspath(__file__))
sys.path.insert(0, HERE)
import fontgen as fg


def base_spec():
    rng = random.Random(1808)
    imgs = {}
    glyphs = {gn: fg.gen_glyph(rng, gn, imgs) for gn in ["B", "C", "D", "E"]}
    back = {gn: fg.gen_glyph(rng, gn, imgs) for gn in ["B", "D"]}
    return {"layers": [{"name": "public.default", "color": None, "lib": {}, "glyphs": glyphs},
                       {"name": "back", "color": "1,0,0,1", "lib": {"com.a.k1": 3}, "glyphs": back}],
            "default": "public.default", "info": {"familyName": "Corpus"}, "guidelines": [], "kerning": {"B|D": -20},
            "groups": {}, "features": None, "lib": {"com.a.k1": 1}, "images": {}, "data": {}}


def case(ops, cfaults, after=None, mode="inplace"):
    return dict(spec=base_spec(), structure="package", origin="disk", preread=[], preread_glyphs=[],
                ops=ops + [["save", mode, "package"]], cfaults=cfaults, after=after or [])


L = "public.default"
CASES = [
    # a NEW glyph that sorts first, a changed glyph, two on-disk glyphs deleted; glyph B cannot be written
    case([["gnew", L, "A"], ["gfield", L, "B", "width", 222], ["gdel", L, "C"], ["gdel", L, "E"]],
         [["glyph", L, "B", "lib"], ["glyph", L, "D", "anchor"], ["layerlib", L]]),
    # the same without a new glyph: every failure before the deletions is harmless (failed_layer_save_keeps_schedule)
    case([["gfield", L, "B", "width", 222], ["gfield", L, "D", "width", 444], ["gdel", L, "C"], ["gdel", L, "E"]],
         [["glyph", L, "B", "lib"], ["glyph", L, "D", "width"], ["fontlib"], ["kerning"]]),
    # a new glyph, no deletion
    case([["gnew", L, "A"], ["gfield", L, "D", "width", 444]],
         [["glyph", L, "D", "markcolor"], ["features"], ["groups"]]),
    # a glyph renamed away (its old file is scheduled for deletion, the new name is a new file), edits after the failure
    case([["grename", L, "C", "A"], ["gfield", L, "D", "width", 444], ["gdel", "back", "B"]],
         [["glyph", L, "D", "lib"], ["layerlib", "back"]],
         after=[["gfield", L, "E", "width", 5], ["gdel", L, "B"]]),
    # the same history saved to a new path (pending deletions are skipped, and forgotten, by a save-as)
    case([["gnew", L, "A"], ["gfield", L, "B", "width", 222], ["gdel", L, "C"]],
         [["glyph", L, "B", "lib"]], mode="new"),
]

if __name__ == "__main__":
    out = os.path.join(HERE, "corpus", "C18", "layer_save.json")
    with open(out, "w") as f:
        json.dump({"note": __doc__.split("\n\n")[0], "cases": CASES}, f, indent=1, sort_keys=True)
        f.write("\n")
    print(out, len(CASES))
