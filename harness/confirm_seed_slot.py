#!/venv/bin/python
"""confirm_seed_slot.py <src_dir> <seed_id> <Cxx> <slot> [--keep-only-if-confirmed]

Like confirm_seed.py, but never touches /repo's working tree or /verif's build: everything runs in the scratch
slot /tmp/cs/<slot>/ (a copy of /verif as it is now, build output included, and a worktree of /repo HEAD), the check
being pointed at the worktree through DEFCON_REPO.  Several slots can run side by side.  Writes
/verif/seeded/<seed_id>/ (patch.diff, demo.py, notes.md, meta.json) when the seed is confirmed.
"""
import json, os, shutil, subprocess, sys, time

src, sid, prop, slot = sys.argv[1:5]
S = "/tmp/cs/%s" % slot
WT = S + "/repo"
V = S + "/verif"


def sh(cmd, cwd=None, env=None, timeout=1800):
    p = subprocess.run(cmd, shell=True, cwd=cwd, env=env, stdout=subprocess.PIPE, stderr=subprocess.STDOUT, text=True,
                       timeout=timeout)
    return p.returncode, p.stdout


os.makedirs(S, exist_ok=True)
rc, o = sh("rsync -a --delete --exclude evidence/replays /verif/ %s/" % V)
assert rc == 0, o
head = sh("git -C /repo rev-parse HEAD")[1].strip()
if not os.path.isdir(WT) or sh("git -C %s rev-parse HEAD" % WT)[1].strip() != head:
    sh("git -C /repo worktree remove --force %s" % WT)
    rc, o = sh("git -C /repo worktree add -q --detach %s HEAD" % WT)
    assert rc == 0, o
sh("git checkout -q -- . && git clean -qfd", cwd=WT)
env = dict(os.environ, PYTHONPATH=WT + "/Lib", PYTHONWARNINGS="ignore")
meta = dict(seed_id=sid, property=prop, repo_head=head[:7])
patch = os.path.abspath(os.path.join(src, "patch.diff"))
demo = os.path.abspath(os.path.join(src, "demo.py"))
try:
    rc0, o0 = sh("/venv/bin/python %s" % demo, cwd=WT, env=env)
    rc, o = sh("git apply %s" % patch, cwd=WT)
    assert rc == 0, "patch does not apply: " + o
    rct, ot = sh("/venv/bin/python -m pytest -q -p no:cacheprovider 2>&1 | tail -n 1", cwd=WT, env=env)
    rc1, o1 = sh("/venv/bin/python %s" % demo, cwd=WT, env=env)
    meta.update(demo_clean_exit=rc0, demo_mutated_exit=rc1, tests_with_patch=ot.strip(),
                demo_mutated_tail=o1.strip().split("\n")[-1][:300])
    meta["confirmed"] = rc0 == 0 and rc1 != 0 and "396 passed" in ot and "failed" not in ot
    if meta["confirmed"]:
        t = time.time()
        cenv = dict(os.environ, DEFCON_REPO=WT)
        rcq, oq = sh("./check %s --tier quick 2>/dev/null | tail -n 3" % prop, cwd=V, env=cenv)
        line = [l for l in oq.split("\n") if l.startswith("VIOLATION")]
        meta["check_quick"] = dict(detected=bool(line), line=line[0] if line else oq.strip().split("\n")[-1][:300],
                                   seconds=round(time.time() - t, 1))
finally:
    sh("git checkout -q -- . && git clean -qfd", cwd=WT)
if not meta.get("confirmed"):
    print(sid, "NOT CONFIRMED", json.dumps(meta))
    sys.exit(1)
notes = os.path.join(src, "notes.md")
meta["needs"] = open(notes).read()[:1500] if os.path.exists(notes) else ""
meta["ran"] = ["git apply patch.diff (scratch worktree of /repo HEAD)", "pytest -q -p no:cacheprovider (396 passed)",
               "demo.py with patch: non-zero exit; without: exit 0",
               "./check %s --tier quick with DEFCON_REPO = the scratch worktree with the patch applied (copy of /verif)" % prop]
dst = os.path.join("/verif", "seeded", sid)
os.makedirs(dst, exist_ok=True)
shutil.copy(patch, dst + "/patch.diff")
shutil.copy(demo, dst + "/demo.py")
if os.path.exists(notes):
    shutil.copy(notes, dst + "/notes.md")
json.dump(meta, open(dst + "/meta.json", "w"), indent=1)
print(sid, "confirmed; detected by quick check:", meta["check_quick"]["detected"], "|", meta["check_quick"]["line"][:160])
