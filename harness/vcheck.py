#!/venv/bin/python
"""Orchestration of one property check (see DESIGN.md section 2.4).

  vcheck.py <Cxx> [--tier quick|thorough] [--seed N] [--replay FILE]

exit 0: property held on everything explored (KNOWN-FINDING lines possible)
exit 1: `VIOLATION property=<id> replay=<path>[ no-failing-input-found]`
exit 2: broken machinery (toolchain, forbidden construct, unexpected axiom, harness crash)
"""
import argparse
import fcntl
import hashlib
import importlib
import json
import multiprocessing
import os
import random
import re
import shutil
import subprocess
import sys
import tempfile
import time
import traceback

HERE = os.path.dirname(os.path.abspath(__file__))
VERIF = os.path.dirname(HERE)
LEAN_DIR = os.path.join(VERIF, "lean")
REPO = os.environ.get("DEFCON_REPO", "/repo")
sys.path.insert(0, HERE)
sys.path.insert(0, os.path.join(REPO, "Lib"))
os.environ.setdefault("PYTHONWARNINGS", "ignore")
import warnings  # noqa: E402

warnings.filterwarnings("ignore")
import logging  # noqa: E402

logging.disable(logging.CRITICAL)

import sexp  # noqa: E402

ALLOWED_AXIOMS = {"propext", "Classical.choice", "Quot.sound"}
FORBIDDEN = re.compile(
    r"\bsorry\b|\badmit\b|^\s*axiom\s|native_decide|bv_decide|implemented_by|\bunsafe\s|maxHeartbeats\s+0\b"
)
NCPU = min(16, os.cpu_count() or 1)


class Broken(Exception):
    """machinery failure -> exit 2"""


def log(*a):
    print(*a, flush=True)


# ----------------------------------------------------------------------------------------
# Lean side
# ----------------------------------------------------------------------------------------

class lean_lock:
    def __enter__(self):
        os.makedirs(os.path.join(LEAN_DIR, ".lake"), exist_ok=True)
        self.f = open(os.path.join(LEAN_DIR, ".lake", "verif.lock"), "w")
        fcntl.flock(self.f, fcntl.LOCK_EX)

    def __exit__(self, *a):
        fcntl.flock(self.f, fcntl.LOCK_UN)
        self.f.close()


def lake(args, timeout=1500):
    p = subprocess.run(["lake"] + args, cwd=LEAN_DIR, stdout=subprocess.PIPE,
                       stderr=subprocess.STDOUT, text=True, timeout=timeout)
    return p.returncode, p.stdout


def strip_comments(src):
    # nested block comments /- ... -/ and line comments --
    out = []
    i, depth, n = 0, 0, len(src)
    while i < n:
        if src.startswith("/-", i):
            depth += 1
            i += 2
        elif depth and src.startswith("-/", i):
            depth -= 1
            i += 2
        elif depth:
            if src[i] == "\n":
                out.append("\n")
            i += 1
        elif src.startswith("--", i):
            while i < n and src[i] != "\n":
                i += 1
        else:
            out.append(src[i])
            i += 1
    return "".join(out)


def lean_sources():
    res = []
    for root, dirs, files in os.walk(LEAN_DIR):
        dirs[:] = [d for d in dirs if d != ".lake"]
        for f in files:
            if f.endswith(".lean"):
                res.append(os.path.join(root, f))
    return sorted(res)


def grep_forbidden():
    hits = []
    for path in lean_sources():
        src = strip_comments(open(path).read())
        for ln, line in enumerate(src.split("\n"), 1):
            if FORBIDDEN.search(line):
                hits.append("%s:%d: %s" % (os.path.relpath(path, VERIF), ln, line.strip()))
    return hits


# property theorems that live outside Props/<prop>.lean because they IMPORT it (layering results obtained from the
# property's theorems through a refinement): (module, namespace, file under lean/)
EXTRA_PROPS = {
    "C02": [("DefconModel.Link.DirtyNotifyProps", "DefconModel.Link", os.path.join("DefconModel", "Link", "DirtyNotifyProps.lean"))],
}


def props_theorems(prop):
    """names of the theorems stated in Props/<prop>.lean (namespace DefconModel.Props.<prop>) and in the extra
    property modules registered for it"""
    paths = [os.path.join(LEAN_DIR, "DefconModel", "Props", prop + ".lean")]
    paths += [os.path.join(LEAN_DIR, x[2]) for x in EXTRA_PROPS.get(prop, [])]
    names, examples = [], 0
    for path in paths:
        src = strip_comments(open(path).read())
        names += re.findall(r"^\s*theorem\s+([A-Za-z_][A-Za-z0-9_'.]*)", src, re.M)
        examples += len(re.findall(r"^\s*example\b", src, re.M))
    return names, examples


def audit_axioms(prop, names):
    """`#print axioms` for every property theorem; returns {theorem: [axioms]}"""
    d = os.path.join(LEAN_DIR, ".lake", "audit")
    os.makedirs(d, exist_ok=True)
    path = os.path.join(d, "Audit_%s_%d.lean" % (prop, os.getpid()))
    with open(path, "w") as f:
        f.write("import DefconModel.Props.%s\n" % prop)
        for mod, ns, _ in EXTRA_PROPS.get(prop, []):
            f.write("import %s\n" % mod)
        f.write("open DefconModel.Props.%s\n" % prop)
        for mod, ns, _ in EXTRA_PROPS.get(prop, []):
            f.write("open %s\n" % ns)
        for n in names:
            f.write("#print axioms %s\n" % n)
    try:
        rc, out = lake(["env", "lean", path])
    finally:
        os.unlink(path)
    if rc != 0:
        raise Broken("axiom audit failed to run:\n" + out[-2000:])
    res = {}
    # outputs: "'X' depends on axioms: [a, b]" or "'X' does not depend on any axioms"
    for m in re.finditer(r"'([^']+)' depends on axioms: \[([^\]]*)\]", out):
        res[m.group(1).split(".")[-1]] = [a.strip() for a in m.group(2).replace("\n", " ").split(",") if a.strip()]
    for m in re.finditer(r"'([^']+)' does not depend on any axioms", out):
        res[m.group(1).split(".")[-1]] = []
    missing = [n for n in names if n.split(".")[-1] not in res]
    if missing:
        raise Broken("axiom audit produced no line for: %s\n%s" % (missing, out[-2000:]))
    return res


def run_driver(model, case_lines, nproc=1):
    """case_lines: list (per case) of lists of S-expression strings.
    Returns list (per case) of lists of parsed outputs (canonical strings)."""
    if not case_lines:
        return []
    chunks = [[] for _ in range(max(1, min(nproc, len(case_lines))))]
    for i, c in enumerate(case_lines):
        chunks[i % len(chunks)].append((i, c))
    procs = []
    tmpd = tempfile.mkdtemp(prefix="vdrv_")
    try:
        for ci, chunk in enumerate(chunks):
            inp = os.path.join(tmpd, "in%d.sexp" % ci)
            with open(inp, "w") as f:
                f.write("(model %s)\n" % model)
                for _, lines in chunk:
                    f.write("(reset)\n")
                    for ln in lines:
                        assert "\n" not in ln
                        f.write(ln + "\n")
            fin = open(inp)
            p = subprocess.Popen(["lake", "env", "lean", "--run", "Driver.lean"], cwd=LEAN_DIR,
                                 stdin=fin, stdout=subprocess.PIPE, stderr=subprocess.PIPE, text=True)
            procs.append((p, fin, chunk))
        results = [None] * len(case_lines)
        for p, fin, chunk in procs:
            out, errtxt = p.communicate(timeout=3000)
            fin.close()
            if p.returncode != 0:
                raise Broken("Lean driver failed (model %s): %s" % (model, errtxt[-2000:]))
            lines = out.split("\n")
            if lines and lines[-1] == "":
                lines.pop()
            pos = 0
            for idx, clines in chunk:
                if pos >= len(lines) or lines[pos] != "(reset)":
                    raise Broken("driver protocol desync at case %d: %r" % (idx, lines[pos:pos + 2]))
                pos += 1
                outs = lines[pos:pos + len(clines)]
                if len(outs) != len(clines):
                    raise Broken("driver produced too few lines for case %d" % idx)
                pos += len(clines)
                results[idx] = [canon_line(x) for x in outs]
        return results
    finally:
        shutil.rmtree(tmpd, ignore_errors=True)


def canon_line(s):
    s = s.strip()
    if s in ("bad-op", "parse-error", "unknown-model"):
        return s
    try:
        return sexp.canon(sexp.loads(s))
    except Exception:
        return "unparsable:" + s


# ----------------------------------------------------------------------------------------
# Implementation side (workers)
# ----------------------------------------------------------------------------------------

_MOD = None


def _worker_init(prop):
    global _MOD
    warnings.filterwarnings("ignore")
    # defcon's __del__ methods run in arbitrary order at teardown and may raise; not our concern
    sys.unraisablehook = lambda *a: None
    import logging
    logging.disable(logging.CRITICAL)
    _MOD = importlib.import_module("props." + prop.lower())


def _worker_run(case):
    """returns dict(out=[canonical strings], viol=[records], info={...})"""
    try:
        r = _MOD.run_impl(case)
        out = [sexp.canon(x) for x in r.get("out", [])]
        return dict(out=out, viol=r.get("viol", []), info=r.get("info", {}))
    except Exception:
        return dict(out=["harness-crash"], viol=[], info={}, crash=traceback.format_exc())


def run_impl_many(prop, cases, nproc):
    if not cases:
        return []
    if nproc <= 1 or len(cases) < 4:
        _worker_init(prop)
        return [_worker_run(c) for c in cases]
    ctx = multiprocessing.get_context("fork")
    with ctx.Pool(nproc, initializer=_worker_init, initargs=(prop,)) as pool:
        return pool.map(_worker_run, cases, chunksize=max(1, len(cases) // (nproc * 8)))


# ----------------------------------------------------------------------------------------
# Known findings
# ----------------------------------------------------------------------------------------

def load_known(prop):
    path = os.path.join(VERIF, "known_findings.json")
    if not os.path.exists(path):
        return []
    data = json.load(open(path))
    return [e for e in data.get("findings", []) if e.get("property") == prop]


def classify(viols, known):
    """split violation records into (listed known findings, new violations)"""
    k_sigs = {e["signature"]: e for e in known if e.get("status") == "known"}
    listed, new = {}, []
    for v in viols:
        e = k_sigs.get(v.get("signature"))
        if e is not None:
            listed.setdefault(e["signature"], (e, v))
        else:
            new.append(v)
    return listed, new


# ----------------------------------------------------------------------------------------
# Shrinking
# ----------------------------------------------------------------------------------------

def shrink_case(mod, case, still_fails, budget_s):
    """delta debugging on case['ops'] (if the module says the op list is shrinkable)"""
    if not getattr(mod, "SHRINKABLE", True) or "ops" not in case:
        return case
    t0 = time.time()
    ops = list(case["ops"])
    n = 2
    while len(ops) >= 2 and time.time() - t0 < budget_s:
        chunk = max(1, len(ops) // n)
        reduced = False
        for i in range(0, len(ops), chunk):
            cand = ops[:i] + ops[i + chunk:]
            if not cand:
                continue
            c2 = dict(case, ops=cand)
            try:
                if still_fails(c2):
                    ops = cand
                    n = max(n - 1, 2)
                    reduced = True
                    break
            except Exception:
                pass
            if time.time() - t0 > budget_s:
                break
        if not reduced:
            if chunk == 1:
                break
            n = min(len(ops), n * 2)
    return dict(case, ops=ops)


# ----------------------------------------------------------------------------------------
# Main
# ----------------------------------------------------------------------------------------

def write_replay(prop, payload):
    d = os.path.join(VERIF, "evidence", "replays")
    os.makedirs(d, exist_ok=True)
    body = json.dumps(payload, indent=1, sort_keys=True, default=str)
    h = hashlib.sha1(body.encode()).hexdigest()[:10]
    path = os.path.join(d, "%s_%s.json" % (prop, h))
    with open(path, "w") as f:
        f.write(body)
    return os.path.relpath(path, VERIF)


def model_outputs(mod, cases, nproc):
    lines = [[sexp.dumps(x) for x in mod.model_lines(c)] for c in cases]
    return run_driver(mod.MODEL, lines, nproc)


def first_diff(a, b):
    for i, (x, y) in enumerate(zip(a, b)):
        if x != y:
            return i
    if len(a) != len(b):
        return min(len(a), len(b))
    return None


def do_replay(prop, mod, path):
    payload = json.load(open(path))
    cases = payload.get("cases") or ([payload["case"]] if "case" in payload else [])
    if not cases:
        log("replay file names a broken obligation, no executable case: %s" % payload.get("broken"))
        return 1
    _worker_init(prop)
    known = load_known(prop)
    bad = 0
    for case in cases:
        r = _worker_run(case)
        if hasattr(mod, "model_lines"):
            m = model_outputs(mod, [case], 1)[0]
        else:
            m = r["out"]
        d = first_diff(r["out"], m)
        listed, new = classify(r["viol"], known)
        log("case:", json.dumps(case)[:2000])
        if r.get("crash"):
            log("harness crash:\n" + r["crash"])
        if d is not None:
            log("model/implementation differ at step %d:\n  impl : %s\n  model: %s" % (
                d, r["out"][d] if d < len(r["out"]) else "<none>", m[d] if d < len(m) else "<none>"))
            bad += 1
        for v in new:
            log("property violated on the implementation: %s" % json.dumps(v, default=str)[:2000])
            bad += 1
        for s, (e, v) in listed.items():
            log("KNOWN-FINDING: property=%s %s" % (prop, e["what"]))
    if bad:
        log("VIOLATION property=%s replay=%s" % (prop, os.path.relpath(path, VERIF) if os.path.isabs(path) else path))
        return 1
    log("replay: nothing fails any more")
    return 0


def main():
    ap = argparse.ArgumentParser()
    ap.add_argument("prop")
    ap.add_argument("--tier", default=os.environ.get("VERIF_TIER", "quick"))
    ap.add_argument("--seed", type=int, default=int(os.environ.get("VERIF_SEED", "0") or 0))
    ap.add_argument("--replay")
    args = ap.parse_args()
    prop, tier, seed = args.prop.upper(), args.tier, args.seed
    if tier not in ("quick", "thorough"):
        tier = "quick"
    t0 = time.time()
    mod = importlib.import_module("props." + prop.lower())
    if args.replay:
        sys.exit(do_replay(prop, mod, args.replay if os.path.isabs(args.replay) else os.path.join(VERIF, args.replay)))
    try:
        rc = check(prop, mod, tier, seed, t0)
    except Broken as e:
        log("BROKEN-MACHINERY property=%s: %s" % (prop, e))
        rc = 2
    except subprocess.TimeoutExpired as e:
        log("BROKEN-MACHINERY property=%s: timeout %s" % (prop, e))
        rc = 2
    sys.exit(rc)


def check(prop, mod, tier, seed, t0):
    rng = random.Random((seed, prop, tier).__repr__())
    broken = []       # broken proof obligations / correspondences: dicts(kind, name, detail)
    nproc = NCPU

    # 1. regenerate tables from /repo, 2. build -----------------------------------------
    gen_info = {}
    with lean_lock():
        gen_changed = []
        if hasattr(mod, "extract"):
            try:
                gen_changed, gen_info = mod.extract(REPO, LEAN_DIR)
            except Exception as e:
                broken.append(dict(kind="extractor", name="extract", detail="%s: %s" % (type(e).__name__, e)))
        rc, out = lake(["build", "DefconModel.AllDrivers"])
        if rc != 0:
            if gen_changed:
                broken.append(dict(kind="obligation", name="models over regenerated tables %s" % gen_changed,
                                   detail=out[-3000:]))
            else:
                raise Broken("lake build of the models failed:\n" + out[-3000:])
        rc, out = lake(["build", "DefconModel.Props." + prop] + [x[0] for x in EXTRA_PROPS.get(prop, [])])
        props_ok = rc == 0
        if rc != 0:
            if gen_changed or any(b["kind"] == "extractor" for b in broken):
                failed = sorted(set(re.findall(r"error: ([^\n]*)", out)))
                broken.append(dict(kind="obligation", name="Props/%s.lean over regenerated tables %s" % (prop, gen_changed),
                                   detail="\n".join(failed)[:3000] + "\n" + out[-1500:]))
            else:
                raise Broken("lake build of Props/%s failed on unchanged tables:\n%s" % (prop, out[-3000:]))

    # 3. audit ---------------------------------------------------------------------------
    hits = grep_forbidden()
    if hits:
        raise Broken("forbidden construct in Lean sources:\n" + "\n".join(hits))
    names, n_examples = props_theorems(prop)
    axioms = {}
    if props_ok:
        axioms = audit_axioms(prop, names)
        bad = {n: a for n, a in axioms.items() if not set(a) <= ALLOWED_AXIOMS}
        if bad:
            raise Broken("theorems depend on axioms outside the allowed set: %s" % bad)
    extra_obl = int(gen_info.get("obligations", 0))
    obligations = len(names) + extra_obl
    discharged = obligations if props_ok else 0
    checker_cmd = "cd lean && lake build DefconModel.Props.%s && lake env lean <#print axioms of %d theorems>" % (prop, len(names))
    if tier == "thorough" and props_ok:
        with lean_lock():
            rc, out = lake(["env", "leanchecker", "DefconModel.Props." + prop] + [x[0] for x in EXTRA_PROPS.get(prop, [])],
                           timeout=3000)
        if rc != 0:
            raise Broken("leanchecker rejected DefconModel.Props.%s:\n%s" % (prop, out[-2000:]))
        checker_cmd += " && lake env leanchecker DefconModel.Props." + prop

    # 4. correspondence + 5. oracle ------------------------------------------------------
    corpus = []
    cdir = os.path.join(HERE, "corpus", prop)
    if os.path.isdir(cdir):
        for fn in sorted(os.listdir(cdir)):
            if fn.endswith(".json"):
                corpus.extend(json.load(open(os.path.join(cdir, fn))).get("cases", []))
    cases = corpus + list(mod.generate(rng, tier))
    impl = run_impl_many(prop, cases, nproc)
    crashes = [r for r in impl if r.get("crash")]
    has_model = hasattr(mod, "model_lines") and not any(b["kind"] == "obligation" and "models" in b["name"] for b in broken)
    if has_model:
        model = model_outputs(mod, cases, nproc if tier == "thorough" else min(4, nproc))
    else:
        model = [r["out"] for r in impl]
    for i, m in enumerate(model):
        bad = [x for x in m if x in ("bad-op", "parse-error", "unknown-model") or x.startswith("unparsable:")]
        if bad:
            raise Broken("driver rejected an operation of case %d (%s): %s" % (i, bad[0], json.dumps(cases[i])[:800]))

    known = load_known(prop)
    diverging = []
    all_viol = []
    seen = set()
    nontrivial = 0
    stats = {}
    for i, (case, r, m) in enumerate(zip(cases, impl, model)):
        d = first_diff(r["out"], m)
        if d is not None:
            diverging.append((i, d))
        for v in r["viol"]:
            v = dict(v)
            v["case_index"] = i
            all_viol.append(v)
        key = hashlib.sha1(json.dumps(case, sort_keys=True, default=str).encode()).hexdigest()
        info = r.get("info", {})
        for k, n in info.get("stats", {}).items():
            stats[k] = stats.get(k, 0) + n
        if key not in seen:
            seen.add(key)
            if info.get("nontrivial"):
                nontrivial += 1
    listed, new = classify(all_viol, known)
    if os.environ.get("VERIF_DUMP_SIGS"):
        # maintenance aid: every unlisted signature of this run with a count and one example (never read by a check)
        agg = {}
        for v in new:
            a = agg.setdefault(v.get("signature"), dict(count=0, example=v))
            a["count"] += 1
        with open(os.environ["VERIF_DUMP_SIGS"], "w") as f:
            json.dump(agg, f, indent=1, default=str)

    # known findings: every `known` entry must also be confirmed by its own witness replay
    known_lines = []
    for e in known:
        if e.get("status") != "known":
            continue
        confirmed = e["signature"] in listed
        if not confirmed and hasattr(mod, "replay_known"):
            _worker_init(prop)
            try:
                confirmed = bool(mod.replay_known(e))
            except Exception:
                confirmed = False
        if confirmed:
            known_lines.append("KNOWN-FINDING: property=%s %s" % (prop, e["what"]))

    replay_path = None
    verdict = "ok"
    tail = ""
    search_info = {}
    if new:
        # a violation of the property on the real code that no finding lists
        v = new[0]
        case = cases[v["case_index"]]
        sig = v.get("signature")

        def still(c2):
            r2 = _worker_run(c2)
            return any(x.get("signature") == sig for x in r2["viol"])
        _worker_init(prop)
        small = shrink_case(mod, case, still, 20 if tier == "quick" else 120)
        replay_path = write_replay(prop, dict(property=prop, kind="oracle", violation=v, case=small, original_case=case))
        verdict = "violation"
    elif diverging or broken or crashes:
        # the tie between model and code no longer checks: search for a failing input
        _worker_init(prop)
        found = None
        budget = 20 if tier == "quick" else 300
        ts = time.time()
        tried = 0
        if diverging and hasattr(mod, "neighbourhood"):
            for (i, d) in diverging[:20]:
                for c2 in mod.neighbourhood(cases[i], d, rng):
                    tried += 1
                    r2 = _worker_run(c2)
                    _, new2 = classify(r2["viol"], known)
                    if new2:
                        found = (c2, new2[0])
                        break
                    if time.time() - ts > budget:
                        break
                if found or time.time() - ts > budget:
                    break
        if not found and hasattr(mod, "search"):
            # property-specific directed search (e.g. when a table obligation broke)
            for c2 in mod.search(rng, tier, broken):
                tried += 1
                r2 = _worker_run(c2)
                _, new2 = classify(r2["viol"], known)
                if new2:
                    found = (c2, new2[0])
                    break
                if time.time() - ts > budget:
                    break
        search_info = dict(tried=tried, seconds=round(time.time() - ts, 1))
        if found:
            c2, v = found
            sig = v.get("signature")

            def still(c3):
                r3 = _worker_run(c3)
                return any(x.get("signature") == sig for x in r3["viol"])
            small = shrink_case(mod, c2, still, 20 if tier == "quick" else 120)
            replay_path = write_replay(prop, dict(property=prop, kind="oracle-after-broken-tie", violation=v, case=small,
                                                  broken=broken, diverging=len(diverging)))
            verdict = "violation"
        else:
            payload = dict(property=prop, kind="broken-tie", broken=broken,
                           note="no failing input found on the implementation; the named theorem / correspondence no longer checks")
            if diverging:
                i, d = diverging[0]

                def still(c2):
                    r2 = _worker_run(c2)
                    m2 = model_outputs(mod, [c2], 1)[0]
                    return first_diff(r2["out"], m2) is not None
                small = shrink_case(mod, cases[i], still, 15 if tier == "quick" else 90)
                r2 = _worker_run(small)
                m2 = model_outputs(mod, [small], 1)[0]
                d2 = first_diff(r2["out"], m2)
                payload["case"] = small
                payload["correspondence"] = dict(
                    model=mod.MODEL, theorems=names, step=d2,
                    impl=r2["out"][d2] if d2 is not None and d2 < len(r2["out"]) else None,
                    model_out=m2[d2] if d2 is not None and d2 < len(m2) else None,
                    diverging_cases=len(diverging))
            if crashes:
                payload["harness_crash"] = crashes[0]["crash"][-3000:]
                if "case" not in payload:
                    payload["case"] = cases[impl.index(crashes[0])]
            replay_path = write_replay(prop, payload)
            verdict = "violation"
            tail = " no-failing-input-found"

    # 6. evidence --------------------------------------------------------------------------
    wall = time.time() - t0
    samples = []
    for c, r in list(zip(cases, impl))[:2]:
        samples.append(dict(case=c, impl_output=r["out"][:12]))
    trusted = [
        "Lean 4.33.0 kernel" + (" + leanchecker re-check" if tier == "thorough" else ""),
        "axioms used by the property theorems: %s" % sorted({a for v in axioms.values() for a in v}),
        "statements in lean/DefconModel/Props/%s.lean say what the property says" % prop,
        "correspondence harness harness/props/%s.py + Driver.lean glue + generators" % prop.lower(),
    ] + list(getattr(mod, "TRUSTED", []))
    ev = dict(
        property_id=prop, tier=tier, seed=seed, level="proof",
        coverage=dict(
            obligations=obligations, discharged=discharged,
            checker_cmd=checker_cmd, trusted_base=trusted,
            theorems=names, nonvacuity_examples=n_examples, axioms=axioms,
            regenerated_tables=gen_info,
            evaluations=len(cases), distinct_nontrivial=nontrivial,
            rule=getattr(mod, "RULE", ""),
            samples=samples,
            traces_validated_against_impl=len(cases) - len(diverging) if has_model else 0,
            diverging_traces=len(diverging),
            distribution=stats,
            corpus_cases=len(corpus),
            known_findings_confirmed=[l for l in known_lines],
            broken_ties=broken,
            failing_input_search=search_info,
        ),
        assumptions=list(getattr(mod, "ASSUMPTIONS", [])),
        wall_s=round(wall, 2),
        violations=0 if verdict == "ok" else 1,
    )
    os.makedirs(os.path.join(VERIF, "evidence"), exist_ok=True)
    with open(os.path.join(VERIF, "evidence", prop + ".json"), "w") as f:
        json.dump(ev, f, indent=1, sort_keys=True, default=str)
        f.write("\n")

    for l in known_lines:
        log(l)
    log("%s tier=%s seed=%d: %d theorems (%d obligations, %d discharged), %d cases (%d non-trivial distinct), "
        "%d diverging, %d oracle hits (%d listed), %.1fs" % (
            prop, tier, seed, len(names), obligations, discharged, len(cases), nontrivial, len(diverging),
            len(all_viol), len(all_viol) - len(new), wall))
    if verdict == "violation":
        log("VIOLATION property=%s replay=%s%s" % (prop, replay_path, tail))
        return 1
    return 0


if __name__ == "__main__":
    main()
