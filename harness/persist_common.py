"""Shared by C01 / C06 / C18 (and C16): edit histories with saves on real defcon fonts, a shadow
specification of the abstract font content, and the direct oracles (reopen == content, no
orphans, clean after save, second save changes no byte)."""
import copy
import hashlib
import os
import shutil
import tempfile

import fontgen as fg

PARTS = ["info", "kerning", "groups", "features", "lib"]
# object kinds below the glyph: their flags were never cleared by the save/load paths (finding F31, repaired in /repo)
BELOW_GLYPH = ("layer.lib", "glyph.lib", "contour", "component", "anchor", "guideline", "image")


# ---------------------------------------------------------------------------------------
# generation of histories
# ---------------------------------------------------------------------------------------

def gen_sub_edit(rng, ln, present):
    """an edit of ONE object below a glyph (or of the glyph's image / lib) through that object's own API; indices are
    taken modulo what the glyph holds when the op runs (no-op on a glyph that holds nothing of the kind)"""
    gn = rng.choice(present) if present and rng.random() < 0.9 else rng.choice(fg.GLYPH_NAMES)
    kind = rng.choice(["contourmove", "addpoint", "compmove", "compbase", "anchorset", "anchorset", "guideset", "imgcolor",
                       "imgset", "libkey"])
    i = rng.randrange(4)
    if kind == "contourmove":
        v = [i, rng.randint(-3, 3), rng.randint(-3, 3)]
    elif kind == "addpoint":
        v = [i, rng.randint(0, 300), rng.randint(0, 300)]
    elif kind == "compmove":
        v = [i, rng.choice([0, 0, 1, -2, 5]), rng.choice([0, 3, -1])]
    elif kind == "compbase":
        v = [i, rng.choice(fg.BASES)]
    elif kind == "anchorset":
        f = rng.choice(["x", "y", "name"])
        v = [i, f, rng.choice(["top", "bottom", "mid", None]) if f == "name" else rng.choice([0, 100, 250, 500])]
    elif kind == "guideset":
        f = rng.choice(["name", "color"])
        v = [i, f, rng.choice([None, "gl", "g2"]) if f == "name" else rng.choice([None] + fg.COLORS)]
    elif kind == "imgcolor":
        v = rng.choice([None] + fg.COLORS)
    elif kind == "imgset":
        v = None if rng.random() < 0.3 else {"fileName": rng.choice(fg.IMAGE_NAMES), "xOffset": rng.randint(0, 3),
                                              "color": rng.choice([None, fg.COLORS[2]])}
    else:
        v = ["com.a.k1", rng.choice([None, 7, "v", [1, 2]])]
    return ["gfield", ln, gn, kind, v]


def gen_ops(rng, spec, nops, save_modes, p_save=0.12, structures=("package",), sub_edits=0.0, empty_features=False):
    """ops over a *copy* of spec that tracks what exists, so most ops are meaningful; `sub_edits` = share of
    operations that edit one object below a glyph (C01/C06: the dirty flags of those objects are compared)"""
    sh = copy.deepcopy(spec)
    ops = []
    last_img = dict(spec["images"])
    last_dat = dict(spec["data"])

    def layers():
        return [l["name"] for l in sh["layers"]]

    def layer(n):
        for l in sh["layers"]:
            if l["name"] == n:
                return l

    for _ in range(nops):
        if sub_edits and rng.random() < sub_edits:
            ln = rng.choice(layers())
            ops.append(gen_sub_edit(rng, ln, sorted(layer(ln)["glyphs"])))
            continue
        r = rng.random()
        ln = rng.choice(layers())
        L = layer(ln)
        present = sorted(L["glyphs"])
        if r < p_save:
            mode = rng.choice(save_modes)
            ops.append(["save", mode, rng.choice(structures)])
        elif r < 0.17:
            gn = rng.choice(fg.GLYPH_NAMES)
            ops.append(["gget", ln, gn])
        elif r < 0.20:
            # a pure read of the outline (the second stage of lazy loading), typically after an edit
            gn = rng.choice(present) if present else rng.choice(fg.GLYPH_NAMES)
            ops.append(["gread", ln, gn])
        elif r < 0.27:
            gn = rng.choice(fg.GLYPH_NAMES)
            ops.append(["gnew", ln, gn])
            L["glyphs"][gn] = None
        elif r < 0.36:
            gn = rng.choice(fg.GLYPH_NAMES)
            ops.append(["ginsert", ln, gn, fg.gen_glyph(rng, gn, sh["images"])])
            L["glyphs"][gn] = None
        elif r < 0.46:
            gn = rng.choice(present) if present and rng.random() < 0.85 else rng.choice(fg.GLYPH_NAMES)
            ops.append(["gdel", ln, gn])
            L["glyphs"].pop(gn, None)
        elif r < 0.54:
            if present:
                gn = rng.choice(present)
                pool = fg.BASES if gn in fg.BASES else fg.COMPOSITES
                free = [n for n in pool if n not in L["glyphs"]]
                if free:
                    new = rng.choice(free)
                    ops.append(["grename", ln, gn, new])
                    L["glyphs"][new] = L["glyphs"].pop(gn)
        elif r < 0.64:
            if present:
                gn = rng.choice(present)
                k = rng.random()
                if k < 0.35:
                    ops.append(["gset", ln, gn, fg.gen_glyph(rng, gn, sh["images"])])
                elif k < 0.55:
                    ops.append(["gfield", ln, gn, "width", rng.choice([0, 300, 500, 777])])
                elif k < 0.7:
                    ops.append(["gfield", ln, gn, "unicodes", rng.sample(fg.CODES, rng.randint(0, 2))])
                elif k < 0.8:
                    ops.append(["gfield", ln, gn, "note", rng.choice([None, "x", "changed"])])
                elif k < 0.9:
                    ops.append(["gfield", ln, gn, "libkey", ["com.a.k1", rng.choice([None, 7, "v", [1, 2]])]])
                elif k < 0.94:
                    ops.append(["gfield", ln, gn, "move", [rng.randint(-5, 5), rng.randint(-5, 5)]])
                else:
                    # structure edits that may be the FIRST thing to touch a glyph read from disk (no identifiers: they
                    # cannot clash with what the glyph holds)
                    kind = rng.choice(["inscontour", "inscontour", "addanchor", "addguide", "clearanchors", "clearcomps"])
                    if kind == "inscontour":
                        x = rng.randint(0, 300)
                        pts = [[x, 0, "line", False, None, None], [x + 40, 0, "line", False, None, None],
                               [x + 20, 30 + rng.randint(0, 9), "line", False, None, None]]
                        v = [rng.choice(["first", "last"]), {"id": None, "points": pts}]
                    elif kind == "addanchor":
                        v = [rng.randint(0, 300), rng.randint(0, 300), rng.choice(["top", "new"]), None, None]
                    elif kind == "addguide":
                        v = [rng.randint(0, 300), None, None, "gnew", None, None]
                    else:
                        v = None
                    ops.append(["gfield", ln, gn, kind, v])
        elif r < 0.68:
            free = [n for n in fg.LAYER_NAMES if n not in layers()]
            if free:
                n = rng.choice(free)
                ops.append(["lnew", n])
                sh["layers"].append({"name": n, "glyphs": {}})
        elif r < 0.71:
            cands = [n for n in layers() if n != sh["default"]]
            if cands:
                n = rng.choice(cands)
                ops.append(["ldel", n])
                sh["layers"] = [l for l in sh["layers"] if l["name"] != n]
        elif r < 0.75:
            free = [n for n in fg.LAYER_NAMES if n not in layers()]
            if free:
                new = rng.choice(free)
                ops.append(["lrename", ln, new])
                L["name"] = new
                if sh["default"] == ln:
                    sh["default"] = new
        elif r < 0.77:
            order = layers()
            rng.shuffle(order)
            ops.append(["lorder", order])
            sh["layers"].sort(key=lambda l: order.index(l["name"]))
        elif r < 0.80:
            ops.append(["ldefault", ln])
            sh["default"] = ln
        elif r < 0.82:
            ops.append(["lcolor", ln, rng.choice([None] + fg.COLORS)])
        elif r < 0.84:
            ops.append(["llib", ln, rng.choice(["com.a.k1", "org.b.flag"]), rng.choice([None, 8, "w"])])
        elif r < 0.87:
            a = rng.choice(sorted(fg.INFO_ATTRS))
            # list-valued attributes default to []: assigning None to them is not a re-assignment of the held value
            unset = [] if isinstance(fg.INFO_ATTRS[a][0], list) else None
            ops.append(["info", a, rng.choice(fg.INFO_ATTRS[a] + [unset])])
        elif r < 0.89:
            ops.append(["kern", "%s|%s" % (rng.choice(fg.GLYPH_NAMES[:4]), rng.choice(fg.GLYPH_NAMES[:4])),
                        rng.choice([None, -20, 35])])
        elif r < 0.91:
            ops.append(["group", rng.choice(["public.kern1.O", "public.kern2.H", "other", "grp2"]),
                        rng.choice([None, rng.sample(fg.GLYPH_NAMES, rng.randint(0, 3))])])
        elif r < 0.925:
            # the empty text is an edit too (C01/C06): a font that has a features.fea must lose it at the next save
            # (only offered while the font HAS a text: None -> "" on a font without features flags the features object
            # though the content stays "no features", which the blob abstraction of M-Parts does not tell apart)
            ops.append(["feat", rng.choice(["# g\n", "# f\n", "feature kern {\n    pos A B -3;\n} kern;\n"] +
                                           (["", ""] if empty_features and sh.get("features") else []))])
            sh["features"] = ops[-1][1]
        elif r < 0.94:
            ops.append(["lib", rng.choice(["com.a.k1", "com.a.k2", "org.new"]), rng.choice([None, 9, "s", {"a": [1]}])])
        elif r < 0.95:
            ops.append(["touch", rng.choice(PARTS)])
        elif r < 0.965:
            n = rng.choice(fg.IMAGE_NAMES)
            k = rng.random()
            if k < 0.5:
                # half of the time the bytes the file had before (an undone delete / a no-op assignment)
                sd = last_img.get(n) if (n in last_img and rng.random() < 0.5) else rng.randint(1, 6)
                ops.append(["img", n, sd])
                sh["images"][n] = sd
                last_img[n] = sd
            elif k < 0.8:
                ops.append(["img", n, None])
                sh["images"].pop(n, None)
            else:
                ops.append(["imgget", n])
        elif r < 0.985:
            n = rng.choice(fg.DATA_NAMES)
            k = rng.random()
            if k < 0.5:
                sd = last_dat.get(n) if (n in last_dat and rng.random() < 0.4) else rng.randint(0, 6)
                ops.append(["dat", n, sd])
                sh["data"][n] = sd
                last_dat[n] = sd
                if rng.random() < 0.4:
                    ops.append(["datget", n])       # read back what was just assigned
            elif k < 0.8:
                ops.append(["dat", n, None])
                sh["data"].pop(n, None)
            else:
                ops.append(["datget", n])
        elif sh.get("guidelines") and rng.random() < 0.6:
            # change one attribute of an existing font guideline
            i = rng.randrange(len(sh["guidelines"]))
            if rng.random() < 0.5:
                ops.append(["fguideattr", i, "y", rng.randint(0, 700)])
            else:
                ops.append(["fguideattr", i, "name", rng.choice(["gA", "gB"])])
        else:
            gl = [[None, rng.randint(0, 500), None, rng.choice([None, "b"]), None, rng.choice([None, "fg%d" % j])]
                  for j in range(rng.randint(0, 2))]
            ops.append(["fguide", gl])
            sh["guidelines"] = gl
    return ops


# ---------------------------------------------------------------------------------------
# shadow specification
# ---------------------------------------------------------------------------------------

EMPTY_GLYPH = {"unicodes": [], "width": 0, "height": 0, "note": None, "lib": {}, "image": None, "contours": [],
               "components": [], "anchors": [], "guidelines": []}


SUB_FIELDS = ("contourmove", "addpoint", "compmove", "compbase", "anchorset", "guideset", "imgcolor", "imgset")
ANCHOR_FIELD = {"x": 0, "y": 1, "name": 2}
GUIDE_FIELD = {"name": 3, "color": 4}


def shadow_sub_edit(gl, f, v):
    """the content after an edit of one object below the glyph (see gen_sub_edit)"""
    if f == "contourmove":
        if gl["contours"]:
            for p in gl["contours"][v[0] % len(gl["contours"])]["points"]:
                p[0] += v[1]
                p[1] += v[2]
    elif f == "addpoint":
        if gl["contours"]:
            gl["contours"][v[0] % len(gl["contours"])]["points"].append([v[1], v[2], "line", False, None, None])
    elif f == "compmove":
        if gl["components"]:
            c = gl["components"][v[0] % len(gl["components"])]
            c[1][4] += v[1]
            c[1][5] += v[2]
    elif f == "compbase":
        if gl["components"]:
            gl["components"][v[0] % len(gl["components"])][0] = v[1]
    elif f == "anchorset":
        if gl["anchors"]:
            gl["anchors"][v[0] % len(gl["anchors"])][ANCHOR_FIELD[v[1]]] = v[2]
    elif f == "guideset":
        if gl["guidelines"]:
            gl["guidelines"][v[0] % len(gl["guidelines"])][GUIDE_FIELD[v[1]]] = v[2]
    elif f == "imgcolor":
        if gl["image"] is not None:
            gl["image"]["color"] = v
    elif f == "imgset":
        gl["image"] = copy.deepcopy(v)


class Shadow(object):
    def __init__(self, spec):
        self.s = copy.deepcopy(spec)

    def layer(self, n):
        for l in self.s["layers"]:
            if l["name"] == n:
                return l
        return None

    def do(self, op):
        """returns True if the op must succeed, False if it must be rejected (KeyError etc.)"""
        s = self.s
        k = op[0]
        if k in ("gget", "gread", "gnew", "ginsert", "gdel", "grename", "gset", "gfield"):
            L = self.layer(op[1])
            if L is None:
                return False
            g = L["glyphs"]
            if k in ("gget", "gread"):
                return op[2] in g
            if k == "gnew":
                g[op[2]] = copy.deepcopy(EMPTY_GLYPH)
            elif k == "ginsert":
                g[op[2]] = copy.deepcopy(op[3])
            elif k == "gdel":
                if op[2] not in g:
                    return False
                del g[op[2]]
            elif k == "grename":
                if op[2] not in g:
                    return False
                if op[2] != op[3]:
                    g[op[3]] = g.pop(op[2])
            elif k == "gset":
                if op[2] not in g:
                    return False
                g[op[2]] = copy.deepcopy(op[3])
            elif k == "gfield":
                if op[2] not in g:
                    return False
                gl = g[op[2]]
                f, v = op[3], op[4]
                if f in ("width", "unicodes", "note"):
                    gl[f] = copy.deepcopy(v)
                elif f == "libkey":
                    if v[1] is None:
                        gl["lib"].pop(v[0], None)
                    else:
                        gl["lib"][v[0]] = copy.deepcopy(v[1])
                elif f == "inscontour":
                    if v[0] == "first":
                        gl["contours"].insert(0, copy.deepcopy(v[1]))
                    else:
                        gl["contours"].append(copy.deepcopy(v[1]))
                elif f == "addanchor":
                    gl["anchors"].append(copy.deepcopy(v))
                elif f == "addguide":
                    gl["guidelines"].append(copy.deepcopy(v))
                elif f == "clearanchors":
                    gl["anchors"] = []
                elif f == "clearcomps":
                    gl["components"] = []
                elif f in SUB_FIELDS:
                    shadow_sub_edit(gl, f, v)
                elif f == "move":
                    dx, dy = v
                    for c in gl["contours"]:
                        for p in c["points"]:
                            p[0] += dx
                            p[1] += dy
                    for c in gl["components"]:
                        c[1][4] += dx
                        c[1][5] += dy
                    for a in gl["anchors"]:
                        a[0] += dx
                        a[1] += dy
            return True
        if k == "lnew":
            if self.layer(op[1]) is not None:
                return False
            s["layers"].append({"name": op[1], "color": None, "lib": {}, "glyphs": {}})
        elif k == "ldel":
            if self.layer(op[1]) is None:
                return False
            s["layers"] = [l for l in s["layers"] if l["name"] != op[1]]
        elif k == "lrename":
            L = self.layer(op[1])
            if L is None:
                return False
            L["name"] = op[2]
            if s["default"] == op[1]:
                s["default"] = op[2]
        elif k == "lorder":
            s["layers"].sort(key=lambda l: op[1].index(l["name"]))
        elif k == "ldefault":
            s["default"] = op[1]
        elif k == "lcolor":
            self.layer(op[1])["color"] = op[2]
        elif k == "llib":
            lib = self.layer(op[1])["lib"]
            if op[3] is None:
                lib.pop(op[2], None)
            else:
                lib[op[2]] = op[3]
        elif k == "info":
            if op[2] is None or op[2] == []:
                s["info"].pop(op[1], None)
            else:
                s["info"][op[1]] = copy.deepcopy(op[2])
        elif k == "kern":
            if op[2] is None:
                if op[1] not in s["kerning"]:
                    return False
                del s["kerning"][op[1]]
            else:
                s["kerning"][op[1]] = op[2]
        elif k == "group":
            if op[2] is None:
                if op[1] not in s["groups"]:
                    return False
                del s["groups"][op[1]]
            else:
                s["groups"][op[1]] = list(op[2])
        elif k == "feat":
            s["features"] = op[1] or None
        elif k == "lib":
            if op[2] is None:
                if op[1] not in s["lib"]:
                    return False
                del s["lib"][op[1]]
            else:
                s["lib"][op[1]] = copy.deepcopy(op[2])
        elif k == "img":
            if op[2] is None:
                if op[1] not in s["images"]:
                    return False
                del s["images"][op[1]]
            else:
                s["images"][op[1]] = op[2]
        elif k == "imgget":
            return op[1] in s["images"]
        elif k == "dat":
            if op[2] is None:
                if op[1] not in s["data"]:
                    return False
                del s["data"][op[1]]
            else:
                s["data"][op[1]] = op[2]
        elif k == "datget":
            return op[1] in s["data"]
        elif k == "fguide":
            s["guidelines"] = copy.deepcopy(op[1])
        elif k == "fguideattr":
            if op[1] >= len(s["guidelines"]):
                return False
            s["guidelines"][op[1]][1 if op[2] == "y" else 3] = op[3]
        return True


# ---------------------------------------------------------------------------------------
# implementation adaptor
# ---------------------------------------------------------------------------------------

def tree_digest(path):
    """{relative path: md5} of every file of a UFO (package or zip), via the fs abstraction"""
    from fontTools.ufoLib import UFOReader
    res = {}
    with UFOReader(path, validate=False) as r:
        for p in r.fs.walk.files():
            res[p.lstrip("/")] = hashlib.md5(r.fs.readbytes(p)).hexdigest()
    return res


def orphans(path):
    """files of the UFO that nothing references (stale glif files, glyph directories not in
    layercontents, unknown top-level files)"""
    from fontTools.ufoLib import UFOReader
    import plistlib
    res = []
    with UFOReader(path, validate=False) as r:
        files = sorted(p.lstrip("/") for p in r.fs.walk.files())
        known_top = {"metainfo.plist", "fontinfo.plist", "kerning.plist", "groups.plist", "features.fea", "lib.plist",
                     "layercontents.plist"}
        dirs = {}
        if r.fs.exists("layercontents.plist"):
            for name, d in plistlib.loads(r.fs.readbytes("layercontents.plist")):
                dirs[d] = name
        else:
            dirs["glyphs"] = "public.default"
        glifs = {}
        for d in dirs:
            glifs[d] = set()
            if r.fs.exists(d + "/contents.plist"):
                glifs[d] = set(plistlib.loads(r.fs.readbytes(d + "/contents.plist")).values())
        for f in files:
            parts = f.split("/")
            if len(parts) == 1:
                if f not in known_top:
                    res.append(f)
            elif parts[0] in ("images", "data"):
                continue      # compared against the content by the reopen oracle
            elif parts[0].startswith("glyphs"):
                if parts[0] not in dirs:
                    res.append(f)
                elif parts[1] in ("contents.plist", "layerinfo.plist"):
                    continue
                elif parts[1] not in glifs[parts[0]]:
                    res.append(f)
            else:
                res.append(f)
    return res


class Impl(object):
    def __init__(self, case, tmpd):
        from defcon import Font
        self.tmpd = tmpd
        self.keep = []
        self.case = case
        self.n_paths = 0
        spec = case["spec"]
        if case.get("origin", "disk") == "memory":
            self.font = Font()
            self.build_in_memory(spec)
        else:
            p = self.new_path(case.get("structure", "package"))
            fg.write_ufo(spec, p, case.get("structure", "package"))
            self.font = Font(p)
        for part in case.get("preread", []):
            self.do(["touch", part])
        for ln, gn in case.get("preread_glyphs", []):
            try:
                self.keep.append(self.font.layers[ln][gn])
            except KeyError:
                pass

    def new_path(self, structure):
        self.n_paths += 1
        return os.path.join(self.tmpd, "f%d.%s" % (self.n_paths, "ufoz" if structure == "zip" else "ufo"))

    def build_in_memory(self, spec):
        font = self.font
        first = True
        for l in spec["layers"]:
            if first:
                layer = font.layers.defaultLayer
                layer.name = l["name"]
                first = False
            else:
                layer = font.newLayer(l["name"])
            layer.color = l["color"]
            layer.lib.update(copy.deepcopy(l["lib"]))
            for gn, g in l["glyphs"].items():
                glyph = layer.newGlyph(gn)
                fg.apply_gspec(glyph, g)
                self.keep.append(glyph)
        font.layers.defaultLayer = font.layers[spec["default"]]
        for a, v in spec["info"].items():
            setattr(font.info, a, copy.deepcopy(v))
        font.guidelines = [fg._guideline_dict(g) for g in spec.get("guidelines", [])]
        if spec["kerning"]:
            font.kerning.update({tuple(k.split("|")): v for k, v in spec["kerning"].items()})
        if spec["groups"]:
            font.groups.update(copy.deepcopy(spec["groups"]))
        if spec["features"] is not None:
            font.features.text = spec["features"]
        if spec["lib"]:
            font.lib.update(copy.deepcopy(spec["lib"]))
        for n, seed in spec["images"].items():
            font.images[n] = fg.png_bytes(seed)
        for n, seed in spec["data"].items():
            font.data[n] = fg.data_bytes(seed)

    def do(self, op):
        """returns ('ok'|'err:<Class>', extra)"""
        font = self.font
        k = op[0]
        try:
            if k in ("gget", "gread", "gnew", "ginsert", "gdel", "grename", "gset", "gfield"):
                layer = font.layers[op[1]]
                if k == "gget":
                    self.keep.append(layer[op[2]])
                elif k == "gread":
                    g = layer[op[2]]
                    self.keep.append(g)
                    len(g)
                    for c in g:
                        len(c)
                    g.bounds
                elif k == "gnew":
                    self.keep.append(layer.newGlyph(op[2]))
                elif k == "ginsert":
                    from defcon import Glyph
                    src = Glyph()
                    src.name = "src"
                    fg.apply_gspec(src, op[3])
                    self.keep.append(src)
                    self.keep.append(layer.insertGlyph(src, name=op[2]))
                elif k == "gdel":
                    if op[2] in layer._glyphs:
                        self.keep.append(layer._glyphs[op[2]])
                    del layer[op[2]]
                elif k == "grename":
                    g = layer[op[2]]
                    self.keep.append(g)
                    g.name = op[3]
                elif k == "gset":
                    g = layer[op[2]]
                    self.keep.append(g)
                    fg.apply_gspec(g, op[3])
                elif k == "gfield":
                    g = layer[op[2]]
                    self.keep.append(g)
                    f, v = op[3], op[4]
                    if f == "width":
                        g.width = v
                    elif f == "unicodes":
                        g.unicodes = list(v)
                    elif f == "note":
                        g.note = v
                    elif f == "libkey":
                        if v[1] is None:
                            if v[0] in g.lib:
                                del g.lib[v[0]]
                        else:
                            g.lib[v[0]] = copy.deepcopy(v[1])
                    elif f == "move":
                        g.move(tuple(v))
                    elif f == "inscontour":
                        # a free-standing contour; nothing of the glyph is looked at before the insertion
                        import defcon
                        c = defcon.Contour()
                        for x, y, t, sm, nm, pid in v[1]["points"]:
                            c.addPoint((x, y), t, sm, nm, identifier=pid)
                        if v[0] == "first":
                            g.insertContour(0, c)
                        else:
                            g.appendContour(c)
                    elif f == "addanchor":
                        g.appendAnchor(dict(x=v[0], y=v[1], name=v[2], color=v[3], identifier=v[4]))
                    elif f == "addguide":
                        g.appendGuideline(fg._guideline_dict(v))
                    elif f == "clearanchors":
                        g.clearAnchors()
                    elif f == "clearcomps":
                        g.clearComponents()
                    elif f == "contourmove":
                        if len(g):
                            g[v[0] % len(g)].move((v[1], v[2]))
                    elif f == "addpoint":
                        if len(g):
                            g[v[0] % len(g)].addPoint((v[1], v[2]), segmentType="line")
                    elif f == "compmove":
                        if g.components:
                            g.components[v[0] % len(g.components)].move((v[1], v[2]))
                    elif f == "compbase":
                        if g.components:
                            g.components[v[0] % len(g.components)].baseGlyph = v[1]
                    elif f == "anchorset":
                        if g.anchors:
                            setattr(g.anchors[v[0] % len(g.anchors)], v[1], v[2])
                    elif f == "guideset":
                        if g.guidelines:
                            setattr(g.guidelines[v[0] % len(g.guidelines)], v[1], v[2])
                    elif f == "imgcolor":
                        im = g.image
                        if im.fileName is not None:
                            im.color = v
                    elif f == "imgset":
                        if v is None:
                            g.image = None
                        else:
                            g.image = dict(fileName=v["fileName"], xScale=1, xyScale=0, yxScale=0, yScale=1,
                                           xOffset=v["xOffset"], yOffset=0, color=v["color"])
                    else:
                        raise ValueError(op)
            elif k == "lnew":
                self.keep.append(font.newLayer(op[1]))
            elif k == "ldel":
                self.keep.append(font.layers[op[1]])
                del font.layers[op[1]]
            elif k == "lrename":
                font.layers[op[1]].name = op[2]
            elif k == "lorder":
                font.layers.layerOrder = list(op[1])
            elif k == "ldefault":
                font.layers.defaultLayer = font.layers[op[1]]
            elif k == "lcolor":
                font.layers[op[1]].color = op[2]
            elif k == "llib":
                lib = font.layers[op[1]].lib
                if op[3] is None:
                    if op[2] in lib:
                        del lib[op[2]]
                else:
                    lib[op[2]] = op[3]
            elif k == "info":
                setattr(font.info, op[1], copy.deepcopy(op[2]))
            elif k == "kern":
                pair = tuple(op[1].split("|"))
                if op[2] is None:
                    del font.kerning[pair]
                else:
                    font.kerning[pair] = op[2]
            elif k == "group":
                if op[2] is None:
                    del font.groups[op[1]]
                else:
                    font.groups[op[1]] = list(op[2])
            elif k == "feat":
                font.features.text = op[1]
            elif k == "lib":
                if op[2] is None:
                    del font.lib[op[1]]
                else:
                    font.lib[op[1]] = copy.deepcopy(op[2])
            elif k == "touch":
                obj = getattr(font, op[1])
                if op[1] == "features":
                    obj.text
                elif op[1] == "info":
                    obj.familyName
                else:
                    len(obj)
            elif k == "img":
                if op[2] is None:
                    del font.images[op[1]]
                else:
                    font.images[op[1]] = fg.png_bytes(op[2])
            elif k == "imgget":
                font.images[op[1]]
            elif k == "dat":
                if op[2] is None:
                    del font.data[op[1]]
                else:
                    font.data[op[1]] = fg.data_bytes(op[2])
            elif k == "datget":
                font.data[op[1]]
            elif k == "fguide":
                font.guidelines = [fg._guideline_dict(g) for g in op[1]]
            elif k == "fguideattr":
                gls = font.guidelines
                if op[1] >= len(gls):
                    raise KeyError(op[1])
                setattr(gls[op[1]], op[2], op[3])
            elif k == "save":
                return self.save(op[1], op[2])
            else:
                raise ValueError(op)
            return "ok", None
        except KeyError:
            return "err:KeyError", None

    def save(self, mode, structure):
        font = self.font
        info = {"mode": mode}
        if mode == "inplace" and font.path is not None:
            font.save()
        else:
            if mode == "inplace":
                mode = "new"
            structure_arg = structure
            p = self.new_path(structure)
            if mode == "overufo":
                other = fg.gen_font(__import__("random").Random(len(p)), 2, 3)
                fg.write_ufo(other, p, structure)
            elif mode == "overfile":
                with open(p, "w") as f:
                    f.write("not a ufo")
            info["mode"] = mode
            font.save(p, structure=structure_arg)
        info["path"] = font.path
        return "ok", info

    def dirty_report(self):
        """names of objects that report dirty (font level down to loaded glyphs; parts only if loaded)"""
        font = self.font
        res = []
        if font.dirty:
            res.append("font")
        if font.layers.dirty:
            res.append("layerSet")
        for ln in font.layers.layerOrder:
            layer = font.layers[ln]
            if layer.dirty:
                res.append("layer")
            for gn, g in layer._glyphs.items():
                if g.dirty:
                    res.append("glyph")
                # objects below the glyph (finding F31): only looked at where they already exist
                if g._lib is not None and g._lib.dirty:
                    res.append("glyph.lib")
                if g._shallowLoadedContours is None:
                    if any(c.dirty for c in g._contours):
                        res.append("contour")
                if any(c.dirty for c in g._components):
                    res.append("component")
                if any(a.dirty for a in g._anchors):
                    res.append("anchor")
                if any(x.dirty for x in g._guidelines):
                    res.append("guideline")
                if g._image is not None and g._image.dirty:
                    res.append("image")
            if layer._lib is not None and layer._lib.dirty:
                res.append("layer.lib")
        for part in PARTS:
            obj = getattr(font, "_" + part)
            if obj is not None and obj.dirty:
                res.append(part)
        if font.images.dirty:
            res.append("images")
        if font.data.dirty:
            res.append("data")
        return sorted(set(res))


def strip_order(d):
    d = copy.deepcopy(d)
    d["lib"].pop("public.glyphOrder", None)
    return d


def check_saved(impl, shadow, prop, step, op, deep, second_save):
    """oracles evaluated right after a successful save; returns violation records"""
    viol = []
    path = impl.font.path
    exp = strip_order(fg.expected_dump(shadow.s))
    mode = op[1]
    try:
        got = strip_order(fg.read_ufo(path))
    except Exception as e:
        return [dict(clause="%s/saved-ufo-unreadable" % prop, signature="%s/saved-ufo-unreadable/%s" % (prop, mode),
                     step=step, op=op, error="%s: %s" % (type(e).__name__, e))]
    got.pop("formatVersion", None)
    got.pop("structure", None)
    r = fg.diff_dumps(exp, got)
    if r:
        where = r.split(":")[0].strip("/").split("/")
        top = where[0].split("[")[0] if where else "?"
        sub = ""
        if top == "layers" and len(where) >= 2:
            sub = "/" + where[1].split("[")[0]
            if sub == "/glyphs" and len(where) >= 4:
                sub += "/" + where[3].split("[")[0]
        viol.append(dict(clause="%s/reopen-differs" % prop, signature="%s/reopen-differs/%s%s/%s" % (prop, top, sub, mode),
                         step=step, op=op, diff=r))
        return viol
    if deep:
        from defcon import Font
        f2 = Font(path)
        got2 = strip_order(fg.dump_font(f2))
        f2.close()
        r = fg.diff_dumps(exp, got2)
        if r:
            viol.append(dict(clause="%s/defcon-reopen-differs" % prop, signature="%s/defcon-reopen-differs/%s" % (prop, mode),
                             step=step, op=op, diff=r))
            return viol
    if prop == "C06":
        orp = orphans(path)
        if orp:
            viol.append(dict(clause="C06/orphan-files", signature="C06/orphan-files/%s" % mode, step=step, op=op, files=orp[:10]))
            return viol
        d = impl.dirty_report()
        for kind in d:
            viol.append(dict(clause="C06/dirty-after-save", signature="C06/dirty-after-save/%s" % kind, step=step, op=op,
                             dirty=d))
        if [k for k in d if k not in BELOW_GLYPH]:
            return viol
        if second_save:
            before = tree_digest(path)
            try:
                impl.font.save()
            except Exception as e:
                viol.append(dict(clause="C06/second-save-raised", signature="C06/second-save-raised/%s" % type(e).__name__,
                                 step=step, op=op, error=str(e)[:300]))
                return viol
            after = tree_digest(path)
            if before != after:
                ch = sorted(k for k in set(before) | set(after) if before.get(k) != after.get(k))
                viol.append(dict(clause="C06/second-save-changes-bytes", signature="C06/second-save-changes-bytes/%s" %
                                 (ch[0].split("/")[-1] if ch else "?"), step=step, op=op, changed=ch[:10]))
    return viol


def check_clean_is_persisted(impl, shadow, prop, step, op):
    """`not dirty` means persisted: called when the font's flag went from set to clear outside a save (never on the
    unchanged code); the UFO at the font's path must then hold what memory holds"""
    font = impl.font
    if font.path is None or not os.path.exists(font.path):
        return [dict(clause="%s/not-dirty-without-ufo" % prop, signature="%s/not-dirty-without-ufo/%s" % (prop, op[0] if op else "end"),
                     step=step, op=op)]
    try:
        got = strip_order(fg.read_ufo(font.path))
    except Exception as e:
        return [dict(clause="%s/not-dirty-but-unreadable" % prop, signature="%s/not-dirty-but-unreadable/%s" % (prop, op[0] if op else "end"),
                     step=step, op=op, error="%s: %s" % (type(e).__name__, e))]
    got.pop("formatVersion", None)
    got.pop("structure", None)
    r = fg.diff_dumps(strip_order(fg.expected_dump(shadow.s)), got)
    if r:
        return [dict(clause="%s/not-dirty-but-not-persisted" % prop,
                     signature="%s/not-dirty-but-not-persisted/after-%s" % (prop, op[0] if op else "reading-everything"),
                     step=step, op=op, diff=r)]
    return []


def run_case(case, prop):
    tmpd = tempfile.mkdtemp(prefix="vpers_")
    try:
        impl = Impl(case, tmpd)
        shadow = Shadow(case["spec"])
        viol = []
        outs = []
        blobs = Blobs()
        # replay the blob numbering of model_lines (same order of first occurrence)
        n_setup = len(model_lines(case)) - len(case["ops"])
        _b = Blobs()
        spec0 = case["spec"]
        if case.get("origin", "disk") == "memory":
            _b.of(part_value(spec0, "info"))
            for part in ("kerning", "groups", "features", "lib"):
                _b.of(part_value(spec0, part))
        else:
            for part in ("info", "groups", "kerning", "features", "lib"):
                _b.of(part_value(spec0, part))
        blobs = _b
        outs.extend([Atom("ok")] * n_setup)
        stats = {"origin." + case.get("origin", "disk"): 1, "structure." + case.get("structure", "package"): 1}
        nsaves = 0
        if prop == "C06" and case.get("origin", "disk") == "disk":
            # right after loading a format-3 UFO no object reports dirty
            for kind in impl.dirty_report():
                viol.append(dict(clause="C06/dirty-after-load", signature="C06/dirty-after-load/%s" % kind, step=-1))
            if [v for v in viol if v["signature"].split("/")[-1] not in BELOW_GLYPH]:
                pass
            else:
                known_only = list(viol)
                viol = []
                stats["f31_after_load"] = len(known_only)
                carry = known_only
        carry = locals().get("carry", [])
        # "whenever the font is not dirty its UFO on disk equals memory": `persisted` is the content the UFO at the font's
        # path was last SEEN to hold (the UFO the font was opened from; after a save that passed the read-back oracle)
        persisted = strip_order(fg.expected_dump(shadow.s)) if case.get("origin", "disk") == "disk" else None
        for i, op in enumerate(case["ops"]):
            was_dirty = bool(impl.font.dirty)
            try:
                status, extra = impl.do(op)
            except Exception as e:
                status, extra = "err:" + type(e).__name__, str(e)[:300]
            stats["op." + op[0]] = stats.get("op." + op[0], 0) + 1
            flag_dropped = op[0] != "save" and was_dirty and not impl.font.dirty
            if op[0] != "save":
                ok_expected = shadow.do(op)
                if op[0] in PART_OF_OP and ok_expected:
                    blobs.of(part_value(shadow.s, PART_OF_OP[op[0]]))
            try:
                outs.append(model_out(impl, op, status, blobs, True))
            except Exception as e:
                outs.append([Atom("harness-error"), type(e).__name__ + ": " + str(e)[:200]])
            if viol:
                continue
            if op[0] == "save":
                stats["save." + op[1]] = stats.get("save." + op[1], 0) + 1
                if status != "ok":
                    viol.append(dict(clause="%s/save-raised" % prop, signature="%s/save-raised/%s/%s" % (prop, op[1], status),
                                     step=i, op=op, error=extra))
                    continue
                nsaves += 1
                viol.extend(check_saved(impl, shadow, prop, i, op, deep=(nsaves % 2 == 1), second_save=(nsaves % 2 == 0)))
                if not viol:
                    persisted = strip_order(fg.expected_dump(shadow.s))
                continue
            if (status == "ok") != bool(ok_expected):
                viol.append(dict(clause="%s/op-outcome" % prop, signature="%s/op-outcome/%s" % (prop, op[0]), step=i, op=op,
                                 expected_ok=bool(ok_expected), observed=status, detail=extra))
            elif flag_dropped:
                stats["flag_dropped_outside_save"] = stats.get("flag_dropped_outside_save", 0) + 1
                viol.extend(check_clean_is_persisted(impl, shadow, prop, i, op))
            elif not impl.font.dirty and status == "ok":
                # the font says there is nothing to save: then the content must be what the UFO was last seen to hold
                # (judged against the shadow content, not against what the font reports about itself)
                stats["clean_after_op"] = stats.get("clean_after_op", 0) + 1
                if persisted is None or strip_order(fg.expected_dump(shadow.s)) != persisted:
                    stats["clean_after_change"] = stats.get("clean_after_change", 0) + 1
                    viol.extend(check_clean_is_persisted(impl, shadow, prop, i, op))
        if not viol:
            # memory must equal the content too (reads every lazily loaded part now)
            was_dirty = bool(impl.font.dirty)
            got = strip_order(fg.dump_font(impl.font))
            if was_dirty and not impl.font.dirty:
                viol.extend(check_clean_is_persisted(impl, shadow, prop, len(case["ops"]), None))
            r = fg.diff_dumps(strip_order(fg.expected_dump(shadow.s)), got)
            if r:
                viol.append(dict(clause="%s/memory-differs" % prop, signature="%s/memory-differs/%s" % (prop, r.split(":")[0].strip("/").split("/")[0].split("[")[0]),
                                 step=len(case["ops"]), diff=r))
        viol = carry + viol
        stats["saves"] = nsaves
        stats["len"] = len(case["ops"])
        nontrivial = nsaves > 0 and any(o[0] not in ("save", "gget", "gread", "touch", "imgget", "datget") for o in case["ops"])
        try:
            impl.font.close()
        except Exception:
            pass
        return dict(out=outs, viol=viol, info=dict(nontrivial=nontrivial, stats=stats))
    finally:
        shutil.rmtree(tmpd, ignore_errors=True)


def scenario(rng, spec):
    """short scripted patterns that random op soup rarely produces: undo of a delete, edit then pure read,
    delete then re-create under the old name, rename away and back, layer rename then default change"""
    ln = rng.choice([l["name"] for l in spec["layers"]])
    L = [l for l in spec["layers"] if l["name"] == ln][0]
    gl = sorted(L["glyphs"])
    k = rng.randrange(9)
    if k == 0 and spec["images"]:
        n = rng.choice(sorted(spec["images"]))
        return [["imgget", n]] * rng.randint(0, 1) + [["img", n, None], ["img", n, spec["images"][n]]]
    if k == 1 and spec["data"]:
        n = rng.choice(sorted(spec["data"]))
        return [["dat", n, None], ["dat", n, spec["data"][n]]]
    if k == 2:
        n = rng.choice(fg.DATA_NAMES)
        return [["dat", n, rng.choice([0, 3])], ["datget", n]]
    if k == 3 and gl:
        g = rng.choice(gl)
        if rng.random() < 0.5:
            return [["gfield", ln, g, "width", rng.choice([777, 123])], ["gread", ln, g]]
        return [["gfield", ln, g, "note", rng.choice(["x", "changed"])], ["gread", ln, g]]
    if k == 4 and gl:
        g = rng.choice(gl)
        return [["gdel", ln, g], ["gnew", ln, g]]
    if k == 5 and gl:
        g = rng.choice(gl)
        pool = fg.BASES if g in fg.BASES else fg.COMPOSITES
        free = [n for n in pool if n not in L["glyphs"]]
        if free:
            t = rng.choice(free)
            return [["grename", ln, g, t], ["grename", ln, t, g]]
    if k == 6 and len(gl) >= 2:
        a, b = rng.sample(gl, 2)
        if (a in fg.BASES) == (b in fg.BASES):
            return [["gdel", ln, b], ["grename", ln, a, b]]
    if k == 7:
        free = [n for n in fg.LAYER_NAMES if n not in [l["name"] for l in spec["layers"]]]
        others = [l["name"] for l in spec["layers"] if l["name"] != spec["default"]]
        if free and others:
            o = rng.choice(others)
            return [["lrename", o, free[0]], ["ldefault", free[0]]]
    if k == 8 and spec.get("guidelines"):
        return [["fguideattr", 0, "y", 333]]
    return []


def _edit_everywhere(spec_layers):
    """one cheap content edit in every layer that holds a glyph, and a new glyph in every layer"""
    ops = []
    for l in spec_layers:
        for gn in sorted(l["glyphs"])[:1]:
            ops.append(["gfield", l["name"], gn, "width", 901])
        ops.append(["gnew", l["name"], "space"])
    return ops


def neighbourhood(case, step, rng):
    """histories around a step at which model and code parted: the history up to (and including) that step, followed
    by what the property speaks about — an in-place save (whose read-back, orphan, flag and second-save oracles then
    judge the UFO against the shadow content), the step repeated or undone before the save, further edits and a second
    in-place save, a complete save in between.  Everything is judged by the direct oracles of run_case."""
    ops = case["ops"]
    n_setup = len(model_lines(case)) - len(ops)
    j = max(0, min(len(ops) - 1, step - n_setup))
    structure = case.get("structure", "package")
    save = ["save", "inplace", structure]
    save_new = ["save", "new", structure]
    sh = Shadow(case["spec"])
    for o in ops[:j + 1]:
        if o[0] != "save":
            sh.do(o)
    layers_now = sh.s["layers"]
    edits = _edit_everywhere(layers_now)
    op = ops[j]
    k = op[0]
    undo = []
    if k == "img":
        undo = [[["img", op[1], 6], ["img", op[1], None], ["img", op[1], 6]], [["img", op[1], None]], [["img", op[1], 5]], [["img", op[1], 5], ["img", op[1], None]],
                [["img", op[1], None], ["img", op[1], 5], ["img", op[1], None]]]
    elif k == "dat":
        undo = [[["dat", op[1], 6], ["dat", op[1], None], ["dat", op[1], 6]], [["dat", op[1], None]], [["dat", op[1], 5]], [["dat", op[1], 5], ["dat", op[1], None]],
                [["dat", op[1], None], ["dat", op[1], 5], ["dat", op[1], None]]]
    elif k == "gdel":
        undo = [[["gnew", op[1], op[2]]], [["gnew", op[1], op[2]], ["gdel", op[1], op[2]]]]
    elif k in ("gnew", "ginsert"):
        undo = [[["gdel", op[1], op[2]]], [["gdel", op[1], op[2]], ["gnew", op[1], op[2]]]]
    elif k == "grename":
        undo = [[["grename", op[1], op[3], op[2]]], [["gnew", op[1], op[2]]]]
    elif k == "lrename":
        undo = [[["lrename", op[2], op[1]]], [["lnew", op[1]]], [["lnew", op[1]], ["ldel", op[1]], ["lrename", op[2], op[1]]]]
    elif k == "ldel":
        undo = [[["lnew", op[1]], ["gnew", op[1], "A"]]]
    elif k == "lnew":
        undo = [[["ldel", op[1]]], [["ldel", op[1]], ["lnew", op[1]]]]
    seen = set()

    def emit(new_ops):
        key = _json.dumps(new_ops, sort_keys=True, default=str)
        if key in seen or new_ops == ops:
            return None
        seen.add(key)
        return dict(case, ops=new_ops)

    base = ops[:j + 1]
    # histories that make the NEXT in-place save replay a non-trivial layer action history (rename away and back around
    # a short-lived namesake; delete and re-create under the same name before a complete save; …)
    layer_stress = []
    names = [l["name"] for l in layers_now]
    free = [n for n in fg.LAYER_NAMES if n not in names]
    others = sorted([l for l in layers_now if l["name"] != sh.s["default"]], key=lambda l: -len(l["glyphs"]))
    for l in others[:2]:
        x = l["name"]
        if free:
            y = free[0]
            layer_stress.append([["lrename", x, y], ["lnew", x], ["ldel", x], ["lrename", y, x], save])
        layer_stress.append([["ldel", x], ["lnew", x], ["gnew", x, "A"], save_new] + edits + [save])
        if free:
            layer_stress.append([["lrename", x, free[0]], ["lnew", x], ["gnew", x, "A"], save_new] + edits + [save])
    if free:
        d = sh.s["default"]
        layer_stress.append([["lrename", d, free[0]], save] + edits + [save])
    undone = [u + [save] for u in undo] + [u + [save_new] + edits + [save] for u in undo]
    generic = [[save], [save, save]]
    generic.append([op, save] if k != "save" else edits + [save])
    generic += [edits + [save], [save] + edits + [save], [save_new] + edits + [save], edits + [save_new] + edits + [save]]
    generic += [[save] + u + [save] for u in undo]
    if k.startswith("l") or k == "save":
        tails = layer_stress[:3] + undone + generic[:1] + layer_stress[3:] + generic[1:]
    else:
        tails = generic[:1] + undone + generic[1:] + layer_stress
    if case.get("origin", "disk") == "memory" and not any(o[0] == "save" for o in base):
        # a font that has never been saved: its first save is a complete one, which forgives what an in-place save
        # does not — let the endings start from a saved font as well
        tails = [x for t in tails[:6] for x in (t, [save] + t)] + tails[6:]
    cands = [base + t for t in tails]
    # the rest of the original history, then the same endings
    cands += [ops + [save], ops + edits + [save], ops + [save_new] + edits + [save]]
    n = 0
    for c in cands:
        v = emit(c)
        if v is not None:
            n += 1
            yield v
            if n >= 14:          # leave some of the search budget to the other diverging histories
                break
    # every unread glyph stays unread: the save paths that skip clean glyphs are the interesting ones
    if case.get("preread_glyphs") or case.get("preread"):
        for c in cands[:4]:
            yield dict(case, ops=c, preread=[], preread_glyphs=[])


def gen_case(rng, tier, save_modes, structures=("package", "zip"), maxops=None, p_save=0.12, sub_edits=0.0,
             empty_features=False):
    spec = fg.gen_font(rng)
    structure = rng.choice(structures)
    origin = "memory" if rng.random() < 0.2 else "disk"
    nops = rng.randint(4, maxops or (16 if tier == "quick" else 40))
    pre = []
    start = spec
    if rng.random() < 0.5:
        # a scripted pattern right at the start (while the spec still describes the font), usually followed by a save
        sc = scenario(rng, spec)
        if sc:
            pre = sc + ([["save", rng.choice(save_modes), structure]] if rng.random() < 0.7 else [])
            sh0 = Shadow(spec)
            for o in sc:
                sh0.do(o)
            start = sh0.s
    ops = pre + gen_ops(rng, start, nops, save_modes, p_save=p_save, structures=structures, sub_edits=sub_edits,
                        empty_features=empty_features)
    if not any(o[0] == "save" for o in ops):
        ops.append(["save", rng.choice(save_modes), structure])
    if origin == "memory" :
        # a new font cannot be saved in place before it has a path
        pass
    pre = [p for p in PARTS if rng.random() < 0.3]
    pre_g = []
    for l in spec["layers"]:
        for gn in l["glyphs"]:
            if rng.random() < 0.3:
                pre_g.append([l["name"], gn])
    return dict(spec=spec, structure=structure, origin=origin, preread=pre, preread_glyphs=pre_g, ops=ops)


# ---------------------------------------------------------------------------------------
# correspondence with the persistence models (driver "persist")
# ---------------------------------------------------------------------------------------
import json as _json
from sexp import Atom, opt

IMG_MD5 = {hashlib.md5(fg.png_bytes(sd)).hexdigest(): sd for sd in range(0, 12)}
DAT_MD5 = {hashlib.md5(fg.data_bytes(sd)).hexdigest(): 100 + sd for sd in range(0, 12)}


class Blobs(object):
    """hash-consing of part values into the opaque blob ids the models use (0 = empty / absent)"""

    def __init__(self):
        self.ids = {}

    def of(self, v):
        if v in (None, "", {}, []) or v == {"info": {}, "guidelines": []}:
            return 0
        key = _json.dumps(v, sort_keys=True)
        if key not in self.ids:
            self.ids[key] = len(self.ids) + 1
        return self.ids[key]


def part_value(spec, part):
    if part == "info":
        return {"info": spec["info"], "guidelines": spec.get("guidelines", [])}
    if part == "lib":
        return {k: v for k, v in spec["lib"].items() if k != "public.glyphOrder"}
    return spec[part]


PART_OF_OP = {"info": "info", "fguide": "info", "fguideattr": "info", "kern": "kerning", "group": "groups", "feat": "features", "lib": "lib"}


# --- what an operation does to the flags below a glyph, as `SubFlags.Prim`s (computed from the shadow content alone) ---

K_CONTOUR, K_COMPONENT, K_ANCHOR, K_GUIDELINE = Atom("contour"), Atom("component"), Atom("anchor"), Atom("guideline")
TOUCH, IMGGET, IMGCLEAR, LIBEDIT = Atom("touch"), Atom("imgget"), Atom("imgclear"), Atom("libedit")


def imgedit(image):
    """an effective change of the image object; afterwards it holds the file name of `image`"""
    return [Atom("imgedit"), opt(image["fileName"] if image is not None else None)]


def shape_of(g):
    """what the glyph's GLIF holds: number of contours, the base glyph of each component, numbers of anchors and
    guidelines, the file name of the image element"""
    return [len(g["contours"]), [c[0] for c in g["components"]], len(g["anchors"]), len(g["guidelines"]),
            opt(g["image"]["fileName"] if g["image"] is not None else None)]


def _dict_flag(values):
    """the flag an anchor / guideline built from a dict arrives with: its guarded setters ran on every given value"""
    return any(v is not None for v in values)


def assign_prims(old, new):
    """fontgen.apply_gspec(glyph, new) on a glyph whose content is `old`"""
    ps = []
    for f in ("width", "height", "unicodes", "note"):
        if old[f] != new[f]:
            ps.append(TOUCH)
    ps.append(LIBEDIT)                                   # glyph.lib = …: `update` always flags the lib
    ps.append([Atom("clear"), K_CONTOUR])
    ps.append([Atom("clear"), K_COMPONENT])
    for _ in new["contours"]:
        ps.append([Atom("append"), K_CONTOUR, False])    # the pen's endPath clears the flag of the contour it built
    for _ in new["components"]:
        ps.append([Atom("append"), K_COMPONENT, True])   # built through the component's setters
    ps.append([Atom("clear"), K_ANCHOR])
    for a in new["anchors"]:
        ps.append([Atom("append"), K_ANCHOR, _dict_flag(a)])
    ps.append([Atom("clear"), K_GUIDELINE])
    for gl in new["guidelines"]:
        ps.append([Atom("append"), K_GUIDELINE, _dict_flag(gl)])
    if new["image"] is None:
        ps.append(IMGCLEAR)
    else:
        ps.append(IMGGET)
        if old["image"] != new["image"]:
            ps.append(imgedit(new["image"]))
    return ps


def copy_prims(src):
    """Glyph.copyDataFromGlyph(source) on a glyph Layer.newGlyph has just made"""
    ps = []
    for f in ("width", "height", "unicodes", "note"):
        if EMPTY_GLYPH[f] != src[f]:
            ps.append(TOUCH)
    ps.append([Atom("clear"), K_GUIDELINE])
    for gl in src["guidelines"]:
        ps.append([Atom("append"), K_GUIDELINE, True])
    ps.append([Atom("clear"), K_ANCHOR])
    for a in src["anchors"]:
        ps.append([Atom("append"), K_ANCHOR, True])
    ps.append(IMGGET)
    if src["image"] is not None:
        ps.append(imgedit(src["image"]))
    for _ in src["contours"]:
        ps.append([Atom("append"), K_CONTOUR, False])
    for _ in src["components"]:
        ps.append([Atom("append"), K_COMPONENT, True])
    ps.append(LIBEDIT)
    return ps


def field_prims(old, f, v):
    """one `gfield` op on a glyph whose content is `old`"""
    if f in ("width", "unicodes", "note"):
        return [TOUCH] if old[f] != v else []
    if f == "libkey":
        if v[1] is None:
            return [LIBEDIT] if v[0] in old["lib"] else []
        return [] if (v[0] in old["lib"] and old["lib"][v[0]] == v[1]) else [LIBEDIT]
    if f == "move":
        ps = [[Atom("editall"), K_CONTOUR]]              # Contour.move is not guarded
        if v[0] or v[1]:
            ps += [[Atom("editall"), K_COMPONENT], [Atom("editall"), K_ANCHOR]]
        return ps
    if f == "inscontour":
        return [[Atom("insert"), K_CONTOUR, 0, True]] if v[0] == "first" else [[Atom("append"), K_CONTOUR, True]]
    if f == "addanchor":
        return [[Atom("append"), K_ANCHOR, _dict_flag(v)]]
    if f == "addguide":
        return [[Atom("append"), K_GUIDELINE, _dict_flag(v)]]
    if f == "clearanchors":
        return [[Atom("clear"), K_ANCHOR]]
    if f == "clearcomps":
        return [[Atom("clear"), K_COMPONENT]]
    if f in ("contourmove", "addpoint"):
        n = len(old["contours"])
        return [[Atom("edit"), K_CONTOUR, v[0] % n]] if n else []
    if f == "compmove":
        n = len(old["components"])
        return [[Atom("edit"), K_COMPONENT, v[0] % n]] if n and (v[1] or v[2]) else []
    if f == "compbase":
        n = len(old["components"])
        return [[Atom("edit"), K_COMPONENT, v[0] % n]] if n and old["components"][v[0] % n][0] != v[1] else []
    if f == "anchorset":
        n = len(old["anchors"])
        return [[Atom("edit"), K_ANCHOR, v[0] % n]] if n and old["anchors"][v[0] % n][ANCHOR_FIELD[v[1]]] != v[2] else []
    if f == "guideset":
        n = len(old["guidelines"])
        return [[Atom("edit"), K_GUIDELINE, v[0] % n]] if n and old["guidelines"][v[0] % n][GUIDE_FIELD[v[1]]] != v[2] else []
    if f == "imgcolor":
        ps = [IMGGET]
        if old["image"] is not None and old["image"]["color"] != v:
            ps.append(imgedit(old["image"]))
        return ps
    if f == "imgset":
        if v is None:
            return [IMGCLEAR]
        return [IMGGET] + ([imgedit(v)] if old["image"] != v else [])
    raise ValueError(f)


def bases_given(old, f, v):
    """the base glyph names handed to components by a `gfield` op (the component starts to observe that glyph)"""
    if f == "compbase" and old["components"] and old["components"][v[0] % len(old["components"])][0] != v[1]:
        return [v[1]]
    return []


def model_lines(case):
    """the same history, abstracted to what the persistence models see"""
    blobs = Blobs()
    sh = Shadow(case["spec"])
    spec = case["spec"]
    lines = []
    q = lambda x: [Atom("quiet"), x]
    if case.get("origin", "disk") == "memory":
        lines.append([Atom("initmem")])
        first = True
        for l in spec["layers"]:
            if first:
                lines.append(q([Atom("lrename"), "public.default", l["name"]]))
                first = False
            else:
                lines.append(q([Atom("lnew"), l["name"]]))
            if l["color"] is not None:
                lines.append(q([Atom("ltouch"), l["name"]]))
            lines.append(q([Atom("llibedit"), l["name"]]))           # layer.lib.update(…) always flags the lib
            for gn, g in l["glyphs"].items():
                lines.append(q([Atom("gnew"), l["name"], gn]))
                lines.append(q([Atom("gedit"), l["name"], gn, assign_prims(EMPTY_GLYPH, g), [c[0] for c in g["components"]]]))
        lines.append(q([Atom("ldefault"), spec["default"]]))
        lines.append(q([Atom("pset"), Atom("info"), blobs.of(part_value(spec, "info"))]))
        for part in ("kerning", "groups", "features", "lib"):
            b = blobs.of(part_value(spec, part))
            if b:
                lines.append(q([Atom("pset"), Atom(part), b]))
        for n, sd in spec["images"].items():
            lines.append(q([Atom("fset"), Atom("images"), n, sd]))
        for n, sd in spec["data"].items():
            lines.append(q([Atom("fset"), Atom("data"), n, 100 + sd]))
    else:
        names = [l["name"] for l in spec["layers"]]
        lines.append([Atom("init"), [[n, sd] for n, sd in spec["images"].items()],
                      [[n, 100 + sd] for n, sd in spec["data"].items()],
                      [[p, blobs.of(part_value(spec, p))] for p in ("info", "groups", "kerning", "features", "lib")],
                      [[n, i] for i, n in enumerate(names)], names.index(spec["default"]), spec["default"],
                      [[i, [[gn, shape_of(g)] for gn, g in l["glyphs"].items()]] for i, l in enumerate(spec["layers"])]])
    for part in case.get("preread", []):
        lines.append(q([Atom("ptouch"), Atom(part)]))
    for ln, gn in case.get("preread_glyphs", []):
        lines.append(q([Atom("gget"), ln, gn]))
    for op in case["ops"]:
        k = op[0]
        old = None
        if k in ("gget", "gread", "gdel", "grename", "gset", "gfield"):
            L0 = sh.layer(op[1])
            old = copy.deepcopy(L0["glyphs"].get(op[2])) if L0 is not None else None
        lchanged = False
        if k == "lcolor":
            lchanged = sh.layer(op[1])["color"] != op[2]
        elif k == "llib":
            lib0 = sh.layer(op[1])["lib"]
            lchanged = (op[2] in lib0) if op[3] is None else (op[2] not in lib0 or lib0[op[2]] != op[3])
        elif k == "fguideattr":
            # the guideline's setters are guarded: assigning the value it holds changes nothing and flags nothing
            gls0 = sh.s.get("guidelines") or []
            lchanged = op[1] < len(gls0) and gls0[op[1]][1 if op[2] == "y" else 3] != op[3]
        ok = sh.do(op) if k != "save" else True
        if k == "fguideattr" and not lchanged:
            ok = False
        if k in PART_OF_OP:
            part = PART_OF_OP[k]
            ln = [Atom("pquiet" if k == "fguideattr" else "pset"), Atom(part), blobs.of(part_value(sh.s, part))] if ok else [Atom("ptouch"), Atom(part)]
            lines.append(q(ln) if part == "lib" else ln)
        elif k == "touch":
            lines.append(q([Atom("ptouch"), Atom(op[1])]) if op[1] == "lib" else [Atom("ptouch"), Atom(op[1])])
        elif k == "img":
            lines.append([Atom("fdel"), Atom("images"), op[1]] if op[2] is None else [Atom("fset"), Atom("images"), op[1], op[2]])
        elif k == "imgget":
            lines.append([Atom("fget"), Atom("images"), op[1]])
        elif k == "dat":
            lines.append([Atom("fdel"), Atom("data"), op[1]] if op[2] is None else [Atom("fset"), Atom("data"), op[1], 100 + op[2]])
        elif k == "datget":
            lines.append([Atom("fget"), Atom("data"), op[1]])
        elif k == "lnew":
            lines.append([Atom("lnew"), op[1]])
        elif k == "ldel":
            lines.append([Atom("ldel"), op[1]])
        elif k == "lrename":
            lines.append([Atom("lrename"), op[1], op[2]])
        elif k == "ldefault":
            lines.append([Atom("ldefault"), op[1]])
        elif k == "lorder":
            lines.append([Atom("lorder"), list(op[1])])
        elif k == "lcolor":
            lines.append([Atom("ltouch"), op[1]] if lchanged else [Atom("noop")])
        elif k == "llib":
            lines.append([Atom("llibedit"), op[1]] if lchanged else [Atom("noop")])
        elif k in ("gget", "gread"):
            lines.append([Atom("gget"), op[1], op[2]])
        elif k == "gnew":
            lines.append([Atom("gnew"), op[1], op[2]])
        elif k == "ginsert":
            lines.append([Atom("ginsert"), op[1], op[2], copy_prims(op[3]), [c[0] for c in op[3]["components"]]])
        elif k == "gdel":
            lines.append([Atom("gdel"), op[1], op[2]])
        elif k == "grename":
            lines.append([Atom("grename"), op[1], op[2], op[3]])
        elif k == "gset":
            lines.append([Atom("gedit"), op[1], op[2], assign_prims(old, op[3]) if old is not None else [],
                          [c[0] for c in op[3]["components"]] if old is not None else []])
        elif k == "gfield":
            lines.append([Atom("gedit"), op[1], op[2], field_prims(old, op[3], op[4]) if old is not None else [],
                          bases_given(old, op[3], op[4]) if old is not None else []])
        elif k == "save":
            lines.append([Atom("save"), Atom("SAVEMODE")])      # mode patched below
        else:
            lines.append([Atom("noop")])
    # a save is in place iff the font has a path by then and the mode says so
    has_path = case.get("origin", "disk") != "memory"
    for ln, op in zip(lines[len(lines) - len(case["ops"]):], case["ops"]):
        if op[0] == "save":
            inplace = op[1] == "inplace" and has_path
            ln[1] = Atom("inplace" if inplace else "as")
            has_path = True
    return lines


def files_snapshot(fs):
    ent = [Atom("set")] + [[n, e["data"] is not None, bool(e["dirty"])] for n, e in fs._data.items()]
    return [ent, [Atom("set")] + list(fs._scheduledForDeletion.keys()), bool(fs.dirty)]


def part_flags(font, part):
    obj = getattr(font, "_" + part)
    return [obj is not None, bool(obj.dirty) if obj is not None else False]


def history_snapshot(ls):
    res = []
    for a in ls._layerActionHistory:
        if a["action"] == "new":
            res.append([Atom("new"), a["name"]])
        elif a["action"] == "delete":
            res.append([Atom("delete"), a["name"]])
        elif a["action"] == "rename":
            res.append([Atom("rename"), a["oldName"], a["newName"]])
        elif a["action"] == "default":
            res.append([Atom("default"), a["newDefault"], opt(a["oldDefault"])])
    return res


def layers_snapshot(font):
    ls = font.layers
    return [list(ls.layerOrder), opt(ls.defaultLayer.name if ls.defaultLayer is not None else None), history_snapshot(ls)]


def disk_snapshot(impl, blobs):
    import plistlib
    font = impl.font
    got = fg.read_ufo(font.path)
    images = [Atom("set")] + [[n, IMG_MD5.get(h, 999)] for n, h in got["images"].items()]
    data = [Atom("set")] + [[n, DAT_MD5.get(h, 999)] for n, h in got["data"].items()]
    parts = [Atom("parts")] + [[Atom(p), blobs.of(part_value(got, p))] for p in ("info", "groups", "kerning", "features", "lib")]
    from fontTools.ufoLib import UFOReader
    with UFOReader(font.path, validate=False) as r:
        lc = plistlib.loads(r.fs.readbytes("layercontents.plist"))
    flags = [Atom("flags"), files_snapshot(font.images), files_snapshot(font.data),
             [part_flags(font, p) for p in ("info", "groups", "kerning", "features")]]
    return [[Atom("images"), images], [Atom("data"), data], parts,
            [Atom("layercontents"), [[n, d == "glyphs"] for n, d in lc]], flags]


def sub_flags(g):
    """the flags of what a glyph holds; contours that are still in their shallow form are no objects yet"""
    if g._shallowLoadedContours is not None:
        cont = [False] * len(g._shallowLoadedContours)
    else:
        cont = [bool(c.dirty) for c in g._contours]
    return [cont, [bool(c.dirty) for c in g._components], [bool(a.dirty) for a in g._anchors],
            [bool(x.dirty) for x in g._guidelines], opt(None if g._image is None else bool(g._image.dirty)),
            bool(g._lib is not None and g._lib.dirty)]


def flags_snapshot(font):
    """the dirty flag of every object of the tree, as the persist driver prints it (`encFlags`)"""
    layers = []
    for ln in font.layers.layerOrder:
        layer = font.layers[ln]
        glyphs = [Atom("set")]
        for gn, g in layer._glyphs.items():
            sf = sub_flags(g)
            if g.dirty or any(sf[0]) or any(sf[1]) or any(sf[2]) or any(sf[3]) or (g._image is not None and g._image.dirty) or sf[5]:
                glyphs.append([gn, bool(g.dirty)] + sf)
        layers.append([ln, bool(layer.dirty), bool(layer._lib is not None and layer._lib.dirty), glyphs])
    return [Atom("flags"), bool(font.dirty), bool(font.layers.dirty), [part_flags(font, p)[1] for p in ("info", "groups", "kerning", "features")],
            bool(font.images.dirty), bool(font.data.dirty), layers]


def model_out(impl, op, status, blobs, ok_expected):
    """what the persist driver prints for this op, computed from the real font"""
    if (op[0] in PART_OF_OP and PART_OF_OP[op[0]] == "lib") or (op[0] == "touch" and op[1] == "lib"):
        return Atom("ok")          # the font lib also holds public.glyphOrder (C12): its lines are `quiet`
    return [Atom("out"), component_out(impl, op, status, blobs), flags_snapshot(impl.font)]


def component_out(impl, op, status, blobs):
    k = op[0]
    font = impl.font
    st = Atom("ok") if status == "ok" else [Atom("err"), Atom(status.split(":")[1])]
    if k in PART_OF_OP or k == "touch":
        part = PART_OF_OP.get(k, op[1] if k == "touch" else None)
        if part == "lib":
            return Atom("ok")
        return [Atom("ok"), part_flags(font, part)]
    if k in ("img", "imgget"):
        return [st, files_snapshot(font.images)]
    if k in ("dat", "datget"):
        return [st, files_snapshot(font.data)]
    if k in ("lnew", "ldel", "lrename", "ldefault", "lorder"):
        return [st, layers_snapshot(font)]
    if k == "save":
        if status != "ok":
            return [st]
        return [Atom("ok"), disk_snapshot(impl, blobs)]
    if k in ("lcolor", "llib"):
        return Atom("ok")
    return st
