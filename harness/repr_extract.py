"""AST extractor for C03: regenerates lean/DefconModel/Gen/ReprTables.lean from the defcon working tree.

Three tables, all read from the source text (nothing is imported or executed):

  factories : every class-level `representationFactories = {...}` entry of every module in
              Lib/defcon/objects: (class, representation name, destructive spec).  The spec is
              `.str s` when the source has a parenthesised *string* (Python's `in` is then a
              substring test) and `.names [...]` for a tuple / list / set of string literals.
  posts     : for the representation-bearing classes and Layer, per method the notifications it
              can post on `self`: string literals (or class constants such as
              `self.setItemNotificationName`) passed to `self.postNotification`, `self.dirty = ...`
              => the class's changeNotificationName, closed transitively over `self.method()`
              calls, `super().method()` calls, assignments to properties of self (their setters),
              `self[k] = v` / `del self[k]`.  Purely syntactic: every post in the method body
              counts, whatever branch it sits in (that the posts happen on the effective path
              is what the correspondence run checks).
  observes  : every `<receiver>.addObserver(observer, methodName, notification)` call in
              BaseObject / Glyph / Component: (class, receiver expression, method, notification).

Fail closed: any shape not recognised raises ExtractError (the check then reports a broken tie).
"""
import ast
import os


class ExtractError(Exception):
    pass


OBJECT_DIR = os.path.join("Lib", "defcon", "objects")
POST_CLASSES = ["Contour", "Component", "Glyph", "Groups", "Layer"]
OBSERVE_CLASSES = ["BaseObject", "Glyph", "Component"]
MODULES = ["base", "contour", "component", "glyph", "groups", "layer"]


class ClassInfo(object):
    def __init__(self, node, module):
        self.node = node
        self.name = node.name
        self.module = module
        self.bases = []
        for b in node.bases:
            if isinstance(b, ast.Name):
                self.bases.append(b.id)
            elif isinstance(b, ast.Attribute):
                self.bases.append(b.attr)
            else:
                raise ExtractError("base class expression of %s not understood" % node.name)
        self.methods = {}
        self.consts = {}
        self.setters = {}
        self.factories = None
        for st in node.body:
            if isinstance(st, ast.FunctionDef):
                self.methods[st.name] = st
            elif isinstance(st, ast.Assign) and len(st.targets) == 1 and isinstance(st.targets[0], ast.Name):
                tgt = st.targets[0].id
                v = st.value
                if isinstance(v, ast.Constant) and (isinstance(v.value, str) or v.value is None):
                    self.consts[tgt] = v.value
                elif isinstance(v, ast.Call) and isinstance(v.func, ast.Name) and v.func.id == "property":
                    args = list(v.args)
                    setter = None
                    if len(args) >= 2:
                        setter = args[1]
                    for kw in v.keywords:
                        if kw.arg == "fset":
                            setter = kw.value
                    if setter is not None:
                        if isinstance(setter, ast.Name):
                            self.setters[tgt] = setter.id
                        elif not (isinstance(setter, ast.Constant) and setter.value is None):
                            raise ExtractError("property %s.%s: setter expression not understood" % (self.name, tgt))
                if tgt == "representationFactories":
                    self.factories = v


def load_classes(repo, modules):
    classes = {}
    for m in modules:
        path = os.path.join(repo, OBJECT_DIR, m + ".py")
        tree = ast.parse(open(path).read(), path)
        for node in tree.body:
            if isinstance(node, ast.ClassDef):
                classes[node.name] = ClassInfo(node, m)
    return classes


def mro(classes, name):
    out = []
    todo = [name]
    while todo:
        n = todo.pop(0)
        if n in out or n not in classes:
            continue
        out.append(n)
        todo = classes[n].bases + todo
    return out


def resolve_const(classes, cls, attr):
    for c in mro(classes, cls):
        if attr in classes[c].consts:
            return True, classes[c].consts[attr]
    return False, None


def resolve_method(classes, cls, name, after=None):
    order = mro(classes, cls)
    if after is not None:
        order = order[order.index(after) + 1:] if after in order else []
    for c in order:
        if name in classes[c].methods:
            return c, classes[c].methods[name]
    return None, None


def resolve_setter(classes, cls, prop):
    for c in mro(classes, cls):
        if prop in classes[c].setters:
            return classes[c].setters[prop]
    return None


def _is_self(node):
    return isinstance(node, ast.Name) and node.id == "self"


def _is_super_call(node):
    return isinstance(node, ast.Call) and isinstance(node.func, ast.Name) and node.func.id == "super"


def _walk_no_nested(func):
    """all nodes of a function body without descending into nested defs / lambdas / classes"""
    todo = list(func.body)
    while todo:
        n = todo.pop()
        yield n
        for ch in ast.iter_child_nodes(n):
            if isinstance(ch, (ast.FunctionDef, ast.Lambda, ast.ClassDef, ast.AsyncFunctionDef)):
                continue
            todo.append(ch)


class PostTable(object):
    def __init__(self, classes):
        self.classes = classes
        self.memo = {}
        self.active = set()

    def posts(self, cls, defcls, func):
        """notifications `func` (defined in defcls) can post on self when self is an instance of cls"""
        key = (cls, defcls, func.name)
        if key in self.memo:
            return self.memo[key]
        if key in self.active:
            return set()
        self.active.add(key)
        res = set()
        for n in _walk_no_nested(func):
            if isinstance(n, ast.Call) and isinstance(n.func, ast.Attribute):
                f = n.func
                if _is_self(f.value) and f.attr == "postNotification":
                    res |= self._notification_arg(cls, defcls, func, n)
                elif _is_self(f.value):
                    dc, m = resolve_method(self.classes, cls, f.attr)
                    if m is not None:
                        res |= self.posts(cls, dc, m)
                elif _is_super_call(f.value):
                    dc, m = resolve_method(self.classes, cls, f.attr, after=defcls)
                    if m is not None:
                        res |= self.posts(cls, dc, m)
            targets = []
            if isinstance(n, ast.Assign):
                targets = n.targets
            elif isinstance(n, (ast.AugAssign, ast.AnnAssign)):
                targets = [n.target]
            elif isinstance(n, ast.Delete):
                for t in n.targets:
                    if isinstance(t, ast.Subscript) and _is_self(t.value):
                        dc, m = resolve_method(self.classes, cls, "__delitem__")
                        if m is not None:
                            res |= self.posts(cls, dc, m)
            flat = []
            for t in targets:
                if isinstance(t, (ast.Tuple, ast.List)):
                    flat.extend(t.elts)
                else:
                    flat.append(t)
            for t in flat:
                if isinstance(t, ast.Attribute) and _is_self(t.value):
                    if t.attr == "dirty":
                        ok, v = resolve_const(self.classes, cls, "changeNotificationName")
                        if not ok or not isinstance(v, str):
                            raise ExtractError("%s has no changeNotificationName" % cls)
                        res.add(v)
                    else:
                        s = resolve_setter(self.classes, cls, t.attr)
                        if s is not None:
                            dc, m = resolve_method(self.classes, cls, s)
                            if m is None:
                                raise ExtractError("setter %s.%s not found" % (cls, s))
                            res |= self.posts(cls, dc, m)
                elif isinstance(t, ast.Subscript) and _is_self(t.value):
                    dc, m = resolve_method(self.classes, cls, "__setitem__")
                    if m is not None:
                        res |= self.posts(cls, dc, m)
        self.active.discard(key)
        self.memo[key] = res
        return res

    def _notification_arg(self, cls, defcls, func, call):
        arg = None
        if call.args:
            arg = call.args[0]
        for kw in call.keywords:
            if kw.arg == "notification":
                arg = kw.value
        if arg is None:
            raise ExtractError("%s.%s: postNotification without a notification argument" % (defcls, func.name))
        if isinstance(arg, ast.Constant) and isinstance(arg.value, str):
            return {arg.value}
        if isinstance(arg, ast.Attribute) and _is_self(arg.value):
            ok, v = resolve_const(self.classes, cls, arg.attr)
            if not ok:
                raise ExtractError("%s.%s: notification constant self.%s not found" % (defcls, func.name, arg.attr))
            return set() if v is None else {v}
        # a local variable / parameter: generic relays (BaseObject.postNotification wrappers) are not mutators
        if isinstance(arg, ast.Name) and defcls == "BaseObject":
            return set()
        raise ExtractError("%s.%s: notification argument %s is not a literal or class constant" % (
            defcls, func.name, ast.unparse(arg)))


class GuardTable(object):
    """per method: does every path to a post pass a test first?

    "same"  every statement that posts (directly, through `self.dirty = ...`, through a call / property assignment /
            item assignment on self that posts) sits inside an `if`, or is preceded - at the top level of the body - by
            an `if` that contains a `return`: the method compares first and can return without posting;
    "none"  some posting statement is reached unconditionally.
    Tests that are not value guards are looked through: a bare parameter name (`if postNotification:`) and anything
    that mentions `dispatcher` (is the object attached?).  A statement that delegates the posting to one other method
    takes that method's verdict.  Purely syntactic, like the other tables."""

    def __init__(self, classes, pt):
        self.classes = classes
        self.pt = pt
        self.memo = {}
        self.active = set()

    def _posts_in(self, cls, defcls, func, node):
        fake = ast.FunctionDef(name=func.name + "#stmt", args=func.args, body=[node], decorator_list=[], lineno=0)
        key = (cls, defcls, fake.name)
        self.pt.memo.pop(key, None)
        res = self.pt.posts(cls, defcls, fake)
        self.pt.memo.pop(key, None)
        return res

    def _transparent(self, func, test):
        params = set(a.arg for a in func.args.args + func.args.kwonlyargs)
        if isinstance(test, ast.Name) and test.id in params:
            return True
        return any(isinstance(n, (ast.Name, ast.Attribute)) and
                   ((isinstance(n, ast.Name) and n.id == "dispatcher") or
                    (isinstance(n, ast.Attribute) and n.attr == "dispatcher")) for n in ast.walk(test))

    def _delegate(self, cls, defcls, st):
        """(defining class, method) when the statement hands the whole job to one method of self"""
        call = None
        if isinstance(st, ast.Expr) and isinstance(st.value, ast.Call):
            call = st.value
        elif isinstance(st, ast.Return) and isinstance(st.value, ast.Call):
            call = st.value
        if call is not None and isinstance(call.func, ast.Attribute):
            f = call.func
            if _is_self(f.value):
                return resolve_method(self.classes, cls, f.attr)
            if _is_super_call(f.value):
                return resolve_method(self.classes, cls, f.attr, after=defcls)
        if isinstance(st, ast.Assign) and len(st.targets) == 1:
            t = st.targets[0]
            if isinstance(t, ast.Attribute) and _is_self(t.value) and t.attr != "dirty":
                sname = resolve_setter(self.classes, cls, t.attr)
                if sname is not None:
                    return resolve_method(self.classes, cls, sname)
            if isinstance(t, ast.Subscript) and _is_self(t.value):
                return resolve_method(self.classes, cls, "__setitem__")
        return None, None

    def guard(self, cls, defcls, func):
        key = (cls, defcls, func.name)
        if key in self.memo:
            return self.memo[key]
        if key in self.active:
            return "same"
        self.active.add(key)
        res = self._body(cls, defcls, func, func.body, False)
        self.active.discard(key)
        self.memo[key] = res
        return res

    def _body(self, cls, defcls, func, body, early):
        for st in body:
            if isinstance(st, ast.If):
                if self._transparent(func, st.test):
                    if self._body(cls, defcls, func, st.body, early) == "none":
                        return "none"
                    if self._body(cls, defcls, func, st.orelse, early) == "none":
                        return "none"
                    continue
                if any(isinstance(n, ast.Return) for n in ast.walk(st)):
                    early = True
                continue                      # whatever it posts, it posts behind a test
            if early:
                continue
            if not self._posts_in(cls, defcls, func, st):
                continue
            dc, m = self._delegate(cls, defcls, st)
            if m is not None and self.pt.posts(cls, dc, m):
                if self.guard(cls, dc, m) == "none":
                    return "none"
                continue
            return "none"
        return "same"


class DestroyTable(object):
    """per method the representation names it destroys by a DIRECT `self.destroyRepresentation(...)` call (closed over
    calls of methods of self): a string literal gives the name, anything else gives "*" """

    def __init__(self, classes):
        self.classes = classes
        self.memo = {}
        self.active = set()

    def destroys(self, cls, defcls, func):
        key = (cls, defcls, func.name)
        if key in self.memo:
            return self.memo[key]
        if key in self.active:
            return set()
        self.active.add(key)
        res = set()
        for n in _walk_no_nested(func):
            if isinstance(n, ast.Call) and isinstance(n.func, ast.Attribute) and _is_self(n.func.value):
                f = n.func
                if f.attr in ("destroyRepresentation", "destroyAllRepresentations"):
                    a = n.args[0] if n.args else None
                    if f.attr == "destroyRepresentation" and isinstance(a, ast.Constant) and isinstance(a.value, str):
                        res.add(a.value)
                    else:
                        res.add("*")
                else:
                    dc, m = resolve_method(self.classes, cls, f.attr)
                    if m is not None:
                        res |= self.destroys(cls, dc, m)
        self.active.discard(key)
        self.memo[key] = res
        return res


def extract_factories(repo):
    out = []
    d = os.path.join(repo, OBJECT_DIR)
    for fn in sorted(os.listdir(d)):
        if not fn.endswith(".py"):
            continue
        tree = ast.parse(open(os.path.join(d, fn)).read(), fn)
        for node in tree.body:
            if not isinstance(node, ast.ClassDef):
                continue
            for st in node.body:
                if not (isinstance(st, ast.Assign) and len(st.targets) == 1 and isinstance(st.targets[0], ast.Name)
                        and st.targets[0].id == "representationFactories"):
                    continue
                v = st.value
                if isinstance(v, ast.Constant) and v.value is None:
                    continue
                if not isinstance(v, ast.Dict):
                    raise ExtractError("%s.representationFactories is not a dict literal" % node.name)
                for k, e in zip(v.keys, v.values):
                    if not (isinstance(k, ast.Constant) and isinstance(k.value, str)):
                        raise ExtractError("%s.representationFactories: key not a string literal" % node.name)
                    if not (isinstance(e, ast.Call) and isinstance(e.func, ast.Name) and e.func.id == "dict"):
                        raise ExtractError("%s.representationFactories[%s]: not dict(...)" % (node.name, k.value))
                    kws = {kw.arg: kw.value for kw in e.keywords}
                    if set(kws) != {"factory", "destructiveNotifications"}:
                        raise ExtractError("%s.representationFactories[%s]: unexpected keywords %s" % (
                            node.name, k.value, sorted(kws)))
                    dn = kws["destructiveNotifications"]
                    if isinstance(dn, ast.Constant) and isinstance(dn.value, str):
                        spec = ("str", dn.value)
                    elif isinstance(dn, (ast.Tuple, ast.List, ast.Set)) and all(
                            isinstance(x, ast.Constant) and isinstance(x.value, str) for x in dn.elts):
                        spec = ("names", [x.value for x in dn.elts])
                    else:
                        raise ExtractError("%s.representationFactories[%s]: destructiveNotifications not understood" % (
                            node.name, k.value))
                    fac = kws["factory"]
                    out.append((node.name, k.value, spec, ast.unparse(fac)))
    return out


def extract_register_default(repo):
    """registerRepresentationFactory: default destructive set = [cls.changeNotificationName], wrapped in set()"""
    path = os.path.join(repo, "Lib", "defcon", "__init__.py")
    tree = ast.parse(open(path).read(), path)
    for node in tree.body:
        if isinstance(node, ast.FunctionDef) and node.name == "registerRepresentationFactory":
            default_ok = False
            stores = False
            for st in ast.walk(node):
                if isinstance(st, ast.If) and isinstance(st.test, ast.Compare) and isinstance(st.test.left, ast.Name) \
                        and st.test.left.id == "destructiveNotifications" and len(st.test.ops) == 1 \
                        and isinstance(st.test.ops[0], ast.Is) and isinstance(st.test.comparators[0], ast.Constant) \
                        and st.test.comparators[0].value is None:
                    if len(st.body) == 1 and isinstance(st.body[0], ast.Assign):
                        v = st.body[0].value
                        if isinstance(v, (ast.List, ast.Tuple, ast.Set)) and len(v.elts) == 1 and \
                                ast.unparse(v.elts[0]) == "cls.changeNotificationName":
                            default_ok = True
                if isinstance(st, ast.Assign) and ast.unparse(st.targets[0]) == "cls.representationFactories[name]" and \
                        ast.unparse(st.value) == "dict(factory=factory, destructiveNotifications=destructiveNotifications)":
                    stores = True
            if not (default_ok and stores):
                raise ExtractError("registerRepresentationFactory: default destructive set is no longer "
                                   "[cls.changeNotificationName] stored under cls.representationFactories[name]")
            return True
    raise ExtractError("registerRepresentationFactory not found")


def extract_observes(classes):
    out = []
    for cname in OBSERVE_CLASSES:
        ci = classes[cname]
        for mname, func in sorted(ci.methods.items()):
            for n in _walk_no_nested(func):
                if isinstance(n, ast.Call) and isinstance(n.func, ast.Attribute) and n.func.attr == "addObserver":
                    names = ["observer", "methodName", "notification"]
                    vals = {}
                    for i, a in enumerate(n.args):
                        if i < 3:
                            vals[names[i]] = a
                    for kw in n.keywords:
                        vals[kw.arg] = kw.value
                    if mname == "addObserver":
                        continue        # the BaseObject wrapper itself
                    mn, nt = vals.get("methodName"), vals.get("notification")
                    if not (isinstance(mn, ast.Constant) and isinstance(mn.value, str)):
                        raise ExtractError("%s.%s: addObserver methodName is not a literal" % (cname, mname))
                    if not (isinstance(nt, ast.Constant) and (isinstance(nt.value, str) or nt.value is None)):
                        raise ExtractError("%s.%s: addObserver notification is not a literal" % (cname, mname))
                    if "observer" not in vals or not _is_self(vals["observer"]):
                        raise ExtractError("%s.%s: addObserver observer is not self" % (cname, mname))
                    out.append((cname, ast.unparse(n.func.value), mn.value, "*" if nt.value is None else nt.value))
    return sorted(set(out))


def lean_str(s):
    return '"' + s.replace("\\", "\\\\").replace('"', '\\"') + '"'


def lean_list(xs):
    return "[" + ", ".join(xs) + "]"


def render(repo):
    classes = load_classes(repo, MODULES)
    for c in POST_CLASSES + OBSERVE_CLASSES:
        if c not in classes:
            raise ExtractError("class %s not found" % c)
    facs = extract_factories(repo)
    extract_register_default(repo)
    pt = PostTable(classes)
    posts = []
    for c in POST_CLASSES:
        seen = set()
        for dc in mro(classes, c):
            for mname, func in classes[dc].methods.items():
                if mname in seen:
                    continue
                seen.add(mname)
                ps = pt.posts(c, dc, func)
                if ps:
                    posts.append((c, mname, sorted(ps)))
    posts.sort()
    change = []
    for c in sorted(classes):
        ok, v = resolve_const(classes, c, "changeNotificationName")
        if ok and isinstance(v, str):
            change.append((c, v))
    obs = extract_observes(classes)
    gt = GuardTable(classes, pt)
    dt = DestroyTable(classes)
    guards, destroys = [], []
    for c in POST_CLASSES:
        seen = set()
        for dc in mro(classes, c):
            for mname, func in classes[dc].methods.items():
                if mname in seen:
                    continue
                seen.add(mname)
                if pt.posts(c, dc, func):
                    guards.append((c, mname, gt.guard(c, dc, func)))
                ds = dt.destroys(c, dc, func)
                if ds:
                    destroys.append((c, mname, sorted(ds)))
    guards.sort()
    destroys.sort()

    L = []
    L.append("/-")
    L.append("GENERATED by harness/repr_extract.py from the defcon working tree - do not edit.")
    L.append("Regenerated on every `./check C03`; `Props/C03.lean` discharges its coverage obligations over these tables.")
    L.append("-/")
    L.append("import DefconModel.ReprCore")
    L.append("")
    L.append("namespace DefconModel.Gen.ReprTables")
    L.append("open DefconModel.Repr")
    L.append("")
    L.append("/-- (class, representation name, destructive spec) of every class-level `representationFactories` entry -/")
    L.append("def factories : List (String × String × Destr) := [")
    rows = []
    for (c, name, spec, fac) in facs:
        if spec[0] == "str":
            d = ".str " + lean_str(spec[1])
        else:
            d = ".names " + lean_list([lean_str(x) for x in spec[1]])
        rows.append("  (%s, %s, %s)" % (lean_str(c), lean_str(name), d))
    L.append(",\n".join(rows))
    L.append("]")
    L.append("")
    L.append("/-- `changeNotificationName` per class (what `self.dirty = …` posts; the default destructive set of")
    L.append("`registerRepresentationFactory`, whose shape the extractor checks) -/")
    L.append("def changeName : List (String × String) := [")
    L.append(",\n".join("  (%s, %s)" % (lean_str(c), lean_str(v)) for c, v in change))
    L.append("]")
    L.append("")
    L.append("/-- (class, method) ↦ notifications the method can post on `self` (transitively) -/")
    L.append("def posts : List ((String × String) × List String) := [")
    L.append(",\n".join("  ((%s, %s), %s)" % (lean_str(c), lean_str(m), lean_list([lean_str(x) for x in ps]))
                        for c, m, ps in posts))
    L.append("]")
    L.append("")
    L.append("/-- (class, receiver expression, callback method, notification or \"*\") of every addObserver call -/")
    L.append("def observes : List (String × String × String × String) := [")
    L.append(",\n".join("  (%s, %s, %s, %s)" % tuple(lean_str(x) for x in row) for row in obs))
    L.append("]")
    L.append("")
    L.append("/-- (class, method) ↦ \"same\": every post sits behind a test (the method can return without posting); \"none\": a post is")
    L.append("reached unconditionally -/")
    L.append("def guards : List ((String × String) × String) := [")
    L.append(",\n".join("  ((%s, %s), %s)" % (lean_str(c), lean_str(m), lean_str(g)) for c, m, g in guards))
    L.append("]")
    L.append("")
    L.append("/-- (class, method) ↦ representation names destroyed by a direct `self.destroyRepresentation` call (\"*\": computed) -/")
    L.append("def destroys : List ((String × String) × List String) := [")
    L.append(",\n".join("  ((%s, %s), %s)" % (lean_str(c), lean_str(m), lean_list([lean_str(x) for x in ds]))
                        for c, m, ds in destroys))
    L.append("]")
    L.append("")
    L.append("def tables : Tables := { factories := factories, changeName := changeName, posts := posts, observes := observes,")
    L.append("                         guards := guards, destroys := destroys }")
    L.append("")
    L.append("end DefconModel.Gen.ReprTables")
    L.append("")
    info = dict(factories=len(facs), posts=len(posts), observes=len(obs), classes=len(change), guards=len(guards),
                destroys=len(destroys))
    return "\n".join(L), info, dict(factories=facs, posts=posts, observes=obs, change=change)


def extract(repo, lean_dir):
    text, info, _ = render(repo)
    d = os.path.join(lean_dir, "DefconModel", "Gen")
    os.makedirs(d, exist_ok=True)
    path = os.path.join(d, "ReprTables.lean")
    old = open(path).read() if os.path.exists(path) else None
    changed = []
    if old != text:
        with open(path, "w") as f:
            f.write(text)
        changed.append("Gen/ReprTables.lean")
    return changed, info


if __name__ == "__main__":
    import sys
    text, info, raw = render(sys.argv[1] if len(sys.argv) > 1 else os.environ.get("DEFCON_REPO", "/repo"))
    print(text)
    print(info, file=sys.stderr)
