#!/usr/bin/env python3
"""Validate MANIFEST.json and evidence/*.json against the schemas (needs jsonschema: run with python3-vt)."""
import glob, json, os, sys
import jsonschema
V = os.path.dirname(os.path.dirname(os.path.abspath(__file__)))
ok = True
jsonschema.validate(json.load(open(V + '/MANIFEST.json')), json.load(open('/root/.vp/MANIFEST.schema.json')))
es = json.load(open('/root/.vp/EVIDENCE.schema.json'))
for f in sorted(glob.glob(V + '/evidence/C*.json')):
    try:
        jsonschema.validate(json.load(open(f)), es)
    except Exception as e:
        ok = False
        print(f, 'INVALID', str(e)[:300])
print('valid' if ok else 'INVALID')
sys.exit(0 if ok else 1)
