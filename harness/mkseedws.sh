#!/bin/bash
# usage: mkseedws.sh <Cxx> <n> -> /tmp/seed/<cxx>_<n>/repo (worktree of /repo HEAD), /tmp/seed/<cxx>_<n>/out
set -e
d=/tmp/seed/$(echo $1 | tr A-Z a-z)_$2
mkdir -p $d/out
git -C /repo worktree remove --force $d/repo 2>/dev/null || true
git -C /repo worktree add -q --detach $d/repo HEAD
echo $d
