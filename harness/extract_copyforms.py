"""AST extractor for C13 (independence of copies): regenerates lean/DefconModel/Gen/CopyForms.lean.

For every statement of the code's copy paths whose treatment of a field is SYNTACTICALLY decidable, the table
says which form the statement has - a bare assignment hands the very object over, `list(...)` / a
comprehension over `instantiateX` / a pen build a new container, `deepcopy(...)` copies deeply:

  Glyph.copyDataFromGlyph            one entry per copied field (`self.F = <expr over glyph.F>`), one for the
                                     outline (`glyph.drawPoints(self.getPointPen())`)
  Glyph._set_unicodes / _set_lib / _set_image / _set_guidelines / _set_anchors
                                     what the property setters reached by those assignments store
  Component._set_transformation      whether a sequence that is not a tuple is turned into one before it is stored
  BaseDictObject.__deepcopy__        (what `deepcopy(glyph.lib)` does with the lib's values)
  GlyphObjectPointPen.addComponent / addPoint, Contour.addPoint, Point.__init__
                                     how the pen hands base glyph, transformation, coordinates, name on
  Layer.insertGlyph, Font.insertGlyph  (newGlyph + copyDataFromGlyph; delegation to the default layer)

Lean side: `Cells.expectedForms` must equal the table (`decide`), and the entries of the model's field table
that the forms determine are re-derived from it (`Cells.derivedEntries`).

FAILS CLOSED: a statement of `copyDataFromGlyph` that is none of the recognised shapes becomes an entry
`("Glyph.copyDataFromGlyph.?<n>", "unknown:<source>")` - the table then differs from the expected one and the
obligation breaks; a missing method raises ExtractError.
"""
import ast
import os


class ExtractError(Exception):
    pass


def _src(node):
    try:
        return ast.unparse(node)
    except Exception:
        return ast.dump(node)


def _is_attr(node, base, attr=None):
    return (isinstance(node, ast.Attribute) and isinstance(node.value, ast.Name) and node.value.id == base
            and (attr is None or node.attr == attr))


def _find_method(tree, cls, name):
    for n in tree.body:
        if isinstance(n, ast.ClassDef) and n.name == cls:
            for m in n.body:
                if isinstance(m, ast.FunctionDef) and m.name == name:
                    return m
    raise ExtractError("%s.%s not found" % (cls, name))


def _parse(repo, rel):
    with open(os.path.join(repo, "Lib", "defcon", rel)) as f:
        return ast.parse(f.read())


def _is_docstring(st):
    return isinstance(st, ast.Expr) and isinstance(st.value, ast.Constant) and isinstance(st.value.value, str)


def _value_form(value, src_name, field):
    """form of `<expr>` in `self.F = <expr>` where the source object is the parameter `src_name`"""
    if _is_attr(value, src_name, field):
        return "assign"
    if isinstance(value, ast.Call) and not value.keywords and len(value.args) == 1 and _is_attr(value.args[0], src_name, field):
        f = value.func
        if isinstance(f, ast.Name) and f.id in ("list", "tuple", "dict", "set"):
            return f.id
        if (isinstance(f, ast.Name) and f.id == "deepcopy") or _is_attr(f, "copy", "deepcopy"):
            return "deepcopy"
        if (isinstance(f, ast.Name) and f.id == "copy") or _is_attr(f, "copy", "copy"):
            return "shallowcopy"
    if isinstance(value, ast.ListComp) and len(value.generators) == 1:
        g = value.generators[0]
        if (not g.ifs and isinstance(g.target, ast.Name) and _is_attr(g.iter, src_name, field)
                and isinstance(value.elt, ast.Call) and len(value.elt.args) == 1 and not value.elt.keywords
                and isinstance(value.elt.args[0], ast.Name) and value.elt.args[0].id == g.target.id
                and isinstance(value.elt.func, ast.Attribute) and isinstance(value.elt.func.value, ast.Name)
                and value.elt.func.value.id == "self" and value.elt.func.attr.startswith("instantiate")):
            return "instantiate:" + value.elt.func.attr
    return "unknown:" + _src(value)


def copy_data_forms(fn):
    """entries of Glyph.copyDataFromGlyph(self, glyph)"""
    args = [a.arg for a in fn.args.args]
    if len(args) != 2 or args[0] != "self":
        raise ExtractError("copyDataFromGlyph: unexpected signature %s" % args)
    src = args[1]
    out = []
    pen_var = None
    unknown = 0
    for st in fn.body:
        if _is_docstring(st) or isinstance(st, (ast.Import, ast.ImportFrom, ast.Pass)):
            continue
        if isinstance(st, ast.Assign) and len(st.targets) == 1:
            t = st.targets[0]
            if _is_attr(t, "self"):
                out.append((t.attr, _value_form(st.value, src, t.attr)))
                continue
            if (isinstance(t, ast.Name) and isinstance(st.value, ast.Call) and not st.value.args and not st.value.keywords
                    and _is_attr(st.value.func, "self", "getPointPen")):
                pen_var = t.id
                continue
        if (isinstance(st, ast.Expr) and isinstance(st.value, ast.Call) and _is_attr(st.value.func, src, "drawPoints")
                and len(st.value.args) == 1 and not st.value.keywords):
            a = st.value.args[0]
            own = (isinstance(a, ast.Name) and a.id == pen_var) or \
                (isinstance(a, ast.Call) and not a.args and _is_attr(a.func, "self", "getPointPen"))
            out.append(("outline", "pen" if own else "unknown:" + _src(st)))
            continue
        unknown += 1
        out.append(("?%d" % unknown, "unknown:" + _src(st)))
    return out


def _stores(fn, target_pred):
    """the values assigned (anywhere in fn) to targets satisfying target_pred"""
    res = []
    for n in ast.walk(fn):
        if isinstance(n, ast.Assign) and len(n.targets) == 1 and target_pred(n.targets[0]):
            res.append(n.value)
    return res


def _calls(fn):
    return [n for n in ast.walk(fn) if isinstance(n, ast.Call)]


def setter_store_form(fn, attr):
    """`self.<attr> = <expr>` inside a setter `fn(self, value)`: assign / list / tuple / normalised-tuple"""
    param = fn.args.args[1].arg
    vals = _stores(fn, lambda t: _is_attr(t, "self", attr))
    if len(vals) != 1:
        return "unknown:%d stores" % len(vals)
    v = vals[0]
    if isinstance(v, ast.Call) and isinstance(v.func, ast.Name) and v.func.id in ("list", "tuple") and len(v.args) == 1 \
            and isinstance(v.args[0], ast.Name) and v.args[0].id == param and not v.keywords:
        return v.func.id
    if isinstance(v, ast.Name) and v.id == param:
        # is the parameter re-bound to tuple(param) / list(param) before it is stored?  accepted shapes:
        #   param = tuple(param)                      (unconditional, first level of the body)
        #   if not isinstance(param, tuple): param = tuple(param)
        for st in fn.body:
            if isinstance(st, ast.Assign) and any(isinstance(n, ast.Attribute) and _is_attr(n, "self", attr) for n in st.targets):
                break
            rebind = None
            if isinstance(st, ast.Assign):
                rebind = st
            elif (isinstance(st, ast.If) and not st.orelse and len(st.body) == 1 and isinstance(st.body[0], ast.Assign)
                  and isinstance(st.test, ast.UnaryOp) and isinstance(st.test.op, ast.Not)
                  and isinstance(st.test.operand, ast.Call) and isinstance(st.test.operand.func, ast.Name)
                  and st.test.operand.func.id == "isinstance" and len(st.test.operand.args) == 2
                  and isinstance(st.test.operand.args[0], ast.Name) and st.test.operand.args[0].id == param
                  and isinstance(st.test.operand.args[1], ast.Name) and st.test.operand.args[1].id == "tuple"):
                rebind = st.body[0]
            if rebind is not None and len(rebind.targets) == 1 and isinstance(rebind.targets[0], ast.Name) \
                    and rebind.targets[0].id == param and isinstance(rebind.value, ast.Call) \
                    and isinstance(rebind.value.func, ast.Name) and rebind.value.func.id == "tuple" \
                    and len(rebind.value.args) == 1 and isinstance(rebind.value.args[0], ast.Name) \
                    and rebind.value.args[0].id == param:
                return "tuple"
        return "assign"
    return "unknown:" + _src(v)


def scan(repo):
    glyph = _parse(repo, "objects/glyph.py")
    base = _parse(repo, "objects/base.py")
    comp = _parse(repo, "objects/component.py")
    contour = _parse(repo, "objects/contour.py")
    point = _parse(repo, "objects/point.py")
    layer = _parse(repo, "objects/layer.py")
    font = _parse(repo, "objects/font.py")
    pen = _parse(repo, "pens/glyphObjectPointPen.py")
    out = []
    for f, form in copy_data_forms(_find_method(glyph, "Glyph", "copyDataFromGlyph")):
        out.append(("Glyph.copyDataFromGlyph." + f, form))

    out.append(("Glyph._set_unicodes._unicodes", setter_store_form(_find_method(glyph, "Glyph", "_set_unicodes"), "_unicodes")))
    g = _find_method(glyph, "Glyph", "_get_unicodes")
    rets = [n.value for n in ast.walk(g) if isinstance(n, ast.Return)]
    out.append(("Glyph._get_unicodes", "list" if len(rets) == 1 and isinstance(rets[0], ast.Call)
                and isinstance(rets[0].func, ast.Name) and rets[0].func.id == "list" and len(rets[0].args) == 1
                and _is_attr(rets[0].args[0], "self", "_unicodes") else "unknown:" + ";".join(_src(r) for r in rets)))

    out.append(("Component._set_transformation._transformation",
                setter_store_form(_find_method(comp, "Component", "_set_transformation"), "_transformation")))

    # _set_lib: lib = self.lib; lib.clear(); lib.update(value)
    fn = _find_method(glyph, "Glyph", "_set_lib")
    param = fn.args.args[1].arg
    names = []
    for c in _calls(fn):
        if isinstance(c.func, ast.Attribute) and isinstance(c.func.value, ast.Name) and c.func.value.id == "lib":
            if c.func.attr == "update":
                ok = len(c.args) == 1 and isinstance(c.args[0], ast.Name) and c.args[0].id == param
                names.append("update" if ok else "update:" + _src(c))
            else:
                names.append(c.func.attr)
    rebinds = _stores(fn, lambda t: _is_attr(t, "self", "_lib"))
    out.append(("Glyph._set_lib", "+".join(names) if not rebinds else "rebinds:" + _src(rebinds[0])))

    # _set_image: three stores into the glyph's own Image object
    fn = _find_method(glyph, "Glyph", "_set_image")
    param = fn.args.args[1].arg

    def item_of(v):
        if isinstance(v, ast.Subscript) and isinstance(v.value, ast.Name) and v.value.id == param \
                and isinstance(v.slice, ast.Constant):
            return True
        if isinstance(v, ast.Call) and _is_attr(v.func, param, "get") and len(v.args) >= 1 and isinstance(v.args[0], ast.Constant):
            return True
        return False
    for attr in ("fileName", "transformation", "color"):
        vals = _stores(fn, lambda t: isinstance(t, ast.Attribute) and t.attr == attr and _is_attr(t.value, "self", "_image"))
        if len(vals) != 1:
            form = "unknown:%d stores" % len(vals)
        elif item_of(vals[0]):
            form = "item"
        elif isinstance(vals[0], ast.Tuple) and all(item_of(e) for e in vals[0].elts):
            form = "tuple-of-items"
        else:
            form = "unknown:" + _src(vals[0])
        out.append(("Glyph._set_image." + attr, form))
    rebinds = _stores(fn, lambda t: _is_attr(t, "self", "_image"))
    out.append(("Glyph._set_image._image", "kept" if not rebinds else "rebinds:" + _src(rebinds[0])))

    # _set_guidelines / _set_anchors: clear, then append each
    for what, clear, app in (("guidelines", "clearGuidelines", "appendGuideline"), ("anchors", "clearAnchors", "appendAnchor")):
        fn = _find_method(glyph, "Glyph", "_set_" + what)
        called = [c.func.attr for c in _calls(fn) if _is_attr(c.func, "self")]
        form = "clear+append" if clear in called and app in called else "unknown:" + ",".join(called)
        out.append(("Glyph._set_" + what, form))

    # BaseDictObject.__deepcopy__: obj = self.__class__(); for k, v in self.items(): obj[deepcopy(k)] = deepcopy(v)
    fn = _find_method(base, "BaseDictObject", "__deepcopy__")
    deep = [c for c in _calls(fn) if _is_attr(c.func, "copy", "deepcopy") or (isinstance(c.func, ast.Name) and c.func.id == "deepcopy")]
    deep_args = sorted(a.id for c in deep for a in c.args if isinstance(a, ast.Name))
    out.append(("BaseDictObject.__deepcopy__", "deepcopy-items" if deep_args == ["k", "v"] else "unknown:" + ",".join(deep_args)))

    # GlyphObjectPointPen.addComponent: component.X = <parameter>
    fn = _find_method(pen, "GlyphObjectPointPen", "addComponent")
    params = [a.arg for a in fn.args.args]
    for attr, want in (("baseGlyph", params[1]), ("transformation", params[2])):
        vals = _stores(fn, lambda t: isinstance(t, ast.Attribute) and t.attr == attr and isinstance(t.value, ast.Name)
                       and t.value.id == "component")
        form = "assign" if len(vals) == 1 and isinstance(vals[0], ast.Name) and vals[0].id == want else \
            "unknown:" + ";".join(_src(v) for v in vals)
        out.append(("GlyphObjectPointPen.addComponent." + attr, form))
    fresh = [c for c in _calls(fn) if isinstance(c.func, ast.Attribute) and c.func.attr == "instantiateComponent"]
    out.append(("GlyphObjectPointPen.addComponent.component", "instantiate:instantiateComponent" if len(fresh) == 1 else "unknown"))

    # GlyphObjectPointPen.beginPath / addPoint
    fn = _find_method(pen, "GlyphObjectPointPen", "beginPath")
    fresh = [c for c in _calls(fn) if isinstance(c.func, ast.Attribute) and c.func.attr == "instantiateContour"]
    out.append(("GlyphObjectPointPen.beginPath.contour", "instantiate:instantiateContour" if len(fresh) == 1 else "unknown"))
    fn = _find_method(pen, "GlyphObjectPointPen", "addPoint")
    fw = [c for c in _calls(fn) if isinstance(c.func, ast.Attribute) and c.func.attr == "addPoint"
          and _is_attr(c.func.value, "self", "_contour")]
    ok = len(fw) == 1 and [a.id for a in fw[0].args if isinstance(a, ast.Name)] == [a.arg for a in fn.args.args[1:5]]
    out.append(("GlyphObjectPointPen.addPoint", "forward" if ok else "unknown:" + ";".join(_src(c) for c in fw)))

    # Contour.addPoint: (x, y) = values; point = self._pointClass((x, y), ...)
    fn = _find_method(contour, "Contour", "addPoint")
    param = fn.args.args[1].arg
    unpack = [n for n in ast.walk(fn) if isinstance(n, ast.Assign) and isinstance(n.targets[0], ast.Tuple)
              and isinstance(n.value, ast.Name) and n.value.id == param]
    made = [c for c in _calls(fn) if _is_attr(c.func, "self", "_pointClass")]
    ok = len(unpack) == 1 and len(made) == 1 and made[0].args and isinstance(made[0].args[0], ast.Tuple) \
        and [e.id for e in made[0].args[0].elts if isinstance(e, ast.Name)] == [e.id for e in unpack[0].targets[0].elts]
    out.append(("Contour.addPoint", "unpack+new-point" if ok else "unknown:" + ";".join(_src(c) for c in made)))

    # Point.__init__: (x, y) = coordinates; self._x = x ...
    fn = _find_method(point, "Point", "__init__")
    stored = sorted(t.attr for n in ast.walk(fn) if isinstance(n, ast.Assign) for t in n.targets
                    if _is_attr(t, "self") and isinstance(n.value, ast.Name))
    out.append(("Point.__init__", "assign:" + ",".join(stored)))

    # Layer.insertGlyph: dest = self.newGlyph(name); dest.copyDataFromGlyph(glyph); return dest
    fn = _find_method(layer, "Layer", "insertGlyph")
    called = [c.func.attr for c in _calls(fn) if isinstance(c.func, ast.Attribute) and c.func.attr in
              ("newGlyph", "copyDataFromGlyph", "_insertGlyph", "deepcopy", "copy")]
    out.append(("Layer.insertGlyph", "+".join(called)))
    fn = _find_method(font, "Font", "insertGlyph")
    rets = [n.value for n in ast.walk(fn) if isinstance(n, ast.Return)]
    ok = len(rets) == 1 and isinstance(rets[0], ast.Call) and isinstance(rets[0].func, ast.Attribute) \
        and rets[0].func.attr == "insertGlyph" and _is_attr(rets[0].func.value, "self", "_glyphSet")
    out.append(("Font.insertGlyph", "delegate:_glyphSet.insertGlyph" if ok else "unknown:" + ";".join(_src(r) for r in rets)))
    return out


def _lean_str(s):
    return '"' + s.replace("\\", "\\\\").replace('"', '\\"').replace("\n", "\\n") + '"'


def emit_lean(forms):
    lines = ["/-",
             "REGENERATED on every run of `./check C13` by harness/extract_copyforms.py from the AST of",
             "Lib/defcon/objects/{glyph,base,component,contour,point,layer,font}.py and pens/glyphObjectPointPen.py.",
             "Do not edit.  The syntactic form of every statement of the copy paths that decides how a field is copied.",
             "-/",
             "namespace DefconModel",
             "namespace Gen",
             "namespace CopyForms",
             "",
             "def forms : List (String × String) := ["]
    for i, (k, v) in enumerate(forms):
        lines.append("  (%s, %s)%s" % (_lean_str(k), _lean_str(v), "," if i + 1 < len(forms) else ""))
    lines += ["]", "", "end CopyForms", "end Gen", "end DefconModel", ""]
    return "\n".join(lines)


def extract(repo, lean_dir):
    forms = scan(repo)
    text = emit_lean(forms)
    path = os.path.join(lean_dir, "DefconModel", "Gen", "CopyForms.lean")
    os.makedirs(os.path.dirname(path), exist_ok=True)
    old = open(path).read() if os.path.exists(path) else None
    changed = []
    if old != text:
        with open(path, "w") as f:
            f.write(text)
        changed.append("Gen/CopyForms.lean")
    info = dict(table="Gen/CopyForms.lean", entries=len(forms),
                unknown=[k for k, v in forms if v.startswith("unknown")], obligations=2)
    return changed, info


if __name__ == "__main__":
    import sys
    sys.stdout.write(emit_lean(scan(sys.argv[1] if len(sys.argv) > 1 else os.environ.get("DEFCON_REPO", "/repo"))))
