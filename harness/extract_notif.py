"""C08 extractor: lean/DefconModel/Gen/NotifNames.lean from the AST of Lib/defcon/objects/*.py.

Per class: the names DOCUMENTED in the class docstring ("This object posts the following notifications"),
the `*NotificationName` class attributes, every `self.postNotification(...)` in the class's methods (a string
literal or a `self.<attr>NotificationName` reference).
Per method that posts / holds / releases: the statement-order skeleton
    post <name> <old source> <new source> | hold | release | write | loopStart | loopEnd
in source order (control flow flattened; loops with no event inside dropped; `self.dirty = ...` ignored).
A closure over `self` that posts (Layer.setDataFromSerialization.set_glyph) is extracted as a method of its own.

Fails closed: a statement kind, a notification-name expression or a payload shape it does not recognise raises
`ExtractError` (reported by vcheck as a broken tie, never skipped).
"""
import ast
import os
import re

FILES = ["base", "glyph", "layer", "layerSet", "font", "contour", "component", "anchor", "guideline", "image", "imageSet",
         "info", "features", "lib", "kerning", "groups", "dataSet", "uniData"]
# classes whose objects live on a font's dispatcher (helper parser classes etc. post nothing and document nothing)
OBSERVATION = re.compile(r"^(_?(begin|end)Self\w*Observations?|_(begin|end)\w*Observations?|(begin|end)\w*NotificationObservation"
                         r"|addObserver|removeObserver|hasObserver|destroyRepresentation|destroyAllRepresentations)$")
MUTATING_ASSIGNED = {"newGlyph", "newLayer", "pop", "popitem"}
# methods the catalogue transcribes although they post nothing themselves (they only call methods that do)
ALSO = {("Glyph", "copyDataFromGlyph"), ("Contour", "_set_clockwise")}
OLD_KEYS = ("oldValue", "oldName", "oldColor")
NEW_KEYS = ("newValue", "newName", "newColor")


class ExtractError(Exception):
    pass


def rooted_at_self(node):
    """is the expression an attribute / subscript / call chain that starts at `self` or `super()`?"""
    while True:
        if isinstance(node, ast.Attribute):
            node = node.value
        elif isinstance(node, ast.Subscript):
            node = node.value
        elif isinstance(node, ast.Call):
            if isinstance(node.func, ast.Name):
                return node.func.id == "super"
            node = node.func
        elif isinstance(node, ast.Name):
            return node.id == "self"
        else:
            return False


def reads_self(node):
    return any(isinstance(n, ast.Name) and n.id == "self" for n in ast.walk(node))


def names_in(node):
    return [n.id for n in ast.walk(node) if isinstance(n, ast.Name)]


P = ("P", 0)     # a function of the parameters


def join(a, b):
    if a[0] == "S" and b[0] == "S":
        return ("S", max(a[1], b[1]))
    if a[0] == "S":
        return a
    if b[0] == "S":
        return b
    if a[0] == "C" and b[0] == "C":
        return a
    return P


class MethodWalker(object):
    """walks one function body; `k` = number of write events so far on the current path"""

    def __init__(self, cls, func, where):
        self.cls = cls
        self.where = where
        self.params = {a.arg for a in func.args.args + func.args.kwonlyargs}
        if func.args.vararg:
            self.params.add(func.args.vararg.arg)
        if func.args.kwarg:
            self.params.add(func.args.kwarg.arg)
        self.events = []
        self.posts = []          # (NameRef, receiver is self?)
        self.sites = []          # (NameRef, keyword names of the dict(...) payload | None when it is not a dict call)
        self.locals = {}         # name -> classification
        self.dicts = {}          # local name -> dict-building node
        self.closures = []       # nested functions that post on behalf of `self`

    def fail(self, node, what):
        raise ExtractError("%s line %s: %s: %s" % (self.where, getattr(node, "lineno", "?"), what,
                                                   ast.unparse(node)[:120]))

    # classification of an expression evaluated when `k` writes have happened
    def classify(self, node, k):
        if isinstance(node, ast.Constant):
            return ("C", 0)
        if reads_self(node):
            return ("S", k)
        c = ("C", 0) if not names_in(node) else P
        for n in names_in(node):
            if n in self.locals:
                c = join(c, self.locals[n])
            else:
                c = join(c, P)     # parameters, closure variables, globals, builtins
        return c

    def src(self, node, k):
        """payload source class of expression `node` used in a post at write count k"""
        if node is None:
            return "none"
        if isinstance(node, ast.Constant):
            return "const"
        if reads_self(node):
            return "readNow"
        c = self.classify(node, k)
        if c[0] == "S":
            return "capBefore" if c[1] == 0 else "capAfter"
        if c[0] == "C":
            return "const"
        return "param"

    def name_ref(self, node):
        if isinstance(node, ast.Constant) and isinstance(node.value, str):
            return ("lit", node.value)
        if isinstance(node, ast.Attribute) and isinstance(node.value, ast.Name) and node.attr.endswith("NotificationName"):
            return ("attr", node.attr) if node.value.id == "self" else ("other", node.attr)
        self.fail(node, "unrecognised notification name")

    def post(self, call, k):
        recv = call.func.value
        if not (isinstance(recv, ast.Name) and recv.id == "self"):
            return                     # a post on behalf of another object (or the dispatcher call itself)
        name = call.args[0] if call.args else None
        data = call.args[1] if len(call.args) > 1 else None
        for kw in call.keywords:
            if kw.arg == "notification":
                name = kw.value
            elif kw.arg == "data":
                data = kw.value
            else:
                self.fail(call, "unrecognised keyword of postNotification")
        if name is None:
            self.fail(call, "postNotification without a name")
        ref = self.name_ref(name)
        is_self = isinstance(recv, ast.Name) and recv.id == "self"
        if not is_self or ref[0] == "other":
            return                     # a post on behalf of another object: not this class's notification
        old = new = None
        if isinstance(data, ast.Name) and data.id in self.dicts:
            data = self.dicts[data.id]
        keys = None
        if data is None or (isinstance(data, ast.Constant) and data.value is None):
            o = n = "none"
            keys = []
        elif isinstance(data, ast.Call) and isinstance(data.func, ast.Name) and data.func.id == "dict" and not data.args:
            kws = {kw.arg: kw.value for kw in data.keywords}
            olds = [x for x in OLD_KEYS if x in kws]
            news = [x for x in NEW_KEYS if x in kws]
            if len(olds) > 1 or len(news) > 1 or any(x is None for x in kws):
                self.fail(call, "unrecognised payload")
            unknown = [x for x in kws if (x.startswith("old") or x.startswith("new")) and x not in OLD_KEYS + NEW_KEYS]
            if unknown:
                self.fail(call, "unrecognised old/new payload key %s" % unknown)
            o = self.src(kws[olds[0]], k) if olds else "none"
            n = self.src(kws[news[0]], k) if news else "none"
            keys = [kw.arg for kw in data.keywords]
        elif isinstance(data, ast.Dict):
            self.fail(call, "payload written as a dict display")
        else:
            # the payload is an expression (e.g. a forwarded `notification.data`): it may carry old/new values
            o = n = self.src(data, k)
        self.posts.append(ref)
        self.sites.append((ref, keys))
        self.events.append(("post", ref, o, n))

    def assign_local(self, target, cls_):
        if isinstance(target, ast.Name):
            self.locals[target.id] = cls_
        elif isinstance(target, (ast.Tuple, ast.List)):
            for t in target.elts:
                self.assign_local(t, cls_)
        elif isinstance(target, ast.Starred):
            self.assign_local(target.value, cls_)
        else:
            self.fail(target, "unrecognised assignment target")

    def is_dirty_target(self, t):
        return isinstance(t, ast.Attribute) and t.attr == "dirty"

    def walk(self, body, k):
        for st in body:
            k = self.stmt(st, k)
        return k

    def call_event(self, call, k):
        f = call.func
        if isinstance(f, ast.Attribute):
            if f.attr == "postNotification":
                self.post(call, k)
                return k
            if isinstance(f.value, ast.Name) and f.value.id == "self":
                if f.attr == "holdNotifications":
                    self.events.append(("hold",))
                    return k
                if f.attr == "releaseHeldNotifications":
                    self.events.append(("release",))
                    return k
                if f.attr in ("disableNotifications", "enableNotifications"):
                    return k
            if OBSERVATION.match(f.attr):
                return k
            if rooted_at_self(f.value):
                self.events.append(("write",))
                return k + 1
            return k
        if isinstance(f, ast.Name):
            if f.id == "setattr" and call.args and isinstance(call.args[0], ast.Name) and call.args[0].id == "self":
                self.events.append(("write",))
                return k + 1
            return k
        return k

    def stmt(self, st, k):
        if isinstance(st, ast.Expr):
            v = st.value
            if isinstance(v, ast.Constant):
                return k               # docstring
            if isinstance(v, ast.Call):
                return self.call_event(v, k)
            if isinstance(v, (ast.Attribute, ast.Name)):
                return k               # `self.info` : a lazy load triggered for its side effect, no model state
            self.fail(st, "unrecognised expression statement")
        if isinstance(st, (ast.Assign, ast.AnnAssign, ast.AugAssign)):
            targets = st.targets if isinstance(st, ast.Assign) else [st.target]
            value = st.value
            wrote = False
            for t in targets:
                if rooted_at_self(t):
                    if not self.is_dirty_target(t):
                        wrote = True
                elif self.is_dirty_target(t):
                    pass
                elif isinstance(t, (ast.Attribute, ast.Subscript)):
                    pass               # a write into another object (x.glyph = self, data[...] = ...)
                else:
                    c = self.classify(value, k) if value is not None else P
                    if isinstance(st, ast.AugAssign) and isinstance(t, ast.Name) and t.id in self.locals:
                        c = join(c, self.locals[t.id])
                    self.assign_local(t, c)
                    if isinstance(t, ast.Name) and isinstance(value, ast.Call) and isinstance(value.func, ast.Name) \
                            and value.func.id == "dict":
                        self.dicts[t.id] = value
                    if isinstance(value, ast.Call) and isinstance(value.func, ast.Attribute) \
                            and value.func.attr in MUTATING_ASSIGNED and rooted_at_self(value.func.value):
                        wrote = True
            if wrote:
                self.events.append(("write",))
                return k + 1
            return k
        if isinstance(st, ast.Delete):
            if any(rooted_at_self(t) for t in st.targets):
                self.events.append(("write",))
                return k + 1
            return k
        if isinstance(st, ast.If):
            saved = dict(self.locals)
            k1 = self.walk(st.body, k)
            l1 = self.locals
            self.locals = dict(saved)
            k2 = self.walk(st.orelse, k)
            l2 = self.locals
            merged = {}
            for n in set(l1) | set(l2):
                # a name assigned on one path only keeps, on the other, what it was before (a parameter if unknown)
                a = l1.get(n, saved.get(n, P))
                b = l2.get(n, saved.get(n, P))
                merged[n] = a if a == b else join(a, b)
            self.locals = merged
            return max(k1, k2)
        if isinstance(st, (ast.For, ast.While)):
            if isinstance(st, ast.For):
                self.assign_local(st.target, self.classify(st.iter, k))
            mark = len(self.events)
            self.events.append(("loopStart",))
            k1 = self.walk(st.body, k)
            if len(self.events) == mark + 1:
                self.events.pop()
            else:
                self.events.append(("loopEnd",))
            if st.orelse:
                k1 = max(k1, self.walk(st.orelse, k1))
            return k1
        if isinstance(st, ast.Try):
            k1 = self.walk(st.body, k)
            for h in st.handlers:
                k1 = max(k1, self.walk(h.body, k))
            k1 = max(k1, self.walk(st.orelse, k1))
            return max(k1, self.walk(st.finalbody, k1))
        if isinstance(st, ast.With):
            return self.walk(st.body, k)
        if isinstance(st, (ast.Return, ast.Raise, ast.Assert, ast.Pass, ast.Import, ast.ImportFrom, ast.Continue, ast.Break)):
            return k
        if isinstance(st, ast.FunctionDef):
            # a closure over `self`: it runs when it is called, not where it is defined.  If it posts / holds /
            # releases it is extracted as a method of its own, named `<method>.<closure>` (see `closures`)
            if has_notification_call(st):
                if any(a.arg == "self" for a in st.args.args):
                    self.fail(st, "posting closure that rebinds self")
                self.closures.append(st)
            return k
        if isinstance(st, ast.ClassDef):
            if has_notification_call(st):
                self.fail(st, "notification call inside a nested class")
            return k
        self.fail(st, "unrecognised statement kind %s" % type(st).__name__)


def has_notification_call(func):
    for n in ast.walk(func):
        if isinstance(n, ast.Attribute) and n.attr in ("postNotification", "holdNotifications", "releaseHeldNotifications"):
            return True
    return False


def documented_names(cls):
    doc = ast.get_docstring(cls) or ""
    m = re.search(r"\*\*This object posts the following notifications:\*\*", doc)
    if not m:
        if "posts the following" in doc:
            raise ExtractError("class %s: unrecognised documentation of notifications" % cls.name)
        return []
    names = []
    started = False
    for line in doc[m.end():].split("\n"):
        s = line.strip()
        if s.startswith("- "):
            started = True
            n = s[2:].strip()
            if not re.match(r"^[A-Za-z]+\.[A-Za-z_]+$", n):
                raise ExtractError("class %s: unrecognised documented name %r" % (cls.name, n))
            names.append(n)
        elif s == "" and not started:
            continue
        elif started:
            break
        else:
            raise ExtractError("class %s: unrecognised text before the list of notifications" % cls.name)
    return names


def branch_variants(func):
    """for a method whose last statement is `if c: A else: B`: [(suffix, body)] of the two specialisations"""
    body = list(func.body)
    if body and isinstance(body[-1], ast.If) and body[-1].orelse:
        last = body[-1]
        return [("#0", body[:-1] + last.body), ("#1", body[:-1] + last.orelse)]
    return []


def extract_tables(repo):
    classes, skeletons, sites = [], [], []
    for fn in FILES:
        path = os.path.join(repo, "Lib", "defcon", "objects", fn + ".py")
        tree = ast.parse(open(path).read(), path)
        module_funcs = {n.name: n for n in tree.body if isinstance(n, ast.FunctionDef)}
        claimed = set()
        for node in tree.body:
            if not isinstance(node, ast.ClassDef):
                continue
            bases = []
            for b in node.bases:
                if isinstance(b, ast.Name):
                    bases.append(b.id)
                else:
                    raise ExtractError("%s.%s: unrecognised base class" % (fn, node.name))
            attrs, posts = [], []
            funcs = []
            for st in node.body:
                if isinstance(st, ast.Assign) and len(st.targets) == 1 and isinstance(st.targets[0], ast.Name) \
                        and st.targets[0].id.endswith("NotificationName"):
                    if not (isinstance(st.value, ast.Constant) and (st.value.value is None or isinstance(st.value.value, str))):
                        raise ExtractError("%s.%s.%s: unrecognised attribute value" % (fn, node.name, st.targets[0].id))
                    attrs.append((st.targets[0].id, st.value.value))
                elif isinstance(st, ast.FunctionDef):
                    funcs.append((st.name, st))
            # property factories applied by a class decorator (info.py): module-level functions reachable from it
            for dec in node.decorator_list:
                if not isinstance(dec, ast.Name) or dec.id not in module_funcs:
                    raise ExtractError("%s.%s: unrecognised class decorator" % (fn, node.name))
                todo, seen = [dec.id], set()
                while todo:
                    f = todo.pop()
                    if f in seen:
                        continue
                    seen.add(f)
                    claimed.add(f)
                    for n in ast.walk(module_funcs[f]):
                        if isinstance(n, ast.Call) and isinstance(n.func, ast.Name) and n.func.id in module_funcs:
                            todo.append(n.func.id)
                        if isinstance(n, ast.FunctionDef) and n is not module_funcs[f] and has_notification_call(n):
                            if not (n.args.args and n.args.args[0].arg == "self"):
                                raise ExtractError("%s.%s: posting closure without self" % (fn, f))
                            funcs.append(("%s.%s" % (f, n.name), n))
            for mname, func in funcs:
                if not has_notification_call(func) and (node.name, mname) not in ALSO:
                    continue
                where = "%s.py %s.%s" % (fn, node.name, mname)
                w = MethodWalker(node.name, func, where)
                w.walk(func.body, 0)
                for ref in w.posts:
                    posts.append((mname, ref))
                for ref, keys in w.sites:
                    sites.append((node.name, mname, ref, keys))
                skeletons.append((node.name, mname, w.events))
                todo = [(mname, c) for c in w.closures]
                while todo:
                    outer, c = todo.pop(0)
                    cname = "%s.%s" % (outer, c.name)
                    wc = MethodWalker(node.name, c, "%s.py %s.%s" % (fn, node.name, cname))
                    wc.walk(c.body, 0)
                    for ref in wc.posts:
                        posts.append((cname, ref))
                    for ref, keys in wc.sites:
                        sites.append((node.name, cname, ref, keys))
                    skeletons.append((node.name, cname, wc.events))
                    todo += [(cname, cc) for cc in wc.closures]
                for suffix, body in branch_variants(func):
                    w2 = MethodWalker(node.name, func, where + suffix)
                    w2.walk(body, 0)
                    skeletons.append((node.name, mname + suffix, w2.events))
            classes.append(dict(name=node.name, bases=bases, documented=documented_names(node), attrs=attrs, posts=posts))
        for name, f in module_funcs.items():
            if name not in claimed and has_notification_call(f):
                raise ExtractError("%s.py: module-level function %s posts notifications for an unknown class" % (fn, name))
    return classes, skeletons, sites


# ---------------------------------------------------------------------------------------------------
# Lean rendering
# ---------------------------------------------------------------------------------------------------

def lstr(s):
    return '"' + s.replace("\\", "\\\\").replace('"', '\\"') + '"'


def lref(ref):
    return "(.lit %s)" % lstr(ref[1]) if ref[0] == "lit" else "(.attr %s)" % lstr(ref[1])


def lev(e):
    if e[0] == "post":
        return ".post %s .%s .%s" % (lref(e[1]), e[2], e[3])
    return "." + e[0]


def render(classes, skeletons, sites):
    out = ["/- GENERATED by harness/extract_notif.py from $DEFCON_REPO/Lib/defcon/objects on every run of ./check C08.",
           "   Do not edit: the obligations of Props/C08.lean are re-checked over exactly these tables. -/",
           "import DefconModel.NotifTables", "", "namespace DefconModel.Gen.NotifNames", "open DefconModel.Setters", "",
           "def classes : List ClassInfo := ["]
    rows = []
    for c in classes:
        attrs = ", ".join("(%s, %s)" % (lstr(a), "none" if v is None else "some " + lstr(v)) for a, v in c["attrs"])
        posts = ",\n              ".join("(%s, %s)" % (lstr(m), lref(r)[1:-1]) for m, r in c["posts"])
        rows.append("  { name := %s, bases := [%s],\n    documented := [%s],\n    attrs := [%s],\n    posts := [%s] }" % (
            lstr(c["name"]), ", ".join(lstr(b) for b in c["bases"]), ", ".join(lstr(d) for d in c["documented"]), attrs, posts))
    out.append(",\n".join(rows) + "]")
    out += ["", "def skeletons : List MethodSkel := ["]
    rows = []
    for cls, m, evs in skeletons:
        rows.append("  { cls := %s, method := %s,\n    evs := [%s] }" % (lstr(cls), lstr(m), ", ".join(lev(e) for e in evs)))
    out.append(",\n".join(rows) + "]")
    out += ["", "/-- every `self.postNotification(...)`: the keyword names of the `dict(...)` it hands over as data, in source",
            "order (`none`: the payload is not written as a dict call, e.g. a forwarded `notification.data`) -/",
            "def sites : List PostSite := ["]
    rows = []
    for cls, m, ref, keys in sites:
        ks = "none" if keys is None else "some [%s]" % ", ".join(lstr(k) for k in keys)
        rows.append("  { cls := %s, method := %s, name := %s, keys := %s }" % (lstr(cls), lstr(m), lref(ref)[1:-1], ks))
    out.append(",\n".join(rows) + "]")
    out += ["", "def tables : Tables := { classes := classes, skeletons := skeletons, sites := sites }", "",
            "end DefconModel.Gen.NotifNames", ""]
    return "\n".join(out)


def extract(repo, lean_dir):
    classes, skeletons, sites = extract_tables(repo)
    text = render(classes, skeletons, sites)
    path = os.path.join(lean_dir, "DefconModel", "Gen", "NotifNames.lean")
    old = open(path).read() if os.path.exists(path) else None
    changed = []
    if old != text:
        with open(path, "w") as f:
            f.write(text)
        changed.append("Gen/NotifNames.lean")
    info = dict(classes=len(classes), documented_names=sum(len(c["documented"]) for c in classes),
                post_sites=sum(len(c["posts"]) for c in classes), method_skeletons=len(skeletons), obligations=0)
    return changed, info


if __name__ == "__main__":
    import sys
    print(extract(sys.argv[1], sys.argv[2]))
