#!/venv/bin/python
"""resolve a merge conflict in known_findings.json: ours + the entries theirs added or changed relative to the base"""
import json, subprocess
def show(stage):
    return json.loads(subprocess.check_output(["git", "show", ":%d:known_findings.json" % stage], cwd="/verif"))
base, ours, theirs = show(1), show(2), show(3)
key = lambda e: (e["property"], e["id"], e.get("signature"))
bk = dict((key(e), e) for e in base["findings"])
ok = dict((key(e), i) for i, e in enumerate(ours["findings"]))
for e in theirs["findings"]:
    k = key(e)
    if k not in bk:
        if k not in ok:
            ours["findings"].append(e)
    elif bk[k] != e and k in ok:
        ours["findings"][ok[k]] = e
removed = set(bk) - set(key(e) for e in theirs["findings"])
ours["findings"] = [e for e in ours["findings"] if key(e) not in removed]
json.dump(ours, open("/verif/known_findings.json", "w"), indent=1, ensure_ascii=False)
print("known_findings.json merged:", len(ours["findings"]), "entries")
