#!/bin/bash
# re-base kept seed patches that no longer apply to /repo HEAD (3-way, in a scratch worktree); conflicts are listed
WT=/tmp/seed_rebase_$$
git -C /repo worktree add -q --detach $WT HEAD
for d in /verif/seeded/*/; do
  s=$(basename $d)
  if git -C $WT apply --check $d/patch.diff 2>/dev/null; then continue; fi
  if git -C $WT apply --3way $d/patch.diff >/dev/null 2>&1 && [ -z "$(git -C $WT diff --name-only --diff-filter=U)" ]; then
    [ -f $d/patch.orig.diff ] || cp $d/patch.diff $d/patch.orig.diff
    git -C $WT reset -q; git -C $WT diff > $d/patch.diff
    echo "REBASED $s"
  else
    echo "CONFLICT $s"
  fi
  git -C $WT reset -q --hard HEAD
done
git -C /repo worktree remove --force $WT
