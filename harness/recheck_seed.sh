#!/bin/bash
# re-run the confirmation + quick check of a kept seed against the current /repo HEAD: recheck_seed.sh C10-1
set -e
sid=$1; prop=${sid%%-*}
d=$(mktemp -d /tmp/seed_re_XXXX)
cp /verif/seeded/$sid/patch.diff /verif/seeded/$sid/demo.py $d/
[ -f /verif/seeded/$sid/notes.md ] && cp /verif/seeded/$sid/notes.md $d/
/venv/bin/python /verif/harness/confirm_seed.py $d $sid $prop
rm -rf $d
