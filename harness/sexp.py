"""S-expression line protocol shared with lean/DefconModel/Util/SExp.lean.

Python values <-> S-expressions:
  Atom("x")  -> x          str -> "quoted"       int -> 12       bool -> true/false
  None -> none             list/tuple -> ( ... )
  Some(x) -> (some x)
A list whose head is the atom `set` is order-insensitive: canon() sorts its tail.
"""


class Atom(str):
    __slots__ = ()

    def __repr__(self):
        return "Atom(%s)" % str.__repr__(self)


def some(x):
    return [Atom("some"), x]


def opt(x):
    return Atom("none") if x is None else some(x)


def _esc(s):
    return s.replace("\\", "\\\\").replace('"', '\\"').replace("\n", "\\n")


def dumps(v):
    if isinstance(v, Atom):
        return str(v)
    if isinstance(v, bool):
        return "true" if v else "false"
    if v is None:
        return "none"
    if isinstance(v, int):
        return str(v)
    if isinstance(v, str):
        return '"' + _esc(v) + '"'
    if isinstance(v, (list, tuple)):
        return "(" + " ".join(dumps(x) for x in v) + ")"
    raise TypeError("cannot encode %r" % (v,))


def loads(s):
    """Parse one S-expression into nested lists of Atom / str (quoted)."""
    pos = 0
    n = len(s)
    stack = []
    result = None
    while pos < n:
        c = s[pos]
        if c in " \t\r\n":
            pos += 1
        elif c == "(":
            stack.append([])
            pos += 1
        elif c == ")":
            top = stack.pop()
            if stack:
                stack[-1].append(top)
            else:
                result = top
            pos += 1
        elif c == '"':
            pos += 1
            buf = []
            while s[pos] != '"':
                if s[pos] == "\\":
                    pos += 1
                    buf.append("\n" if s[pos] == "n" else s[pos])
                else:
                    buf.append(s[pos])
                pos += 1
            pos += 1
            v = "".join(buf)
            if stack:
                stack[-1].append(v)
            else:
                result = v
        else:
            j = pos
            while j < n and s[j] not in ' \t\r\n()"':
                j += 1
            v = Atom(s[pos:j])
            pos = j
            if stack:
                stack[-1].append(v)
            else:
                result = v
    if stack:
        raise ValueError("unbalanced: %r" % s)
    return result


def canon(v):
    """Canonical string: ints and atoms are compared by their text; `(set ...)` sorted."""
    if isinstance(v, (list, tuple)):
        items = [canon(x) for x in v]
        if items and items[0] == "set" and isinstance(v[0], Atom):
            items = ["set"] + sorted(items[1:])
        return "(" + " ".join(items) + ")"
    return dumps(v)
