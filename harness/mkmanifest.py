#!/venv/bin/python
"""Regenerates MANIFEST.json from the table below (kept here so the file stays valid)."""
import json
import os

VERIF = os.path.dirname(os.path.dirname(os.path.abspath(__file__)))

LEVEL_NOTE = ("Trusted: Lean 4.33.0 kernel (leanchecker re-check in the thorough tier); axioms limited to "
              "propext/Classical.choice/Quot.sound (audited by #print axioms each run, no native_decide/bv_decide); the "
              "statement in lean/DefconModel/Props/{id}.lean; the correspondence harness (generators, adaptor, S-expression "
              "driver glue). The theorems are about the hand-written executable model; the model is tied to /repo's working "
              "tree on every run by running model and implementation on the same generated operation sequences and diffing. ")

CLAIMED = {
    "C04": dict(
        text=("Machine-checked Lean 4 theorems about an executable model of NotificationCenter (registry, counted holds with "
              "coalescing queues, counted disables, dead observers, re-entrant one-shot callback scripts): invariants for every "
              "reachable state and every callback script, exact delivery lists, hold/disable/scope laws, lookup exactness. "
              "The model is tied to the code by a differential run on generated op sequences (incl. re-entrancy and the "
              "BaseObject wrappers) and a flat-specification oracle evaluated on the implementation's own trace."),
        design="DESIGN.md section 5 (C04)",
        note="Modelled not verified: CPython weakref death (explicit kill op), fnmatch restricted to literals/*/?; exception classes mapped to an enum.",
        technique="Lean 4 proof (invariant induction over ops and fuel) + model/implementation correspondence",
    ),
    "C17": dict(
        text=("Machine-checked Lean 4 theorems about an executable model (over the rationals) of defcon's geometry code and the "
              "fontTools pens it runs on (PointToSegmentPen, BasePen incl. implied quadratic points, TransformPen, "
              "ControlBoundsPen, BoundsPen, AreaPen, ReverseContourPointPen): every outline point lies in the control box and in "
              "bounds, bounds lie within control bounds (Bernstein convex hull), move translates points/control bounds/bounds and "
              "keeps the Green area, Contour.move's in-place cache patch commutes with reading and every cached representation "
              "equals the fresh computation in every reachable state, control bounds = plain min/max box of the points, reversal "
              "keeps points, closedness, validity and control bounds, is an involution, and negates the area (every valid contour: "
              "closed from any start, all-off-curve, open), setStartPoint is a rotation that keeps area and control bounds (area = cyclic sum over segments), the four "
              "margin setters read back / keep the opposite margin / adjust width or height. The model is tied to the code by a differential run on generated outlines and op histories (exact on "
              "integer/dyadic coordinates) and an independent oracle (own UFO segment reading, exact polynomial area, derivative-"
              "root extrema, winding number) evaluated on the implementation's own answers, incl. a float stream with tolerance."),
        design="DESIGN.md section 5 (C17)",
        note=("Modelled not verified: fontTools' numeric curve extrema (calcCubicBounds/calcQuadraticBounds) are an oracle parameter "
              "with three stated laws (contains the curve, within the control box, translation-equivariant); IEEE rounding (exact "
              "stream uses dyadic inputs; float stream judged with tolerance); pointInside is cross-checked by the oracle only; "

              "component caches (C03/F11) are not modelled and base glyphs are not edited after being referenced."),
        technique="Lean 4 proof (convex hull, fold invariants, translation equivariance, list algebra) + model/implementation correspondence",
    ),
}

NOT_YET = {}

def main():
    props = [json.loads(l) for l in open(os.path.join(VERIF, "properties.jsonl"))]
    checks = []
    na = []
    for p in props:
        pid = p["id"]
        if pid in CLAIMED:
            c = CLAIMED[pid]
            checks.append(dict(
                property_id=pid,
                quick_cmd="./check %s --tier quick" % pid,
                thorough_cmd="./check %s --tier thorough" % pid,
                evidence_file="evidence/%s.json" % pid,
                replay_cmd_template="./check %s --replay {path}" % pid,
                engine="lean-proof+correspondence",
                level_claimed=dict(category="proof", text=c["text"], design_ref=c["design"]),
                level_note=LEVEL_NOTE.replace("{id}", pid) + c["note"],
                technique=c["technique"],
            ))
        else:
            na.append(dict(property_id=pid, reason=NOT_YET.get(
                pid, "not claimed yet: the Lean model, theorems and correspondence harness for this property are not built "
                     "in this commit (planned, see DESIGN.md section 9); nothing is asserted about it")))
    m = dict(
        version=1,
        setup_cmd="cd lean && lake build",
        hooks=dict(guard="DEFCON_VERIF", enable="no source hooks exist: the harness imports defcon from /repo/Lib in process "
                   "(DEFCON_REPO overrides the path) and observes through the public API",
                   baseline_off_cmd="cd /repo && /venv/bin/python -m pytest -ra -q -p no:cacheprovider --timeout=900 --continue-on-collection-errors",
                   source_commits=[], add_only=True),
        engines=[dict(name="lean-proof+correspondence", path="lean/ + harness/",
                      serves_properties=sorted(CLAIMED),
                      kind_free_text="Lean 4 models and theorems (lake build, #print axioms audit, leanchecker) tied to /repo by a "
                                     "differential correspondence harness (harness/vcheck.py) and regenerated tables")],
        checks=checks,
        notes="Every check: regenerate tables from /repo, lake build, audit axioms, run model and implementation on the same "
              "generated histories, evaluate the direct oracle, classify against known_findings.json. Exit 2 = broken machinery.",
        not_applicable=na,
    )
    with open(os.path.join(VERIF, "MANIFEST.json"), "w") as f:
        json.dump(m, f, indent=1)
        f.write("\n")

if __name__ == "__main__":
    main()
