#!/venv/bin/python
"""Regenerates MANIFEST.json from the table below (kept here so the file stays valid)."""
import json
import os

VERIF = os.path.dirname(os.path.dirname(os.path.abspath(__file__)))

LEVEL_NOTE = ("Trusted: Lean 4.33.0 kernel (leanchecker re-check in the thorough tier); axioms limited to "
              "propext/Classical.choice/Quot.sound (audited by #print axioms each run, no native_decide/bv_decide); the "
              "statement in lean/DefconModel/Props/{id}.lean; the correspondence harness (generators, adaptor, S-expression "
              "driver glue). The theorems are about the hand-written executable model; the model is tied to /repo's working "
              "tree on every run by running model and implementation on the same generated operation sequences and diffing. ")

CLAIMED = {
    "C04": dict(
        text=("Machine-checked Lean 4 theorems about an executable model of NotificationCenter (registry, counted holds with "
              "coalescing queues, counted disables, dead observers, re-entrant one-shot callback scripts): invariants for every "
              "reachable state and every callback script, exact delivery lists, hold/disable/scope laws, lookup exactness. "
              "The model is tied to the code by a differential run on generated op sequences (incl. re-entrancy and the "
              "BaseObject wrappers) and a flat-specification oracle evaluated on the implementation's own trace."),
        design="DESIGN.md section 5 (C04)",
        note="Modelled not verified: CPython weakref death (explicit kill op), fnmatch restricted to literals/*/?; exception classes mapped to an enum.",
        technique="Lean 4 proof (invariant induction over ops and fuel) + model/implementation correspondence",
    ),
    "C07": dict(
        text=("Lean 4 refinement proof about an executable model of Layer's lazy-loading bookkeeping (_glyphs/_keys/"
              "_scheduledForDeletion/glyph set/unicode data): a well-formedness invariant preserved by every operation, and an "
              "abstraction `abs` (the content a user who reads everything sees) with which every operation commutes and of which "
              "every query is a function — so unread / partly read / fully read / memory-only layers are indistinguishable after any "
              "history (theorem lazy_transparent), and an in-place save writes exactly `abs` (save_reopen). glyphsWithOutlines is "
              "proved under the coherence hypothesis and refuted without it (known finding F33). Tied to the code by differential "
              "runs of model and real defcon on generated UFOs in four read-variants, plus a shadow-specification oracle."),
        design="DESIGN.md section 5 (C07)",
        note="Modelled not verified: ufoLib's GLIF scanners and defcon's fast outline parser are represented by the record fields they compute; which glyphs are loaded is not compared (only abstract-content-determined outputs are); layer bounds not compared here.",
        technique="Lean 4 proof (refinement to an abstract partial map, invariant induction over ops) + model/implementation correspondence",
    ),
    "C09": dict(
        text=("Lean 4 invariant proof on the same Layer model: in every state reachable by any sequence of create/replace/insert/"
              "delete/rename/unicodes-assignment/read/save with the unicode data first built at any point, the map is exactly the "
              "inverse of the glyphs' unicodes (no stale, none missing, none twice) — theorem uni_inverse, by induction over the "
              "operation list from set-level characterisations of addGlyphData/removeGlyphData and of the lazy constructor. Tied to "
              "the code by differential runs (unicode-heavy histories, first access at a random position) and a direct oracle."),
        design="DESIGN.md section 5 (C09)",
        note="Domain: unicode lists without duplicates, renames onto absent names. ufoLib's getUnicodes scanner exercised, not modelled. Reload after external change is covered under C05's model, not here.",
        technique="Lean 4 proof (invariant induction over operation sequences) + model/implementation correspondence",
    ),
    "C14": dict(
        text=("Machine-checked Lean 4 theorems about an executable model of defcon's serialization layer (BaseObject._serialize "
              "with whitelist/blacklist, the guarded setter loop, get/setDataFromSerialization of all 16 object kinds, the "
              "Contour recorder play-back, identifier registries, parent/observer wiring), whose getter/setter key tables are "
              "regenerated from the Python AST on every run: (1) `decide` obligations over the complete regenerated tables "
              "(every observable field has a getter AND a setter entry; every key is one the model implements; dynamic kinds "
              "use the expected provider / key source / bulk form; Info covers fontTools' UFO 3 attribute list); (2) for ALL "
              "model objects, deser(ser o) into a new object has equal observable data - per kind, for glyphs in both the "
              "shallow and the fully loaded contour form, for layers, layer sets and whole fonts (layers, order, default, "
              "glyphs, info, kerning, groups, features, lib, temp lib, guidelines, images, data); (3) the rebuilt tree is "
              "wired (parents, observers) for every content, every node's change reaches every ancestor, identifier "
              "registries hold exactly the identifiers in use. Tied to the code by differential runs on generated fonts "
              "(API-built and re-opened UFO 3/2 with unread/partly/fully read glyphs, edit histories, data dict and pickle, "
              "parent-less and in-font targets) and a direct oracle on the real rebuilt objects (public getters, parent "
              "accessors, mutate-every-node propagation probes, registries, cross-tree relays)."),
        design="DESIGN.md section 5 (C14)",
        note=("Checks defcon WITH repo_fixes/C14-*.diff (F22 font guideline identifiers; Layer.GlyphAdded on rebuild so components "
              "find their base glyph; image-set file names). Modelled not verified: leaf Python values are opaque canonical texts "
              "(the model moves and compares them, never computes with them); pickle; Color() normalisation (identity on "
              "stored colours); ufoLib's Info validator (every stored value passed it); weakref/GC. Hypotheses of the theorems: "
              "dict keys unique, an Image holds its 8 entries, identifiers in use distinct per glyph (C10's invariant). "
              "Independence of original and rebuilt object, dirty flags, path/file structure are not part of the property."),
        technique="Lean 4 proof (explicit rebuild equations per kind, composed bottom-up; decide over regenerated tables) + model/implementation correspondence",
    ),
}

NOT_YET = {}

def main():
    props = [json.loads(l) for l in open(os.path.join(VERIF, "properties.jsonl"))]
    checks = []
    na = []
    for p in props:
        pid = p["id"]
        if pid in CLAIMED:
            c = CLAIMED[pid]
            checks.append(dict(
                property_id=pid,
                quick_cmd="./check %s --tier quick" % pid,
                thorough_cmd="./check %s --tier thorough" % pid,
                evidence_file="evidence/%s.json" % pid,
                replay_cmd_template="./check %s --replay {path}" % pid,
                engine="lean-proof+correspondence",
                level_claimed=dict(category="proof", text=c["text"], design_ref=c["design"]),
                level_note=LEVEL_NOTE.replace("{id}", pid) + c["note"],
                technique=c["technique"],
            ))
        else:
            na.append(dict(property_id=pid, reason=NOT_YET.get(
                pid, "not claimed yet: the Lean model, theorems and correspondence harness for this property are not built "
                     "in this commit (planned, see DESIGN.md section 9); nothing is asserted about it")))
    m = dict(
        version=1,
        setup_cmd="cd lean && lake build",
        hooks=dict(guard="DEFCON_VERIF", enable="no source hooks exist: the harness imports defcon from /repo/Lib in process "
                   "(DEFCON_REPO overrides the path) and observes through the public API",
                   baseline_off_cmd="cd /repo && /venv/bin/python -m pytest -ra -q -p no:cacheprovider --timeout=900 --continue-on-collection-errors",
                   source_commits=[], add_only=True),
        engines=[dict(name="lean-proof+correspondence", path="lean/ + harness/",
                      serves_properties=sorted(CLAIMED),
                      kind_free_text="Lean 4 models and theorems (lake build, #print axioms audit, leanchecker) tied to /repo by a "
                                     "differential correspondence harness (harness/vcheck.py) and regenerated tables")],
        checks=checks,
        notes="Every check: regenerate tables from /repo, lake build, audit axioms, run model and implementation on the same "
              "generated histories, evaluate the direct oracle, classify against known_findings.json. Exit 2 = broken machinery.",
        not_applicable=na,
    )
    with open(os.path.join(VERIF, "MANIFEST.json"), "w") as f:
        json.dump(m, f, indent=1)
        f.write("\n")

if __name__ == "__main__":
    main()
