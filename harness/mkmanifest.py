#!/venv/bin/python
"""Regenerates MANIFEST.json from the table below (kept here so the file stays valid)."""
import json
import os

VERIF = os.path.dirname(os.path.dirname(os.path.abspath(__file__)))

LEVEL_NOTE = ("Trusted: Lean 4.33.0 kernel (leanchecker re-check in the thorough tier); axioms limited to "
              "propext/Classical.choice/Quot.sound (audited by #print axioms each run, no native_decide/bv_decide); the "
              "statement in lean/DefconModel/Props/{id}.lean; the correspondence harness (generators, adaptor, S-expression "
              "driver glue). The theorems are about the hand-written executable model; the model is tied to /repo's working "
              "tree on every run by running model and implementation on the same generated operation sequences and diffing. ")

CLAIMED = {
    "C04": dict(
        text=("Machine-checked Lean 4 theorems about an executable model of NotificationCenter (registry, counted holds with "
              "coalescing queues, counted disables, dead observers, re-entrant one-shot callback scripts): invariants for every "
              "reachable state and every callback script, exact delivery lists, hold/disable/scope laws, lookup exactness. "
              "The model is tied to the code by a differential run on generated op sequences (incl. re-entrancy and the "
              "BaseObject wrappers) and a flat-specification oracle evaluated on the implementation's own trace."),
        design="DESIGN.md section 5 (C04)",
        note="Modelled not verified: CPython weakref death (explicit kill op), fnmatch restricted to literals/*/?; exception classes mapped to an enum.",
        technique="Lean 4 proof (invariant induction over ops and fuel) + model/implementation correspondence",
    ),
    "C12": dict(
        text=("Machine-checked Lean 4 theorems about an executable model of Font.glyphOrder / Font.updateGlyphOrder / the font's "
              "Layer.GlyphAdded, GlyphDeleted and GlyphNameChanged callbacks and the layer operations that trigger them (several "
              "layers, lib key): the literal index-based port of updateGlyphOrder refines an index-free specification; for every "
              "well-formed start font (any layers, any start order: absent, empty, partial, complete, superset, with duplicates) "
              "and every history, creation appends iff absent, deletion removes the name iff no layer still has it (evaluated "
              "after the deletion), renaming puts the new name at the old name's index / appends when the old name stays / "
              "keeps an already listed name in place; no name ever gains an occurrence, names not touched keep their relative "
              "order, the order is what the lib holds (key deleted when empty), complete orders stay complete and exact orders "
              "stay exact.  The model is tied to the code by a differential run on generated multi-layer histories over new, "
              "loaded (UFO 3 / UFO 2) and deserialised fonts, plus a clause-by-clause oracle on the implementation's own trace."),
        design="DESIGN.md section 5 (C12)",
        note=("Modelled not verified: notification delivery itself (the callbacks are taken to run synchronously for observed "
              "layers, no user-level holds; delivery is C04's subject); Layer.insertGlyph's hold/release bracket is modelled as "
              "newGlyph (same name-set effect, one GlyphAdded); lazy glyph loading and pending deletions are represented by the "
              "layer's key set only; layers are not renamed and the default layer is not deleted."),
        technique="Lean 4 proof (refinement to an index-free spec, induction over histories) + model/implementation correspondence",
    ),
}

NOT_YET = {}

def main():
    props = [json.loads(l) for l in open(os.path.join(VERIF, "properties.jsonl"))]
    checks = []
    na = []
    for p in props:
        pid = p["id"]
        if pid in CLAIMED:
            c = CLAIMED[pid]
            checks.append(dict(
                property_id=pid,
                quick_cmd="./check %s --tier quick" % pid,
                thorough_cmd="./check %s --tier thorough" % pid,
                evidence_file="evidence/%s.json" % pid,
                replay_cmd_template="./check %s --replay {path}" % pid,
                engine="lean-proof+correspondence",
                level_claimed=dict(category="proof", text=c["text"], design_ref=c["design"]),
                level_note=LEVEL_NOTE.replace("{id}", pid) + c["note"],
                technique=c["technique"],
            ))
        else:
            na.append(dict(property_id=pid, reason=NOT_YET.get(
                pid, "not claimed yet: the Lean model, theorems and correspondence harness for this property are not built "
                     "in this commit (planned, see DESIGN.md section 9); nothing is asserted about it")))
    m = dict(
        version=1,
        setup_cmd="cd lean && lake build",
        hooks=dict(guard="DEFCON_VERIF", enable="no source hooks exist: the harness imports defcon from /repo/Lib in process "
                   "(DEFCON_REPO overrides the path) and observes through the public API",
                   baseline_off_cmd="cd /repo && /venv/bin/python -m pytest -ra -q -p no:cacheprovider --timeout=900 --continue-on-collection-errors",
                   source_commits=[], add_only=True),
        engines=[dict(name="lean-proof+correspondence", path="lean/ + harness/",
                      serves_properties=sorted(CLAIMED),
                      kind_free_text="Lean 4 models and theorems (lake build, #print axioms audit, leanchecker) tied to /repo by a "
                                     "differential correspondence harness (harness/vcheck.py) and regenerated tables")],
        checks=checks,
        notes="Every check: regenerate tables from /repo, lake build, audit axioms, run model and implementation on the same "
              "generated histories, evaluate the direct oracle, classify against known_findings.json. Exit 2 = broken machinery.",
        not_applicable=na,
    )
    with open(os.path.join(VERIF, "MANIFEST.json"), "w") as f:
        json.dump(m, f, indent=1)
        f.write("\n")

if __name__ == "__main__":
    main()
