#!/venv/bin/python
"""Regenerates MANIFEST.json from the table below (kept here so the file stays valid)."""
import json
import os

VERIF = os.path.dirname(os.path.dirname(os.path.abspath(__file__)))

LEVEL_NOTE = ("Trusted: Lean 4.33.0 kernel (leanchecker re-check in the thorough tier); axioms limited to "
              "propext/Classical.choice/Quot.sound (audited by #print axioms each run, no native_decide/bv_decide); the "
              "statement in lean/DefconModel/Props/{id}.lean; the correspondence harness (generators, adaptor, S-expression "
              "driver glue). The theorems are about the hand-written executable model; the model is tied to /repo's working "
              "tree on every run by running model and implementation on the same generated operation sequences and diffing. ")

CLAIMED = {
    "C04": dict(
        text=("Machine-checked Lean 4 theorems about an executable model of NotificationCenter (registry, counted holds with "
              "coalescing queues, counted disables, dead observers, re-entrant one-shot callback scripts): invariants for every "
              "reachable state and every callback script, exact delivery lists, hold/disable/scope laws, lookup exactness. "
              "The model is tied to the code by a differential run on generated op sequences (incl. re-entrancy and the "
              "BaseObject wrappers) and a flat-specification oracle evaluated on the implementation's own trace."),
        design="DESIGN.md section 5 (C04)",
        note="Modelled not verified: CPython weakref death (explicit kill op), fnmatch restricted to literals/*/?; exception classes mapped to an enum.",
        technique="Lean 4 proof (invariant induction over ops and fuel) + model/implementation correspondence",
    ),
    "C19": dict(
        text=("Machine-checked Lean 4 theorems about an executable model of Kerning.find (literal port of fontTools "
              "lookupKerningValue as defcon calls it), the four group-table factories, their caching in getRepresentation "
              "with eviction on Groups.Changed, the BaseDictObject mutators of Groups/Kerning, lazy load and "
              "reloadGroups/reloadKerning (incl. readGroups de-duplication and groupsValidator): for all kerning/groups "
              "obeying the kerning-group rule the lookup equals a reference that scans the groups and takes the first "
              "defined of (a,b),(a,G2 b),(G1 a,b),(G1 a,G2 b) else the default; for ALL operation sequences the cached "
              "machine answers exactly like a cache-free machine (refinement by induction over ops), hence cached tables "
              "are always current and find tracks every edit; table contents characterised; reload yields rule-obeying "
              "groups. Tied to the code by a differential run on generated edit/lookup histories over new fonts and fonts "
              "opened from temp UFOs (external edits + reload), and a brute-force reference oracle evaluated on the "
              "implementation's own answers and tables."),
        design="DESIGN.md section 5 (C19)",
        note=("Modelled not verified: fontTools lookupKerningValue / UFOReader.readGroups / groupsValidator are ported by hand "
              "(validated by the correspondence runs); str.startswith as list-prefix on code points; kerning values are ints. "
              "Outside the quantified domain (stated as assumptions): dict methods defcon does not override (pop, popitem, "
              "setdefault, |=), in-place mutation of member lists, and edits made while the Groups object's notifications "
              "are held/disabled by the caller - these bypass Groups.Changed and do leave stale tables. On content that breaks "
              "the kerning-group rule only model=code is compared (the code takes the last group in dict order; theorem "
              "find_general)."),
        technique="Lean 4 proof (refinement of a cached machine to a cache-free one by induction over ops; list/assoc-list lemmas) + model/implementation correspondence",
    ),
}

NOT_YET = {}

def main():
    props = [json.loads(l) for l in open(os.path.join(VERIF, "properties.jsonl"))]
    checks = []
    na = []
    for p in props:
        pid = p["id"]
        if pid in CLAIMED:
            c = CLAIMED[pid]
            checks.append(dict(
                property_id=pid,
                quick_cmd="./check %s --tier quick" % pid,
                thorough_cmd="./check %s --tier thorough" % pid,
                evidence_file="evidence/%s.json" % pid,
                replay_cmd_template="./check %s --replay {path}" % pid,
                engine="lean-proof+correspondence",
                level_claimed=dict(category="proof", text=c["text"], design_ref=c["design"]),
                level_note=LEVEL_NOTE.replace("{id}", pid) + c["note"],
                technique=c["technique"],
            ))
        else:
            na.append(dict(property_id=pid, reason=NOT_YET.get(
                pid, "not claimed yet: the Lean model, theorems and correspondence harness for this property are not built "
                     "in this commit (planned, see DESIGN.md section 9); nothing is asserted about it")))
    m = dict(
        version=1,
        setup_cmd="cd lean && lake build",
        hooks=dict(guard="DEFCON_VERIF", enable="no source hooks exist: the harness imports defcon from /repo/Lib in process "
                   "(DEFCON_REPO overrides the path) and observes through the public API",
                   baseline_off_cmd="cd /repo && /venv/bin/python -m pytest -ra -q -p no:cacheprovider --timeout=900 --continue-on-collection-errors",
                   source_commits=[], add_only=True),
        engines=[dict(name="lean-proof+correspondence", path="lean/ + harness/",
                      serves_properties=sorted(CLAIMED),
                      kind_free_text="Lean 4 models and theorems (lake build, #print axioms audit, leanchecker) tied to /repo by a "
                                     "differential correspondence harness (harness/vcheck.py) and regenerated tables")],
        checks=checks,
        notes="Every check: regenerate tables from /repo, lake build, audit axioms, run model and implementation on the same "
              "generated histories, evaluate the direct oracle, classify against known_findings.json. Exit 2 = broken machinery.",
        not_applicable=na,
    )
    with open(os.path.join(VERIF, "MANIFEST.json"), "w") as f:
        json.dump(m, f, indent=1)
        f.write("\n")

if __name__ == "__main__":
    main()
