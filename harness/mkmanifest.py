#!/venv/bin/python
"""Regenerates MANIFEST.json from the table below (kept here so the file stays valid)."""
import json
import os

VERIF = os.path.dirname(os.path.dirname(os.path.abspath(__file__)))

LEVEL_NOTE = ("Trusted: Lean 4.33.0 kernel (leanchecker re-check in the thorough tier); axioms limited to "
              "propext/Classical.choice/Quot.sound (audited by #print axioms each run, no native_decide/bv_decide); the "
              "statement in lean/DefconModel/Props/{id}.lean; the correspondence harness (generators, adaptor, S-expression "
              "driver glue). The theorems are about the hand-written executable model; the model is tied to /repo's working "
              "tree on every run by running model and implementation on the same generated operation sequences and diffing. ")

CLAIMED = {
    "C03": dict(
        text=("Machine-checked Lean 4 theorems about an executable model of defcon's representation caches (BaseObject."
              "getRepresentation / destroyRepresentation / self-observation eviction, the sub-key, Contour.move's in-place "
              "patch, the contour -> glyph -> component -> glyph notification routes with base-glyph observation "
              "switching): an invariant 'every cached value equals the factory applied to the object's current view, "
              "to any component nesting depth' preserved by every request, cache-API call, registration, every "
              "Contour / Component / Glyph / Groups mutator incl. move, base re-assignment, insert / remove / re-insert, "
              "and creation / deletion / renaming of (base) glyphs (cache_coherent, for every operation sequence whose "
              "states stay in the structural domain: acyclic, unique ids / names, registrations in place - checked at "
              "run time); cascade completeness by induction on nesting depth (nested_base_eviction); at most one "
              "factory run per (name, kwargs) between changes; sub-key injectivity; the patch geometry over Z; and a "
              "coverage obligation discharged by `decide` over tables REGENERATED from the source on every run "
              "(representationFactories incl. string-instead-of-tuple specs, notifications posted per method, "
              "addObserver routes). Tied to the code by differential runs of model and real defcon (cached keys of "
              "every object and factory-invocation counts after every op) and a direct fresh-factory oracle."),
        design="DESIGN.md section 5 (C03)",
        note="Modelled not verified: contents are opaque version stamps (which cell a call rewrites, no-op guards and the "
             "structural effect of compound glyph mutators are supplied by the adaptor); that the built-in factories are "
             "functions of the model's views is checked only by the oracle; the AST extractor is syntactic. Domain: "
             "acyclic components, one layer, no user holds, Point objects edited through contour mutators only, "
             "newGlyph / rename onto absent names (F16). The model is of the tree with repo_fixes/C03-*.diff applied.",
        technique="Lean 4 proof (invariant induction over operation sequences, induction on nesting depth, decide over "
                  "regenerated tables) + model/implementation correspondence + direct oracle",
    ),
    "C04": dict(
        text=("Machine-checked Lean 4 theorems about an executable model of NotificationCenter (registry, counted holds with "
              "coalescing queues, counted disables, dead observers, re-entrant one-shot callback scripts): invariants for every "
              "reachable state and every callback script, exact delivery lists, hold/disable/scope laws, lookup exactness. "
              "The model is tied to the code by a differential run on generated op sequences (incl. re-entrancy and the "
              "BaseObject wrappers) and a flat-specification oracle evaluated on the implementation's own trace."),
        design="DESIGN.md section 5 (C04)",
        note="Modelled not verified: CPython weakref death (explicit kill op), fnmatch restricted to literals/*/?; exception classes mapped to an enum.",
        technique="Lean 4 proof (invariant induction over ops and fuel) + model/implementation correspondence",
    ),
    "C07": dict(
        text=("Lean 4 refinement proof about an executable model of Layer's lazy-loading bookkeeping (_glyphs/_keys/"
              "_scheduledForDeletion/glyph set/unicode data): a well-formedness invariant preserved by every operation, and an "
              "abstraction `abs` (the content a user who reads everything sees) with which every operation commutes and of which "
              "every query is a function — so unread / partly read / fully read / memory-only layers are indistinguishable after any "
              "history (theorem lazy_transparent), and an in-place save writes exactly `abs` (save_reopen). glyphsWithOutlines is "
              "proved under the coherence hypothesis and refuted without it (known finding F33). Tied to the code by differential "
              "runs of model and real defcon on generated UFOs in four read-variants, plus a shadow-specification oracle."),
        design="DESIGN.md section 5 (C07)",
        note="Modelled not verified: ufoLib's GLIF scanners and defcon's fast outline parser are represented by the record fields they compute; which glyphs are loaded is not compared (only abstract-content-determined outputs are); layer bounds not compared here.",
        technique="Lean 4 proof (refinement to an abstract partial map, invariant induction over ops) + model/implementation correspondence",
    ),
    "C09": dict(
        text=("Lean 4 invariant proof on the same Layer model: in every state reachable by any sequence of create/replace/insert/"
              "delete/rename/unicodes-assignment/read/save with the unicode data first built at any point, the map is exactly the "
              "inverse of the glyphs' unicodes (no stale, none missing, none twice) — theorem uni_inverse, by induction over the "
              "operation list from set-level characterisations of addGlyphData/removeGlyphData and of the lazy constructor. Tied to "
              "the code by differential runs (unicode-heavy histories, first access at a random position) and a direct oracle."),
        design="DESIGN.md section 5 (C09)",
        note="Domain: unicode lists without duplicates, renames onto absent names. ufoLib's getUnicodes scanner exercised, not modelled. Reload after external change is covered under C05's model, not here.",
        technique="Lean 4 proof (invariant induction over operation sequences) + model/implementation correspondence",
    ),
}

NOT_YET = {}

def main():
    props = [json.loads(l) for l in open(os.path.join(VERIF, "properties.jsonl"))]
    checks = []
    na = []
    for p in props:
        pid = p["id"]
        if pid in CLAIMED:
            c = CLAIMED[pid]
            checks.append(dict(
                property_id=pid,
                quick_cmd="./check %s --tier quick" % pid,
                thorough_cmd="./check %s --tier thorough" % pid,
                evidence_file="evidence/%s.json" % pid,
                replay_cmd_template="./check %s --replay {path}" % pid,
                engine="lean-proof+correspondence",
                level_claimed=dict(category="proof", text=c["text"], design_ref=c["design"]),
                level_note=LEVEL_NOTE.replace("{id}", pid) + c["note"],
                technique=c["technique"],
            ))
        else:
            na.append(dict(property_id=pid, reason=NOT_YET.get(
                pid, "not claimed yet: the Lean model, theorems and correspondence harness for this property are not built "
                     "in this commit (planned, see DESIGN.md section 9); nothing is asserted about it")))
    m = dict(
        version=1,
        setup_cmd="cd lean && lake build",
        hooks=dict(guard="DEFCON_VERIF", enable="no source hooks exist: the harness imports defcon from /repo/Lib in process "
                   "(DEFCON_REPO overrides the path) and observes through the public API",
                   baseline_off_cmd="cd /repo && /venv/bin/python -m pytest -ra -q -p no:cacheprovider --timeout=900 --continue-on-collection-errors",
                   source_commits=[], add_only=True),
        engines=[dict(name="lean-proof+correspondence", path="lean/ + harness/",
                      serves_properties=sorted(CLAIMED),
                      kind_free_text="Lean 4 models and theorems (lake build, #print axioms audit, leanchecker) tied to /repo by a "
                                     "differential correspondence harness (harness/vcheck.py) and regenerated tables")],
        checks=checks,
        notes="Every check: regenerate tables from /repo, lake build, audit axioms, run model and implementation on the same "
              "generated histories, evaluate the direct oracle, classify against known_findings.json. Exit 2 = broken machinery.",
        not_applicable=na,
    )
    with open(os.path.join(VERIF, "MANIFEST.json"), "w") as f:
        json.dump(m, f, indent=1)
        f.write("\n")

if __name__ == "__main__":
    main()
