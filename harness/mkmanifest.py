#!/venv/bin/python
"""Regenerates MANIFEST.json from the table below (kept here so the file stays valid)."""
import json
import os

VERIF = os.path.dirname(os.path.dirname(os.path.abspath(__file__)))

LEVEL_NOTE = ("Trusted: Lean 4.33.0 kernel (leanchecker re-check in the thorough tier); axioms limited to "
              "propext/Classical.choice/Quot.sound (audited by #print axioms each run, no native_decide/bv_decide); the "
              "statement in lean/DefconModel/Props/{id}.lean; the correspondence harness (generators, adaptor, S-expression "
              "driver glue). The theorems are about the hand-written executable model; the model is tied to /repo's working "
              "tree on every run by running model and implementation on the same generated operation sequences and diffing. ")

CLAIMED = {
    "C04": dict(
        text=("Machine-checked Lean 4 theorems about an executable model of NotificationCenter (registry, counted holds with "
              "coalescing queues, counted disables, dead observers, re-entrant one-shot callback scripts): invariants for every "
              "reachable state and every callback script, exact delivery lists, hold/disable/scope laws, lookup exactness. "
              "The model is tied to the code by a differential run on generated op sequences (incl. re-entrancy and the "
              "BaseObject wrappers) and a flat-specification oracle evaluated on the implementation's own trace."),
        design="DESIGN.md section 5 (C04)",
        note="Modelled not verified: CPython weakref death (explicit kill op), fnmatch restricted to literals/*/?; exception classes mapped to an enum.",
        technique="Lean 4 proof (invariant induction over ops and fuel) + model/implementation correspondence",
    ),
    "C20": dict(
        text=("Machine-checked Lean 4 theorems about an executable model of UnicodeData.sortGlyphNames (block recursion over nested "
              "lists, flattening, all 10 public and 5 private sort methods incl. the canned design sort, with every font/Unicode "
              "look-up and every module constant as a parameter): for ALL look-up functions, name lists (duplicates, names outside "
              "the font) and descriptor lists the result never holds a name more often than the input (unconditional), and is a "
              "permutation of the input whenever the look-up sorts meet only tags of their ordered table (unconditional for the "
              "table-free types); the remaining case - sort type 'block' drops names without a block - is kept as the full "
              "statement, a _violated witness and KNOWN-FINDING F21a. The model is tied to the code by regenerated tables "
              "(constants, type->method dispatch, canned descriptor lists) and a differential run on ORDERED results; determinism, "
              "input/descriptor/font immutability and exception freedom are judged by a direct oracle on the real calls."),
        design="DESIGN.md section 5 (C20)",
        note=("Modelled not verified: Python str.lower()/isdigit() as ASCII (only affects grouping inside weightedSuffix, not the "
              "permutation theorem); the look-ups are tabulated per case from the real UnicodeData; script/category coverage of the "
              "ordered tables is enumerated over all 0x110000 code points by the extractor on every run. The container-partner "
              "pass is the one repaired by repo_fixes/C20-container-partners.diff."),
        technique="Lean 4 proof (permutation/sub-multiset lemmas per method, structural induction over nested blocks, regenerated-table obligations) + model/implementation correspondence",
    ),
}

NOT_YET = {}

def main():
    props = [json.loads(l) for l in open(os.path.join(VERIF, "properties.jsonl"))]
    checks = []
    na = []
    for p in props:
        pid = p["id"]
        if pid in CLAIMED:
            c = CLAIMED[pid]
            checks.append(dict(
                property_id=pid,
                quick_cmd="./check %s --tier quick" % pid,
                thorough_cmd="./check %s --tier thorough" % pid,
                evidence_file="evidence/%s.json" % pid,
                replay_cmd_template="./check %s --replay {path}" % pid,
                engine="lean-proof+correspondence",
                level_claimed=dict(category="proof", text=c["text"], design_ref=c["design"]),
                level_note=LEVEL_NOTE.replace("{id}", pid) + c["note"],
                technique=c["technique"],
            ))
        else:
            na.append(dict(property_id=pid, reason=NOT_YET.get(
                pid, "not claimed yet: the Lean model, theorems and correspondence harness for this property are not built "
                     "in this commit (planned, see DESIGN.md section 9); nothing is asserted about it")))
    m = dict(
        version=1,
        setup_cmd="cd lean && lake build",
        hooks=dict(guard="DEFCON_VERIF", enable="no source hooks exist: the harness imports defcon from /repo/Lib in process "
                   "(DEFCON_REPO overrides the path) and observes through the public API",
                   baseline_off_cmd="cd /repo && /venv/bin/python -m pytest -ra -q -p no:cacheprovider --timeout=900 --continue-on-collection-errors",
                   source_commits=[], add_only=True),
        engines=[dict(name="lean-proof+correspondence", path="lean/ + harness/",
                      serves_properties=sorted(CLAIMED),
                      kind_free_text="Lean 4 models and theorems (lake build, #print axioms audit, leanchecker) tied to /repo by a "
                                     "differential correspondence harness (harness/vcheck.py) and regenerated tables")],
        checks=checks,
        notes="Every check: regenerate tables from /repo, lake build, audit axioms, run model and implementation on the same "
              "generated histories, evaluate the direct oracle, classify against known_findings.json. Exit 2 = broken machinery.",
        not_applicable=na,
    )
    with open(os.path.join(VERIF, "MANIFEST.json"), "w") as f:
        json.dump(m, f, indent=1)
        f.write("\n")

if __name__ == "__main__":
    main()
