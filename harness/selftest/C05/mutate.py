"""Mutation self-test of the C05 check: applies one small fault at a time to a SCRATCH checkout of defcon
(DEFCON_REPO, never /repo itself: the working tree is edited and restored with git checkout), runs defcon's own
tests and ./check C05, prints the verdicts.  Usage: DEFCON_REPO=/path/to/scratch python mutate.py [names...]"""
import subprocess, sys, os, json
REPO = os.environ.get("DEFCON_REPO")
if not REPO or os.path.realpath(REPO) == "/repo":
    sys.exit("set DEFCON_REPO to a SCRATCH checkout of defcon (its working tree is edited and restored with git checkout)")
VERIF = os.path.dirname(os.path.dirname(os.path.dirname(os.path.dirname(os.path.abspath(__file__)))))
MUTS = {
 "M1_deleted_file_not_reported": ("Lib/defcon/objects/font.py",
   "            if obj._dataOnDisk is not None:\n                result = True\n",
   "            if obj._dataOnDisk is not None:\n                result = True\n            result = False\n"),
 "M2_glyph_gate_newer_only": ("Lib/defcon/objects/layer.py",
   "            if modTime != glyph._dataOnDiskTimeStamp:\n                text = glyphSet.getGLIF(glyphName)",
   "            if modTime > glyph._dataOnDiskTimeStamp:\n                text = glyphSet.getGLIF(glyphName)"),
 "M3_inplace_save_does_not_restamp_glyph": ("Lib/defcon/objects/layer.py",
   "            glyphSet.writeGlyph(glyph.name, glyph, drawPoints)\n            self._stampGlyphDataState(glyph, glyphSet=glyphSet)\n",
   "            glyphSet.writeGlyph(glyph.name, glyph, drawPoints)\n            if saveAs:\n                self._stampGlyphDataState(glyph, glyphSet=glyphSet)\n"),
 "M4_reloadGlyphs_does_not_restamp": ("Lib/defcon/objects/layer.py",
   "                glyph.dirty = False\n                self._stampGlyphDataState(glyph)\n        data = dict(glyphNames=glyphNames)",
   "                glyph.dirty = False\n        data = dict(glyphNames=glyphNames)"),
 "M5_reloadData_keeps_loaded_entry": ("Lib/defcon/objects/dataSet.py",
   "        for fileName in fileNames:\n            self._data[fileName] = _dataDict()\n            data = self[fileName]\n",
   "        for fileName in fileNames:\n            if fileName not in self._data:\n                self._data[fileName] = _dataDict()\n            data = self[fileName]\n"),
 "M6_test_closes_its_reader": ("Lib/defcon/objects/font.py",
   "            oldReader = getattr(self, \"_reader\", None)\n            self._reader = reader\n            if oldReader is not None:\n                oldReader.close()\n",
   "            reader.close()\n"),
 "M7_image_added_ignores_scheduled": ("Lib/defcon/objects/imageSet.py",
   "            if fileName not in self._scheduledForDeletion:\n                addedImages.append(fileName)\n            elif not self._scheduledForDeletion[fileName][\"onDisk\"]:",
   "            if fileName not in self._scheduledForDeletion:\n                addedImages.append(fileName)\n            elif True:\n                pass\n            elif not self._scheduledForDeletion[fileName][\"onDisk\"]:"),
 "M8_kerning_stamp_after_reload_missing": ("Lib/defcon/objects/font.py",
   "                self._kerning.clear()\n                self._kerning.update(kerning)\n                self._stampKerningDataState(reader)\n",
   "                self._kerning.clear()\n                self._kerning.update(kerning)\n"),
 "H_harmless_refactor": ("Lib/defcon/objects/font.py",
   "        # time stamp mismatch\n        elif modTime != obj._dataOnDiskTimeStamp:\n            data = reader.readBytesFromPath(fileName)\n            if data != obj._dataOnDisk:\n                result = True\n",
   "        # time stamp mismatch\n        elif not (modTime == obj._dataOnDiskTimeStamp):\n            onDisk = reader.readBytesFromPath(fileName)\n            result = not (onDisk == obj._dataOnDisk)\n"),
}

MUTS.update({
 "M10_save_does_not_restamp_layer_info": ("Lib/defcon/objects/layerSet.py",
   "                glyphSet.writeLayerInfo(layer)\n                self._stampLayerInfoDataState(layer)\n",
   "                glyphSet.writeLayerInfo(layer)\n"),
 "M11_data_save_keeps_old_digest": ("Lib/defcon/objects/dataSet.py",
   "            data[\"onDiskDigest\"] = _makeDigest(data[\"data\"])\n",
   ""),
 "M12_test_keeps_recreated_glyph_scheduled": ("Lib/defcon/objects/layer.py",
   "            if glyphName in self._scheduledForDeletion:\n                del self._scheduledForDeletion[glyphName]\n            self._keys.add(glyphName)\n        # done. whew.",
   "            self._keys.add(glyphName)\n        # done. whew."),
 "M13_reloaded_layer_bound_to_closed_reader": ("Lib/defcon/objects/layerSet.py",
   "glyphSet = self.font._reader.getGlyphSet(layerName,", "glyphSet = reader.getGlyphSet(layerName,"),
 "M14_lazy_image_stamp_time_missing": ("Lib/defcon/objects/imageSet.py",
   "            d[\"onDiskModTime\"] = reader.getFileModificationTime(\"%s/%s\" % (\"images\", fileName))\n            d[\"onDiskDigest\"] = d[\"digest\"]\n",
   "            d[\"onDiskDigest\"] = d[\"digest\"]\n"),
})

MUTS.update({
 "S1_saveas_keeps_glyphs_scheduled (seed C05-2)": ("Lib/defcon/objects/layer.py",
   "                    glyphSet.deleteGlyph(glyphName)\n        glyphSet.writeContents()\n        self._glyphSet = glyphSet\n        self._scheduledForDeletion.clear()\n",
   "                    glyphSet.deleteGlyph(glyphName)\n            self._scheduledForDeletion.clear()\n        glyphSet.writeContents()\n        self._glyphSet = glyphSet\n"),
 "S2_saveas_keeps_images_scheduled": ("Lib/defcon/objects/imageSet.py",
   "                pass\n        self._scheduledForDeletion.clear()\n",
   "                pass\n        if not saveAs:\n            self._scheduledForDeletion.clear()\n"),
 "S3_saveas_does_not_restamp_glyphs": ("Lib/defcon/objects/layer.py",
   "            glyphSet.writeGlyph(glyph.name, glyph, drawPoints)\n            self._stampGlyphDataState(glyph, glyphSet=glyphSet)\n",
   "            glyphSet.writeGlyph(glyph.name, glyph, drawPoints)\n            if not saveAs:\n                self._stampGlyphDataState(glyph, glyphSet=glyphSet)\n"),
 "S4_saveas_does_not_restamp_layer_info": ("Lib/defcon/objects/layerSet.py",
   "                glyphSet.writeLayerInfo(layer)\n                self._stampLayerInfoDataState(layer)\n",
   "                glyphSet.writeLayerInfo(layer)\n                if not saveAs:\n                    self._stampLayerInfoDataState(layer)\n"),
})

def run(name):
    path, old, new = MUTS[name]
    p = os.path.join(REPO, path)
    s = open(p).read()
    assert s.count(old) == 1, (name, s.count(old))
    open(p, "w").write(s.replace(old, new))
    try:
        t = subprocess.run(["/venv/bin/python", "-m", "pytest", "-q", "-p", "no:cacheprovider", "Lib/defcon/test", "-x", "-q"], cwd=REPO, capture_output=True, text=True)
        tests = t.stdout.strip().split("\n")[-1]
        c = subprocess.run(["./check", "C05"], cwd=VERIF, env=dict(os.environ, DEFCON_REPO=REPO), capture_output=True, text=True)
        tail = [l for l in c.stdout.strip().split("\n") if not l.startswith("KNOWN")][-2:]
        print("==", name, "| pytest:", tests, "| check exit", c.returncode)
        for l in tail: print("   ", l)
        for l in tail:
            if "replay=" in l:
                rp = l.split("replay=")[1].split()[0]
                d = json.load(open(os.path.join(VERIF, rp)))
                v = d.get("violation")
                print("    kind", d.get("kind"), "sig", v.get("signature") if v else None, "ops", len(d.get("case", {}).get("ops", [])))
                if d.get("case"):
                    for op in d["case"]["ops"][:12]:
                        print("       ", json.dumps([x if not isinstance(x, dict) else "{..}" for x in op])[:110])
    finally:
        subprocess.run(["git", "checkout", "--", "."], cwd=REPO)
for n in sys.argv[1:] or list(MUTS):
    run(n)
