#!/venv/bin/python
"""Self-test of harness/extract_classwiring.py: mutate a scratch copy of Lib/defcon and show that the extractor
either CHANGES the regenerated table (so the Lean obligations are re-checked over the new wiring) or FAILS CLOSED;
harmless refactors must leave the table unchanged.  Usage: DEFCON_REPO=/repo extractor_selftest.py   (exit 0 = as expected)
"""
import difflib
import os
import shutil
import sys
import tempfile

HERE = os.path.dirname(os.path.abspath(__file__))
sys.path.insert(0, os.path.join(HERE, "..", ".."))
import extract_classwiring as X  # noqa: E402

BASE = os.environ.get("DEFCON_REPO", "/repo")
TMP = tempfile.mkdtemp(prefix="c15x_")
WORK = os.path.join(TMP, "repo")


def reset():
    shutil.rmtree(WORK, ignore_errors=True)
    shutil.copytree(os.path.join(BASE, "Lib", "defcon"), os.path.join(WORK, "Lib", "defcon"),
                    ignore=shutil.ignore_patterns("test", "__pycache__"))


def mutate(f, old, new):
    p = os.path.join(WORK, "Lib", "defcon", f)
    s = open(p).read()
    assert old in s, (f, old)
    open(p, "w").write(s.replace(old, new, 1))


base = X.strip_lines(X.emit_lean(*X.scan_repo(BASE)))
bad = 0


def run(name, expect):
    global bad
    try:
        t = X.strip_lines(X.emit_lean(*X.scan_repo(WORK)))
        if t == base:
            got, detail = "unchanged", ""
        else:
            d = [l.strip() for l in difflib.unified_diff(base.split("\n"), t.split("\n"), lineterm="", n=0)
                 if not l.startswith(("---", "+++", "@@"))]
            got, detail = "changed", " | ".join(x[:90] for x in d[:2])
    except X.ExtractError as e:
        got, detail = "fail-closed", str(e)[:140]
    ok = got in expect
    bad += not ok
    print("%-4s %-46s %-11s %s" % ("ok" if ok else "BAD", name, got, detail))
    reset()


reset()
try:
    mutate("objects/glyph.py", "anchor = self._anchorClass(\n            glyph=self,", "anchor = Anchor(\n            glyph=self,")
    run("hard-coded Anchor in instantiateAnchor", ["changed"])
    mutate("objects/layer.py", "glyph = self.instantiateGlyphObject()\n        glyph.disableNotifications()\n        glyph.name = name\n        self._insertGlyph(glyph)\n        glyph.enableNotifications()",
           "glyph = Glyph(layer=self)\n        glyph.disableNotifications()\n        glyph.name = name\n        self._insertGlyph(glyph)\n        glyph.enableNotifications()")
    run("newGlyph hard-codes Glyph (new site)", ["changed"])
    mutate("pens/glyphObjectPointPen.py", "self._contour = self._glyph.instantiateContour()",
           "from defcon.objects.contour import Contour\n        self._contour = Contour(glyph=self._glyph)")
    run("pen hard-codes Contour (new site in pens/)", ["changed"])
    mutate("pens/glyphObjectPointPen.py", "self._contour = self._glyph.instantiateContour()",
           "self._contour = self._glyph._contourClass(glyph=self._glyph)")
    run("pen calls glyph._contourClass directly", ["fail-closed"])
    mutate("objects/contour.py", "otherContour = self.__class__(glyph=None, pointClass=self.pointClass)", "otherContour = self.__class__(glyph=None)")
    run("reverse forgets pointClass", ["changed"])
    mutate("objects/contour.py", "otherContour = self.__class__(glyph=None, pointClass=self.pointClass)",
           "otherContour = type(self)(glyph=None, pointClass=self.pointClass)")
    run("reverse uses type(self)", ["fail-closed"])
    mutate("objects/layer.py", "anchorClass=self._glyphAnchorClass,", "anchorClass=self._guidelineClass,")
    run("swapped keyword in instantiateGlyphObject", ["changed"])
    mutate("objects/layerSet.py", "            glyphPointClass=self._glyphPointClass,\n", "")
    run("dropped keyword in instantiateLayer", ["changed"])
    mutate("objects/glyph.py", "        if anchorClass is None:\n            anchorClass = Anchor", "        anchorClass = Anchor")
    run("unconditional default", ["changed"])
    mutate("objects/glyph.py", "        if anchorClass is None:\n            anchorClass = Anchor", "        if anchorClass is None:\n            anchorClass = Guideline")
    run("wrong default class", ["changed"])
    mutate("objects/glyph.py", "        self._anchorClass = anchorClass\n", "        self._anchorClass = anchorClass\n        if layer is None:\n            self._anchorClass = Anchor\n")
    run("conditional overwrite of a slot in __init__", ["fail-closed"])
    mutate("objects/glyph.py", "    def clear(self):", "    def resetClasses(self):\n        self._anchorClass = Anchor\n\n    def clear(self):")
    run("slot written outside __init__", ["fail-closed"])
    mutate("objects/contour.py", "        if pointClass is None:\n            from .point import Point", "        if pointClass is None or glyph is None:\n            from .point import Point")
    run("default under another condition", ["fail-closed"])
    mutate("objects/glyph.py", "if not isinstance(anchor, self._anchorClass):", "if not isinstance(anchor, Anchor):")
    run("isinstance guard against a hard-coded class", ["changed"])
    mutate("objects/glyph.py", "    def clear(self):", "    def anchorFactory(self):\n        return [self._anchorClass]\n\n    def clear(self):")
    run("slot read in an unrecognised position", ["fail-closed"])
    mutate("objects/glyph.py", "        anchor = self._anchorClass(\n            glyph=self,\n            anchorDict=anchorDict)\n        return anchor",
           "        cls = self._anchorClass\n        anchor = cls(glyph=self, anchorDict=anchorDict)\n        return anchor")
    run("refactor: local alias for the slot", ["unchanged"])
    mutate("objects/glyph.py", "        anchor = self._anchorClass(\n            glyph=self,\n            anchorDict=anchorDict)\n        return anchor",
           "        return self._anchorClass(glyph=self, anchorDict=anchorDict)")
    run("refactor: return the call directly", ["unchanged"])
    mutate("objects/contour.py", "otherContour = self.__class__(glyph=None, pointClass=self.pointClass)\n", "otherContour = self.__class__(\n            glyph=None,\n            pointClass=self.pointClass)\n")
    run("refactor: reformatted call", ["unchanged"])
finally:
    shutil.rmtree(TMP, ignore_errors=True)
print("extractor self-test:", "as expected" if not bad else "%d UNEXPECTED" % bad)
sys.exit(1 if bad else 0)
