import warnings; warnings.simplefilter("ignore")
from fnmatch import fnmatchcase
import itertools
aP = ['a', 'c', '[', ']', '!', '-', '*', '^']
aS = ['a', 'b', 'c', '-', ']', '[', '!', '^']
def words(al, n):
    res = [""]
    layer = [""]
    for i in range(n):
        layer = [w + c for w in layer for c in al]
        res += layer
    return res
ss = words(aS, 2)
for p in words(aP, 5):
    print(p + "\t" + "".join("1" if fnmatchcase(s, p) else "0" for s in ss))
