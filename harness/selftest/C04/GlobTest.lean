import DefconModel.Notify
open DefconModel.Notify

def alphaP : List Char := ['a', 'c', '[', ']', '!', '-', '*', '^']
def alphaS : List Char := ['a', 'b', 'c', '-', ']', '[', '!', '^']

def words (al : List Char) : Nat → List (List Char)
  | 0 => [[]]
  | n + 1 => (words al n) ++ ((words al n).filter (fun w => w.length == n)).flatMap (fun w => al.map (fun c => w ++ [c]))

def main : IO Unit := do
  let ss := words alphaS 2
  let out ← IO.getStdout
  for p in words alphaP 5 do
    let bits := String.ofList (ss.map (fun s => if glob p s then '1' else '0'))
    out.putStrLn (String.ofList p ++ "\t" ++ bits)
