#!/bin/bash
# Off-line comparison of the model's glob matcher (lean/DefconModel/Notify.lean: tokenize / globT) with
# fnmatch.fnmatchcase on EVERY pattern of length <= 5 over  a c [ ] ! - * ^  against every string of length <= 2 over
# a b c - ] [ ! ^  (37449 patterns x 73 strings).  Edit alphaP / alphaS / the lengths in both files for other sweeps
# (run in round 3: length <= 7 over  a c - [ ] !  -> 335923 patterns, which found the "`!` after the empty ranges are
# dropped" quirk of fnmatch.translate; length <= 6 over  b - [ ] ! ^ * \  -> 299593 patterns; all equal).
set -e
here="$(cd "$(dirname "$0")" && pwd)"
out="$(mktemp -d)"
trap 'rm -rf "$out"' EXIT
(cd "$here/../../../lean" && lake env lean --run "$here/GlobTest.lean" > "$out/lean.out")
/venv/bin/python "$here/globtest.py" > "$out/py.out" 2>/dev/null
cmp "$out/lean.out" "$out/py.out" && echo "glob: model == fnmatchcase on $(wc -l < "$out/py.out") patterns"
