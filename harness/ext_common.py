"""Shared by C05: a UFO on disk as a plain {relative path: (bytes, raw mtime)} dictionary for both
structures (package directory / .ufoz zip archive), canonical byte producers (the bytes ufoLib writes for a
value), and the external editor: "another program" changing the UFO behind the font's back, implemented
with plistlib/glifLib only (never through defcon), with explicit modification times.

Model time k (a small integer chosen by the generator) becomes
  package: st_mtime = BASE_EPOCH + 2k seconds (os.utime)
  zip    : date_time = 2001-01-01 00:00:00 + 2k seconds (zip has a 2 s granularity)
Times written by defcon itself (saves) are the real clock and never collide with these.
"""
import copy
import datetime
import hashlib
import json
import os
import shutil
import zipfile

import fontgen as fg

PARTS = ["info", "kerning", "groups", "features", "lib"]
PART_FILE = {"info": "fontinfo.plist", "kerning": "kerning.plist", "groups": "groups.plist",
             "features": "features.fea", "lib": "lib.plist"}
BASE_EPOCH = 1000000000
KEEP_KEY = "com.verif.keep"          # every generated font lib holds this key: lib.plist never becomes empty
INFO_LIST_DEFAULTS = ["postscriptBlueValues", "postscriptFamilyBlues", "postscriptFamilyOtherBlues",
                      "postscriptOtherBlues", "postscriptStemSnapH", "postscriptStemSnapV"]
GLYPH_FIELDS = ("unicodes", "width", "height", "note", "lib", "image", "contours", "components", "anchors", "guidelines")


def raw_time(k, is_zip):
    if is_zip:
        dt = datetime.datetime(2001, 1, 1) + datetime.timedelta(seconds=2 * k)
        return [dt.year, dt.month, dt.day, dt.hour, dt.minute, dt.second]
    return (BASE_EPOCH + 2 * k) * 10 ** 9


# ---------------------------------------------------------------------------------------
# the UFO as a dictionary of files
# ---------------------------------------------------------------------------------------

class DiskIO(object):
    def __init__(self, path, is_zip):
        self.path = path
        self.is_zip = is_zip

    def read(self):
        """{relative path: (bytes, raw mtime)} of every file"""
        res = {}
        if self.is_zip:
            with zipfile.ZipFile(self.path) as z:
                for i in z.infolist():
                    if i.is_dir():
                        continue
                    root, _, rel = i.filename.partition("/")
                    res[rel] = (z.read(i.filename), list(i.date_time))
                    self.root = root
        else:
            for d, dirs, files in os.walk(self.path):
                for fn in files:
                    p = os.path.join(d, fn)
                    with open(p, "rb") as f:
                        res[os.path.relpath(p, self.path).replace(os.sep, "/")] = (f.read(), os.stat(p).st_mtime_ns)
        return res

    def write(self, new, old):
        """make the UFO on disk equal to `new` (old = what read() returned just before)"""
        if self.is_zip:
            tmp = self.path + ".tmp"
            with zipfile.ZipFile(tmp, "w", zipfile.ZIP_DEFLATED) as z:
                for rel in sorted(new):
                    data, raw = new[rel]
                    zi = zipfile.ZipInfo(self.root + "/" + rel, date_time=tuple(raw))
                    zi.compress_type = zipfile.ZIP_DEFLATED
                    z.writestr(zi, data)
            os.replace(tmp, self.path)       # readers opened before keep the old archive (a consistent snapshot)
            return
        for rel in old:
            if rel not in new:
                os.remove(os.path.join(self.path, rel))
        for rel, (data, raw) in new.items():
            p = os.path.join(self.path, rel)
            if rel not in old or old[rel][0] != data:
                os.makedirs(os.path.dirname(p), exist_ok=True)
                with open(p, "wb") as f:
                    f.write(data)
                os.utime(p, ns=(raw, raw))
            elif old[rel][1] != raw:
                os.utime(p, ns=(raw, raw))
        for d, dirs, files in os.walk(self.path, topdown=False):
            if d != self.path and not os.listdir(d):
                os.rmdir(d)


# ---------------------------------------------------------------------------------------
# canonical bytes: what fontTools.ufoLib writes for a value (so that bytes <-> value is one to one)
# ---------------------------------------------------------------------------------------

class Canon(object):
    def __init__(self, tmpd):
        from fontTools.ufoLib import UFOWriter
        self.dir = os.path.join(tmpd, "canon.ufo")
        self.writer = UFOWriter(self.dir, formatVersion=3)
        self.cache = {}

    def close(self):
        self.writer.close()

    def part(self, part, value):
        """bytes of the top-level file for `value`, or None when ufoLib writes no file for it"""
        key = (part, json.dumps(value, sort_keys=True))
        if key in self.cache:
            return self.cache[key]
        w = self.writer
        fn = PART_FILE[part]
        p = os.path.join(self.dir, fn)
        if os.path.exists(p):
            os.remove(p)
        if part == "info":
            info = fg._Obj()
            for a in INFO_LIST_DEFAULTS:
                setattr(info, a, [])
            for k, v in value["info"].items():
                setattr(info, k, copy.deepcopy(v))
            # defcon's Info always hands a guidelines list to ufoLib (empty when there are none)
            info.guidelines = [fg._guideline_dict(g) for g in value.get("guidelines", [])]
            w.writeInfo(info)
        elif part == "kerning":
            w.writeKerning({tuple(k.split("|")): v for k, v in value.items()})
        elif part == "groups":
            w.writeGroups(copy.deepcopy(value))
        elif part == "features":
            w.writeFeatures(value or "")
        elif part == "lib":
            w.writeLib(copy.deepcopy(value))
        res = None
        if os.path.exists(p):
            with open(p, "rb") as f:
                res = f.read()
        self.cache[key] = res
        return res

    def glif(self, name, gspec):
        from fontTools.ufoLib.glifLib import writeGlyphToString
        key = ("glif", name, json.dumps(gspec, sort_keys=True))
        if key not in self.cache:
            s = writeGlyphToString(name, fg._glyph_obj(gspec), lambda pen: fg._draw_gspec(pen, gspec), formatVersion=2)
            self.cache[key] = s.encode("utf-8")
        return self.cache[key]

    def layerinfo(self, color, lib):
        from fontTools.misc import plistlib
        d = {}
        if color is not None:
            d["color"] = color
        if lib:
            d["lib"] = lib
        return plistlib.dumps(d) if d else None


def plist_loads(b):
    from fontTools.misc import plistlib
    return plistlib.loads(b)


def plist_dumps(v):
    from fontTools.misc import plistlib
    return plistlib.dumps(v)


# ---------------------------------------------------------------------------------------
# a structured view of the file dictionary
# ---------------------------------------------------------------------------------------

def layer_contents(files):
    """[[layer name, directory], ...] in file order"""
    return [list(x) for x in plist_loads(files["layercontents.plist"][0])]


def layer_dir(files, name):
    for n, d in layer_contents(files):
        if n == name:
            return d
    return None


def default_layer(files):
    for n, d in layer_contents(files):
        if d == "glyphs":
            return n
    return None


def glyph_contents(files, d):
    key = d + "/contents.plist"
    if key not in files:
        return {}
    return dict(plist_loads(files[key][0]))


def image_names(files):
    return sorted(k[len("images/"):] for k in files if k.startswith("images/") and "/" not in k[len("images/"):])


def data_names(files):
    return sorted(k[len("data/"):] for k in files if k.startswith("data/"))


def layer_info_value(files, d):
    """(color, lib) stored in layerinfo.plist of directory d"""
    key = d + "/layerinfo.plist"
    if key not in files:
        return (None, {})
    v = plist_loads(files[key][0])
    return (v.get("color"), fg._norm_lib(v.get("lib", {}) or {}))


# ---------------------------------------------------------------------------------------
# the external editor.  Every function edits the dictionary in place; `raw` is the raw mtime the
# touched files get; raw=None keeps the mtime a file has (for a byte change with an unchanged mtime)
# ---------------------------------------------------------------------------------------

def _put(files, rel, data, raw):
    if raw is None:
        raw = files[rel][1]
    files[rel] = (data, raw)


def x_file(files, rel, action, data, raw):
    """action: write (create or replace with `data`), touch (same bytes, new mtime), delete"""
    if action == "write":
        _put(files, rel, data, raw)
    elif action == "touch":
        if rel in files:
            _put(files, rel, files[rel][0], raw)
    elif action == "delete":
        files.pop(rel, None)
    else:
        raise ValueError(action)


def x_glyph(files, canon, lname, gname, action, gspec, raw, craw):
    """glyph added / rewritten / touched / removed in layer `lname`, contents.plist kept in step
    (craw: raw mtime for contents.plist when it has to be rewritten)"""
    from fontTools.ufoLib.glifLib import glyphNameToFileName
    d = layer_dir(files, lname)
    if d is None:
        return False
    contents = glyph_contents(files, d)
    if action == "write":
        if gname not in contents:
            existing = set(v.lower() for v in contents.values())
            contents[gname] = glyphNameToFileName(gname, existing)
            files[d + "/contents.plist"] = (plist_dumps(contents), craw)
        _put(files, d + "/" + contents[gname], canon.glif(gname, gspec), raw)
    elif action == "touch":
        if gname not in contents:
            return False
        rel = d + "/" + contents[gname]
        _put(files, rel, files[rel][0], raw)
    elif action == "delete":
        if gname not in contents:
            return False
        files.pop(d + "/" + contents.pop(gname), None)
        files[d + "/contents.plist"] = (plist_dumps(contents), craw)
    else:
        raise ValueError(action)
    return True


def x_layerinfo(files, canon, lname, color, lib, raw):
    d = layer_dir(files, lname)
    if d is None:
        return False
    b = canon.layerinfo(color, lib)
    rel = d + "/layerinfo.plist"
    if b is None:
        files.pop(rel, None)
    else:
        files[rel] = (b, raw if raw is not None else files.get(rel, (None, 0))[1])
    return True


def x_layer_add(files, canon, lname, glyphs, raw):
    """a new layer directory with `glyphs` {name: gspec}, appended to layercontents.plist"""
    from fontTools.ufoLib.filenames import userNameToFileName
    from fontTools.ufoLib.glifLib import glyphNameToFileName
    lc = layer_contents(files)
    if any(n == lname for n, _ in lc):
        return False
    existing = set(d.lower() for _, d in lc)
    d = userNameToFileName(lname, existing=existing, prefix="glyphs.")
    contents = {}
    for gn, g in glyphs.items():
        contents[gn] = glyphNameToFileName(gn, set(v.lower() for v in contents.values()))
        files[d + "/" + contents[gn]] = (canon.glif(gn, g), raw)
    files[d + "/contents.plist"] = (plist_dumps(contents), raw)
    lc.append([lname, d])
    files["layercontents.plist"] = (plist_dumps(lc), raw)
    return True


def x_layer_delete(files, lname, raw):
    lc = layer_contents(files)
    d = layer_dir(files, lname)
    if d is None or d == "glyphs":
        return False
    for rel in [r for r in files if r.startswith(d + "/")]:
        del files[rel]
    files["layercontents.plist"] = (plist_dumps([x for x in lc if x[0] != lname]), raw)
    return True


def x_layer_order(files, order, raw):
    lc = layer_contents(files)
    if sorted(order) != sorted(n for n, _ in lc):
        return False
    dirs = dict((n, d) for n, d in lc)
    files["layercontents.plist"] = (plist_dumps([[n, dirs[n]] for n in order]), raw)
    return True


def x_layer_default(files, lname, raw):
    """make `lname` the default layer: its directory becomes `glyphs`, the old default moves to a
    `glyphs.<name>` directory (files keep their bytes and mtimes)"""
    from fontTools.ufoLib.filenames import userNameToFileName
    lc = layer_contents(files)
    d_new = layer_dir(files, lname)
    old = default_layer(files)
    if d_new is None or old == lname:
        return False
    existing = set(d.lower() for _, d in lc)
    d_old_target = userNameToFileName(old, existing=existing, prefix="glyphs.")
    moves = {}
    for rel in list(files):
        if rel.startswith("glyphs/"):
            moves[rel] = d_old_target + rel[len("glyphs"):]
        elif rel.startswith(d_new + "/"):
            moves[rel] = "glyphs" + rel[len(d_new):]
    moved = {moves.get(rel, rel): v for rel, v in files.items()}
    files.clear()
    files.update(moved)
    for x in lc:
        if x[0] == lname:
            x[1] = "glyphs"
        elif x[0] == old:
            x[1] = d_old_target
    files["layercontents.plist"] = (plist_dumps(lc), raw)
    return True


def md5(b):
    return hashlib.md5(b).hexdigest()
