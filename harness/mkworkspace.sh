#!/bin/bash
# usage: mkworkspace.sh <id>   -> /tmp/w/<id>/verif (clone of /verif HEAD) and /tmp/w/<id>/repo (worktree of /repo HEAD)
set -e
id="$1"
mkdir -p /tmp/w/$id
rm -rf /tmp/w/$id/verif
git clone -q /verif /tmp/w/$id/verif
git -C /repo worktree remove --force /tmp/w/$id/repo 2>/dev/null || true
git -C /repo worktree add -q --detach /tmp/w/$id/repo HEAD
echo "/tmp/w/$id ready"
