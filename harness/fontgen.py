"""Font specifications: generation, writing/reading UFOs with fontTools.ufoLib directly (independent
of defcon), applying a spec to / dumping a defcon Font.  Used by the persistence slices (C01, C06, C16,
C18, C05).  A spec is a JSON-serialisable dict; all numbers are integers.

spec = {
  "layers": [ {"name", "color", "lib": {..}, "glyphs": {name: gspec}} ... ]     (list order = layer order)
  "default": layer name,
  "info": {attr: value}, "guidelines": [gl...],   (font guidelines live in fontinfo)
  "kerning": {"a|b": int}, "groups": {name: [glyph names]}, "features": str or None, "lib": {...},
  "images": {fileName: int seed}, "data": {path: int seed}
}
gspec = {"unicodes": [...], "width": int, "height": int, "note": str|None, "lib": {...},
         "image": None | {"fileName":..,"xOffset":int,"color":str|None},
         "contours": [ {"id": str|None, "points": [[x,y,type|None,smooth,name|None,id|None], ...]} ],
         "components": [[base, [a,b,c,d,e,f], id|None]], "anchors": [[x,y,name|None,color|None,id|None]],
         "guidelines": [[x|None,y|None,angle|None,name|None,color|None,id|None]]}
"""
import hashlib
import struct
import zlib

GLYPH_NAMES = ["A", "B", "C", "D", "E", "a.alt", "f_i", "space"]
BASES = ["A", "B", "C"]
COMPOSITES = ["D", "E", "a.alt", "f_i", "space"]
LAYER_NAMES = ["fore", "back", "sketch", "L3"]
COLORS = ["1,0,0,1", "0,1,0,0.5", "0,0,1,1"]
CODES = [65, 66, 97, 0xE001]
IMAGE_NAMES = ["i1.png", "i2.png", "pic.png"]
DATA_NAMES = ["a.txt", "com.x/b.bin", "com.x/d/c.txt", "z.dat"]
INFO_ATTRS = {
    "familyName": ["Fam", "Other Fam"], "styleName": ["Regular", "Bold"], "unitsPerEm": [1000, 2048],
    "ascender": [750, 800], "descender": [-250, -200], "xHeight": [500, 480], "capHeight": [700],
    "versionMajor": [1, 2], "versionMinor": [0, 3], "copyright": ["(c) x"], "note": ["a note"],
    "openTypeOS2WeightClass": [400, 700], "postscriptBlueValues": [[-10, 0, 500, 510], [0, 10]],
    "postscriptStemSnapH": [[80, 90]], "openTypeNameDesigner": ["me"], "italicAngle": [0, -12],
}
_ID = [0]


def png_bytes(seed):
    """a tiny valid PNG whose content depends on seed"""
    def chunk(t, d):
        c = struct.pack(">I", len(d)) + t + d
        return c + struct.pack(">I", zlib.crc32(t + d) & 0xFFFFFFFF)
    raw = b"\x00" + bytes([seed % 256, (seed // 256) % 256, 7])
    return (b"\x89PNG\r\n\x1a\n" + chunk(b"IHDR", struct.pack(">IIBBBBB", 1, 1, 8, 2, 0, 0, 0))
            + chunk(b"IDAT", zlib.compress(raw)) + chunk(b"IEND", b""))


def data_bytes(seed):
    if seed == 0:
        return b""          # an empty data file is a file too
    return ("data-%d\n" % seed).encode() * (1 + seed % 3)


# ---------------------------------------------------------------------------------------
# generation
# ---------------------------------------------------------------------------------------

def gen_lib(rng, depth=0):
    lib = {}
    for k in rng.sample(["com.a.k1", "com.a.k2", "org.b.flag", "public.x"], rng.randint(0, 2)):
        r = rng.random()
        if r < 0.3:
            lib[k] = rng.randint(2, 6)       # not 0/1: Python's 1 == True makes lib[k] = 1 over True a silent no-op
        elif r < 0.5:
            lib[k] = "s%d" % rng.randint(0, 3)
        elif r < 0.7:
            lib[k] = [rng.randint(0, 3) for _ in range(rng.randint(0, 3))]
        elif r < 0.85 and depth < 1:
            lib[k] = {"n": gen_lib(rng, depth + 1), "v": rng.randint(0, 9)}
        else:
            lib[k] = bool(rng.randint(0, 1))
    return lib


def gen_contour(rng, ids):
    kind = rng.random()
    pts = []
    n = rng.randint(2, 5)
    ox, oy = rng.randint(-50, 200), rng.randint(-50, 200)

    def pid():
        if rng.random() < 0.15:
            i = "p%d" % len(ids)
            ids.add(i)
            return i
        return None
    if kind < 0.5:      # closed polygon
        for i in range(max(3, n)):
            pts.append([ox + rng.randint(0, 300), oy + rng.randint(0, 300), "line", False, None, pid()])
    elif kind < 0.7:    # open path
        pts.append([ox, oy, "move", False, None, pid()])
        for i in range(n):
            pts.append([ox + rng.randint(0, 300), oy + rng.randint(0, 300), "line", False, "pt" if rng.random() < 0.2 else None, pid()])
    elif kind < 0.9:    # closed with a cubic
        pts.append([ox, oy, "line", False, None, pid()])
        pts.append([ox + 50, oy + 100, None, False, None, None])
        pts.append([ox + 150, oy + 100, None, False, None, None])
        pts.append([ox + 200, oy, "curve", True, None, pid()])
        pts.append([ox + 100, oy - 80, "line", False, None, None])
    else:               # quadratic
        pts.append([ox, oy, "line", False, None, None])
        pts.append([ox + 80, oy + 120, None, False, None, None])
        pts.append([ox + 160, oy, "qcurve", True, None, None])
    cid = None
    if rng.random() < 0.2:
        cid = "c%d" % len(ids)
        ids.add(cid)
    return {"id": cid, "points": pts}


def gen_glyph(rng, name, images=()):
    ids = set()
    g = {"unicodes": [], "width": rng.choice([0, 300, 500, 620]), "height": rng.choice([0, 0, 1000]),
         "note": rng.choice([None, None, "n1", "note two"]), "lib": gen_lib(rng), "image": None,
         "contours": [], "components": [], "anchors": [], "guidelines": []}
    if rng.random() < 0.6:
        g["unicodes"] = rng.sample(CODES, rng.randint(1, 2))
    for _ in range(rng.choice([0, 1, 1, 2])):
        g["contours"].append(gen_contour(rng, ids))
    if name in COMPOSITES and rng.random() < 0.5:
        for _ in range(rng.randint(1, 2)):
            cid = None
            if rng.random() < 0.2:
                cid = "k%d" % len(ids)
                ids.add(cid)
            g["components"].append([rng.choice(BASES), [1, 0, 0, rng.choice([1, 2]), rng.randint(-20, 20), rng.randint(-20, 20)], cid])
    for _ in range(rng.choice([0, 0, 1, 2])):
        aid = None
        if rng.random() < 0.2:
            aid = "a%d" % len(ids)
            ids.add(aid)
        g["anchors"].append([rng.randint(0, 500), rng.randint(0, 700), rng.choice([None, "top", "bottom"]),
                             rng.choice([None, COLORS[0]]), aid])
    for _ in range(rng.choice([0, 0, 0, 1])):
        gid = None
        if rng.random() < 0.3:
            gid = "g%d" % len(ids)
            ids.add(gid)
        k = rng.random()
        if k < 0.4:
            gl = [rng.randint(0, 500), None, None]
        elif k < 0.8:
            gl = [None, rng.randint(0, 700), None]
        else:
            gl = [rng.randint(0, 500), rng.randint(0, 700), rng.choice([0, 45, 90])]
        g["guidelines"].append(gl + [rng.choice([None, "gl"]), rng.choice([None, COLORS[1]]), gid])
    if images and rng.random() < 0.2:
        g["image"] = {"fileName": rng.choice(list(images)), "xOffset": rng.randint(0, 9), "color": rng.choice([None, COLORS[2]])}
    return g


def gen_font(rng, max_layers=3, max_glyphs=6):
    images = {n: rng.randint(1, 5) for n in rng.sample(IMAGE_NAMES, rng.randint(0, 3))}
    data = {n: rng.randint(1, 5) for n in rng.sample(DATA_NAMES, rng.randint(0, 4))}
    names = rng.sample(LAYER_NAMES, rng.randint(1, max_layers))
    layers = []
    for ln in names:
        gnames = rng.sample(GLYPH_NAMES, rng.randint(0, max_glyphs))
        layers.append({"name": ln, "color": rng.choice([None, None] + COLORS), "lib": gen_lib(rng),
                       "glyphs": {gn: gen_glyph(rng, gn, images) for gn in gnames}})
    info = {}
    for a in rng.sample(sorted(INFO_ATTRS), rng.randint(0, 6)):
        info[a] = rng.choice(INFO_ATTRS[a])
    kerning = {}
    groups = {}
    if rng.random() < 0.7:
        if rng.random() < 0.6:
            groups["public.kern1.O"] = rng.sample(GLYPH_NAMES, rng.randint(1, 3))
        if rng.random() < 0.6:
            groups["public.kern2.H"] = rng.sample(GLYPH_NAMES, rng.randint(1, 3))
        if rng.random() < 0.4:
            groups["other"] = rng.sample(GLYPH_NAMES, rng.randint(0, 3))
        firsts = GLYPH_NAMES[:4] + [g for g in groups if g.startswith("public.kern1.")]
        seconds = GLYPH_NAMES[:4] + [g for g in groups if g.startswith("public.kern2.")]
        for _ in range(rng.randint(0, 4)):
            kerning["%s|%s" % (rng.choice(firsts), rng.choice(seconds))] = rng.randint(-80, 80)
    features = rng.choice([None, None, "feature kern {\n    pos A B -10;\n} kern;\n", "# nothing\n",
                           "@cls = [A B];\nfeature liga {\n    sub f_i by A;\n} liga;\n"])
    fgl = []
    for _ in range(rng.choice([0, 0, 1])):
        fgl.append([None, rng.randint(0, 700), None, rng.choice([None, "base"]), None, rng.choice([None, "fg1"])])
    return {"layers": layers, "default": names[0], "info": info, "guidelines": fgl, "kerning": kerning, "groups": groups,
            "features": features, "lib": gen_lib(rng), "images": images, "data": data}


# ---------------------------------------------------------------------------------------
# ufoLib-level writing and reading (independent of defcon)
# ---------------------------------------------------------------------------------------

class _Obj(object):
    pass


def _guideline_dict(gl):
    d = {}
    for k, v in zip(("x", "y", "angle", "name", "color", "identifier"), gl):
        if v is not None:
            d[k] = v
    return d


def _draw_gspec(pen, g):
    for c in g["contours"]:
        if c["id"] is not None:
            pen.beginPath(identifier=c["id"])
        else:
            pen.beginPath()
        for x, y, t, sm, nm, pid in c["points"]:
            kw = {}
            if pid is not None:
                kw["identifier"] = pid
            pen.addPoint((x, y), segmentType=t, smooth=bool(sm), name=nm, **kw)
        pen.endPath()
    for base, tr, cid in g["components"]:
        if cid is not None:
            pen.addComponent(base, tuple(tr), identifier=cid)
        else:
            pen.addComponent(base, tuple(tr))


def _glyph_obj(g):
    o = _Obj()
    o.width = g["width"]
    o.height = g["height"]
    o.unicodes = list(g["unicodes"])
    if g["note"] is not None:
        o.note = g["note"]
    if g["lib"]:
        o.lib = g["lib"]
    if g["image"] is not None:
        im = {"fileName": g["image"]["fileName"], "xScale": 1, "xyScale": 0, "yxScale": 0, "yScale": 1,
              "xOffset": g["image"]["xOffset"], "yOffset": 0}
        if g["image"]["color"] is not None:
            im["color"] = g["image"]["color"]
        o.image = im
    if g["anchors"]:
        o.anchors = []
        for x, y, nm, col, aid in g["anchors"]:
            a = {"x": x, "y": y}
            if nm is not None:
                a["name"] = nm
            if col is not None:
                a["color"] = col
            if aid is not None:
                a["identifier"] = aid
            o.anchors.append(a)
    if g["guidelines"]:
        o.guidelines = [_guideline_dict(gl) for gl in g["guidelines"]]
    return o


def write_ufo(spec, path, structure="package", formatVersion=3):
    from fontTools.ufoLib import UFOWriter, UFOFileStructure
    # (ufoLib converts a string only when the destination exists: "zip" for a new path would make a package)
    w = UFOWriter(path, formatVersion=formatVersion, structure=UFOFileStructure(structure))
    info = _Obj()
    for k, v in spec["info"].items():
        setattr(info, k, v)
    if spec.get("guidelines"):
        info.guidelines = [_guideline_dict(gl) for gl in spec["guidelines"]]
    w.writeInfo(info)
    w.writeKerning({tuple(k.split("|")): v for k, v in spec["kerning"].items()})
    w.writeGroups(spec["groups"])
    if spec["features"] is not None and formatVersion >= 2:
        w.writeFeatures(spec["features"])
    w.writeLib(spec["lib"])
    if formatVersion < 3:
        # UFO 1 and 2: one glyph directory (GLIF 1: ufoLib drops what that format has no element for),
        # no layers, layer info, images or data; the kerning/groups/lib are written as given (raw
        # pre-UFO-3 content: group names in the old scheme, UFO 1 feature and hint data inside the lib)
        layer = [l for l in spec["layers"] if l["name"] == spec["default"]][0]
        gs = w.getGlyphSet()
        for gn, g in layer["glyphs"].items():
            gs.writeGlyph(gn, _glyph_obj(g), lambda pen, g=g: _draw_gspec(pen, g))
        gs.writeContents()
        w.close()
        return
    for n, seed in spec["images"].items():
        w.writeImage(n, png_bytes(seed))
    for n, seed in spec["data"].items():
        w.writeBytesToPath("data/" + n, data_bytes(seed))
    for layer in spec["layers"]:
        gs = w.getGlyphSet(layer["name"], defaultLayer=(layer["name"] == spec["default"]))
        for gn, g in layer["glyphs"].items():
            gs.writeGlyph(gn, _glyph_obj(g), lambda pen, g=g: _draw_gspec(pen, g))
        li = _Obj()
        if layer["color"] is not None:
            li.color = layer["color"]
        li.lib = layer["lib"]
        gs.writeLayerInfo(li)
        gs.writeContents()
    w.writeLayerContents([l["name"] for l in spec["layers"]])
    w.close()


class _RecPen(object):
    def __init__(self):
        self.contours = []
        self.components = []

    def beginPath(self, identifier=None, **kw):
        self.cur = {"id": identifier, "points": []}

    def addPoint(self, pt, segmentType=None, smooth=False, name=None, identifier=None, **kw):
        self.cur["points"].append([_num(pt[0]), _num(pt[1]), segmentType, bool(smooth), name, identifier])

    def endPath(self):
        self.contours.append(self.cur)

    def addComponent(self, base, transformation, identifier=None, **kw):
        self.components.append([base, [_num(v) for v in transformation], identifier])


def _num(v):
    if isinstance(v, float) and v == int(v):
        return int(v)
    return v


def _norm_lib(v):
    if isinstance(v, dict):
        return {k: _norm_lib(x) for k, x in v.items()}
    if isinstance(v, (list, tuple)):
        return [_norm_lib(x) for x in v]
    if isinstance(v, float):
        return _num(v)
    return v


def _gl_list(d):
    return [_num(d.get("x")), _num(d.get("y")), _num(d.get("angle")), d.get("name"), d.get("color"), d.get("identifier")]


def read_ufo(path):
    """Full read with ufoLib only -> spec-shaped dump (images/data as md5 digests)."""
    from fontTools.ufoLib import UFOReader
    with UFOReader(path, validate=True) as r:
        info = _Obj()
        r.readInfo(info)
        d = {}
        d["info"] = {k: _norm_lib(v) for k, v in vars(info).items() if k != "guidelines" and v is not None and v != []}
        d["guidelines"] = [_gl_list(g) for g in (getattr(info, "guidelines", None) or [])]
        d["kerning"] = {"%s|%s" % k: _num(v) for k, v in r.readKerning().items()}
        d["groups"] = {k: list(v) for k, v in r.readGroups().items()}
        d["features"] = r.readFeatures() or None
        d["lib"] = _norm_lib(r.readLib())
        d["images"] = {n: hashlib.md5(r.readImage(n)).hexdigest() for n in r.getImageDirectoryListing()}
        d["data"] = {n: hashlib.md5(r.readBytesFromPath("data/" + n)).hexdigest() for n in r.getDataDirectoryListing()}
        d["default"] = r.getDefaultLayerName()
        d["layers"] = []
        for ln in r.getLayerNames():
            gs = r.getGlyphSet(ln)
            li = _Obj()
            gs.readLayerInfo(li)
            glyphs = {}
            for gn in gs.keys():
                o = _Obj()
                pen = _RecPen()
                gs.readGlyph(gn, o, pen)
                glyphs[gn] = _dump_glyph_obj(o, pen)
            d["layers"].append({"name": ln, "color": getattr(li, "color", None), "lib": _norm_lib(getattr(li, "lib", {}) or {}),
                                "glyphs": glyphs})
        d["formatVersion"] = r.formatVersionTuple[0]
        d["structure"] = r.fileStructure.value
    return d


def _dump_glyph_obj(o, pen):
    im = getattr(o, "image", None)
    image = None
    if im:
        image = {"fileName": im["fileName"], "xOffset": _num(im.get("xOffset", 0)), "color": im.get("color")}
    return {"unicodes": list(getattr(o, "unicodes", []) or []), "width": _num(getattr(o, "width", 0) or 0),
            "height": _num(getattr(o, "height", 0) or 0), "note": getattr(o, "note", None),
            "lib": _norm_lib(getattr(o, "lib", {}) or {}), "image": image, "contours": pen.contours,
            "components": pen.components,
            "anchors": [[_num(a["x"]), _num(a["y"]), a.get("name"), a.get("color"), a.get("identifier")]
                        for a in (getattr(o, "anchors", None) or [])],
            "guidelines": [_gl_list(g) for g in (getattr(o, "guidelines", None) or [])]}


def expected_dump(spec):
    """what read_ufo / dump_font must return for a font whose content is `spec`"""
    d = {"info": dict(spec["info"]), "guidelines": [list(g) for g in spec.get("guidelines", [])],
         "kerning": dict(spec["kerning"]), "groups": {k: list(v) for k, v in spec["groups"].items()},
         "features": spec["features"] or None, "lib": spec["lib"],
         "images": {n: hashlib.md5(png_bytes(s)).hexdigest() for n, s in spec["images"].items()},
         "data": {n: hashlib.md5(data_bytes(s)).hexdigest() for n, s in spec["data"].items()},
         "default": spec["default"], "layers": []}
    for l in spec["layers"]:
        d["layers"].append({"name": l["name"], "color": l["color"], "lib": l["lib"],
                            "glyphs": {gn: {k: g[k] for k in ("unicodes", "width", "height", "note", "lib", "image", "contours",
                                                                "components", "anchors", "guidelines")}
                                       for gn, g in l["glyphs"].items()}})
    return d


# ---------------------------------------------------------------------------------------
# defcon-level: apply a glyph spec / dump a font
# ---------------------------------------------------------------------------------------

def apply_gspec(glyph, g):
    """set every datum of a defcon glyph from a gspec (name untouched)"""
    glyph.width = g["width"]
    glyph.height = g["height"]
    glyph.unicodes = list(g["unicodes"])
    glyph.note = g["note"]
    glyph.lib = _copy(g["lib"])
    glyph.clearContours()
    glyph.clearComponents()
    _draw_gspec(glyph.getPointPen(), g)
    glyph.anchors = [dict(x=x, y=y, name=nm, color=col, identifier=aid) for x, y, nm, col, aid in g["anchors"]]
    glyph.guidelines = [_guideline_dict(gl) for gl in g["guidelines"]]
    if g["image"] is None:
        glyph.image = None
    else:
        glyph.image = dict(fileName=g["image"]["fileName"], xScale=1, xyScale=0, yxScale=0, yScale=1,
                           xOffset=g["image"]["xOffset"], yOffset=0, color=g["image"]["color"])


def _copy(v):
    import copy
    return copy.deepcopy(v)


def dump_glyph(glyph):
    pen = _RecPen()
    glyph.drawPoints(pen)
    image = None
    im = glyph.image
    if im is not None and im.fileName is not None:
        image = {"fileName": im.fileName, "xOffset": _num(im.transformation[4]), "color": None if im.color is None else str(im.color)}
    return {"unicodes": list(glyph.unicodes), "width": _num(glyph.width), "height": _num(glyph.height), "note": glyph.note,
            "lib": _norm_lib(dict(glyph.lib)), "image": image, "contours": pen.contours, "components": pen.components,
            "anchors": [[_num(a.x), _num(a.y), a.name, None if a.color is None else str(a.color), a.identifier] for a in glyph.anchors],
            "guidelines": [[_num(g.x), _num(g.y), _num(g.angle), g.name, None if g.color is None else str(g.color), g.identifier]
                           for g in glyph.guidelines]}


def dump_font(font):
    """Full read of a defcon font through its public API -> spec-shaped dump."""
    from fontTools.ufoLib import fontInfoAttributesVersion3
    d = {}
    info = {}
    for a in fontInfoAttributesVersion3:
        if a == "guidelines":
            continue
        v = getattr(font.info, a)
        if v is not None and v != []:      # defcon's Info defaults some list attributes to []
            info[a] = _norm_lib(v)
    d["info"] = info
    d["guidelines"] = [[_num(g.x), _num(g.y), _num(g.angle), g.name, None if g.color is None else str(g.color), g.identifier]
                       for g in font.guidelines]
    d["kerning"] = {"%s|%s" % k: _num(v) for k, v in font.kerning.items()}
    d["groups"] = {k: list(v) for k, v in font.groups.items()}
    d["features"] = font.features.text or None
    d["lib"] = _norm_lib(dict(font.lib))
    d["images"] = {n: hashlib.md5(font.images[n]).hexdigest() for n in font.images.fileNames}
    d["data"] = {n: hashlib.md5(font.data[n]).hexdigest() for n in font.data.fileNames}
    d["default"] = font.layers.defaultLayer.name
    d["layers"] = []
    for ln in font.layers.layerOrder:
        layer = font.layers[ln]
        d["layers"].append({"name": ln, "color": None if layer.color is None else str(layer.color), "lib": _norm_lib(dict(layer.lib)),
                            "glyphs": {gn: dump_glyph(layer[gn]) for gn in sorted(layer.keys())}})
    return d


def diff_dumps(exp, got, path=""):
    """first difference between two dumps as a short string, or None; glyph order in lib handled by caller"""
    if isinstance(exp, dict) and isinstance(got, dict):
        for k in sorted(set(exp) | set(got), key=str):
            if k not in exp:
                return "%s/%s: unexpected %r" % (path, k, _short(got[k]))
            if k not in got:
                return "%s/%s: missing (expected %r)" % (path, k, _short(exp[k]))
            r = diff_dumps(exp[k], got[k], "%s/%s" % (path, k))
            if r:
                return r
        return None
    if isinstance(exp, (list, tuple)) and isinstance(got, (list, tuple)):
        if len(exp) != len(got):
            return "%s: length %d expected %d: %s vs %s" % (path, len(got), len(exp), _short(got), _short(exp))
        for i, (a, b) in enumerate(zip(exp, got)):
            r = diff_dumps(a, b, "%s[%d]" % (path, i))
            if r:
                return r
        return None
    if exp != got or (isinstance(exp, bool) != isinstance(got, bool)):
        return "%s: %r expected %r" % (path, _short(got), _short(exp))
    return None


def _short(v):
    s = repr(v)
    return s if len(s) < 160 else s[:157] + "..."
