#!/bin/bash
# recheck_seed_slot.sh <seed id> [slot] : re-run confirmation + quick check of a kept seed in a scratch slot (no /repo, no /verif build use)
sid=$1; prop=${sid%%-*}; slot=${2:-$prop}
d=$(mktemp -d /tmp/seed_re_XXXX)
cp /verif/seeded/$sid/patch.diff /verif/seeded/$sid/demo.py $d/
[ -f /verif/seeded/$sid/notes.md ] && cp /verif/seeded/$sid/notes.md $d/
/venv/bin/python /verif/harness/confirm_seed_slot.py $d $sid $prop $slot
rm -rf $d
