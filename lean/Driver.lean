/-
Line-protocol driver.  Usage: lake env lean --run Driver.lean < ops.sexp
First line `(model <name>)` selects the model; `(reset)` re-initialises its state.
One S-expression per input line, one per output line.
-/
import DefconModel.Util.SExp
import DefconModel.AllDrivers

open DefconModel

partial def loop {σ : Type} (h : IO.FS.Stream) (out : IO.FS.Stream) (init : σ)
    (step : σ → SExp → σ × SExp) (s : σ) : IO Unit := do
  let line ← h.getLine
  if line.isEmpty then return ()
  let t := line.trimAscii.toString
  if t.isEmpty then loop h out init step s
  else
    match SExp.parse t with
    | none => out.putStrLn "parse-error"; loop h out init step s
    | some (.list [.atom "reset"]) => out.putStrLn "(reset)"; loop h out init step init
    | some e =>
      let (s', o) := step s e
      out.putStrLn (toString o)
      loop h out init step s'

def main : IO Unit := do
  let h ← IO.getStdin
  let out ← IO.getStdout
  let first ← h.getLine
  match SExp.parse first.trimAscii.toString with
  | some (.list [.atom "model", .atom "notify"]) =>
    loop h out ({} : Notify.Center) Notify.driverStep {}
  | some (.list [.atom "model", .atom "layer"]) =>
    loop h out ({} : Layer.DState) Layer.driverStep {}
  | some (.list [.atom "model", .atom "glyphorder"]) =>
    loop h out GlyphOrder.initial GlyphOrder.driverStep GlyphOrder.initial
  | some (.list [.atom "model", .atom "kern"]) =>
    loop h out ({} : Kern.State) Kern.driverStep {}
  | some (.list [.atom "model", .atom "sort"]) =>
    loop h out ({} : NameSort.DState) NameSort.driverStep {}
  | some (.list [.atom "model", .atom "persist"]) =>
    loop h out ({} : Persist.PState) Persist.driverStep {}
  | some (.list [.atom "model", .atom "classes"]) =>
    loop h out ({} : Classes.DState) Classes.driverStep {}
  | some (.list [.atom "model", .atom "ident"]) =>
    loop h out ({} : Ident.World) Ident.driverStep {}
  | some (.list [.atom "model", .atom "savesteps"]) =>
    loop h out () SaveSteps.driverStep ()
  | some (.list [.atom "model", .atom "dirty"]) =>
    loop h out ({} : Dirty.DState) Dirty.driverStep {}
  | some (.list [.atom "model", .atom "pen"]) =>
    loop h out ({} : Pen.DState) Pen.driverStep {}
  | some (.list [.atom "model", .atom "geom"]) =>
    loop h out ({} : Geom.CWorld) Geom.driverStep {}
  | some (.list [.atom "model", .atom "serial"]) =>
    loop h out () Serial.driverStep ()
  | some (.list [.atom "model", .atom "repr"]) =>
    loop h out ({} : Repr.Font Unit) Repr.driverStepF {}
  | some (.list [.atom "model", .atom "conv"]) =>
    loop h out ({} : Conv.DState) Conv.driverStep {}
  | some (.list [.atom "model", .atom "setters"]) =>
    loop h out () Setters.driverStep ()
  | some (.list [.atom "model", .atom "parents"]) =>
    loop h out ({} : Parents.Heap) Parents.driverStep {}
  | some (.list [.atom "model", .atom "cross"]) =>
    loop h out ({} : Cross.OState) Cross.driverStep {}
  | some (.list [.atom "model", .atom "ext"]) =>
    loop h out ({} : Ext.DState) Ext.driverStep {}
  | _ => out.putStrLn "unknown-model"
