import DefconModel.Util.SExp
import DefconModel.Util.AL
import DefconModel.Notify
import DefconModel.AllDrivers
import DefconModel.Props.C04
import DefconModel.Ident
import DefconModel.Drivers.Ident
import DefconModel.Props.C10
