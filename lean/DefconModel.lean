import DefconModel.Util.SExp
import DefconModel.Util.AL
import DefconModel.Notify
import DefconModel.AllDrivers
import DefconModel.Props.C04
import DefconModel.Geom
import DefconModel.Drivers.Geom
import DefconModel.Props.C17
