/-
M-Conv: the pure conversion functions `Font.save` / `Font.__init__` use when the UFO format is not 3
(Lib/defcon/objects/font.py, "UFO Format Version Conversion"), and the pieces of
fontTools.ufoLib they rely on (kerning-group rename maps of `UFOWriter.writeGroups/writeKerning`
and `convertUFO1OrUFO2KerningToUFO3Kerning`), ported statement by statement.

* §1 blue values  : `pair` is the loop of `_convertToFormatVersion1RoboFabData` that packs a flat
                    list into pairs, `unpair` the loop `for i, j in libValue` of
                    `_convertFromFormatVersion1RoboFabData` (ValueError unless every item has two
                    elements).
* §2 hint data    : the `org.robofab.postScriptHintData` dictionary.
* §3 features     : `_splitFeaturesForConversion` (the regular expression is the PARAMETER `find`),
                    the lib entries written for UFO 1 and the text rebuilt from them;
                    `featureHeader` is the executable specification of `Font.featureRE`
                    ("leftmost `^\s*feature\s+(\w{4})\s*\{`", multi-line mode, ASCII).
* §4 rename maps  : application of the kerning-group rename maps when writing below format 3 and
                    the renaming done by the reader.

Texts are `List Char`.  Core Lean only.
-/
import DefconModel.Util.AL

namespace DefconModel
namespace Conv

abbrev Text := List Char

/-! ## 1. Blue values -/

/-- body of `for value in values:` — start a new group unless the last one is still short -/
def pairStep {α : Type} (acc : List (List α)) (v : α) : List (List α) :=
  match acc.getLast? with
  | none => [[v]]
  | some last => if last.length = 2 then acc ++ [[v]] else acc.dropLast ++ [last ++ [v]]

/-- `finalValues` of `_convertToFormatVersion1RoboFabData` -/
def pair {α : Type} (vs : List α) : List (List α) := vs.foldl pairStep []

/-- `for i, j in libValue: value.append(i); value.append(j)`; `none` = ValueError (an item that
does not have exactly two elements cannot be unpacked) -/
def unpair {α : Type} : List (List α) → Option (List α)
  | [] => some []
  | [i, j] :: r => (unpair r).map (fun l => i :: j :: l)
  | _ :: _ => none

/-! ## 2. PostScript hint data -/

/-- the ten hinting attributes of the Info object.  Scalars are `None` when unset; the six list
attributes default to `[]` in defcon's Info and are never `None`. -/
structure Hint (ν : Type) where
  blueFuzz : Option ν := none
  blueScale : Option ν := none
  blueShift : Option ν := none
  forceBold : Option ν := none
  vStems : List ν := []
  hStems : List ν := []
  blueValues : List ν := []
  otherBlues : List ν := []
  familyBlues : List ν := []
  familyOtherBlues : List ν := []
deriving DecidableEq, Repr

/-- `lib["org.robofab.postScriptHintData"]`: a field is `none` when the key is absent -/
structure HintData (ν : Type) where
  blueFuzz : Option ν := none
  blueScale : Option ν := none
  blueShift : Option ν := none
  forceBold : Option ν := none
  vStems : Option (List ν) := none
  hStems : Option (List ν) := none
  blueValues : Option (List (List ν)) := none
  otherBlues : Option (List (List ν)) := none
  familyBlues : Option (List (List ν)) := none
  familyOtherBlues : Option (List (List ν)) := none
deriving DecidableEq, Repr

/-- hint part of `_convertToFormatVersion1RoboFabData`: scalars that are `None` are deleted from
the dictionary, list values (never `None`) are always stored, blues as pairs -/
def toHintData {ν : Type} (h : Hint ν) : HintData ν :=
  { blueFuzz := h.blueFuzz, blueScale := h.blueScale, blueShift := h.blueShift, forceBold := h.forceBold,
    vStems := some h.vStems, hStems := some h.hStems,
    blueValues := some (pair h.blueValues), otherBlues := some (pair h.otherBlues),
    familyBlues := some (pair h.familyBlues), familyOtherBlues := some (pair h.familyOtherBlues) }

/-- one blue list: untouched when the key is absent, else unpaired (`none` = ValueError) -/
def applyBlues {ν : Type} (cur : List ν) : Option (List (List ν)) → Option (List ν)
  | none => some cur
  | some ps => unpair ps

/-- hint part of `_convertFromFormatVersion1RoboFabData`: every key that is present overwrites
the attribute of the Info object; absent keys leave it alone -/
def applyHintData {ν : Type} (d : HintData ν) (h : Hint ν) : Option (Hint ν) := do
  let bv ← applyBlues h.blueValues d.blueValues
  let ob ← applyBlues h.otherBlues d.otherBlues
  let fb ← applyBlues h.familyBlues d.familyBlues
  let fo ← applyBlues h.familyOtherBlues d.familyOtherBlues
  some { blueFuzz := d.blueFuzz <|> h.blueFuzz, blueScale := d.blueScale <|> h.blueScale,
         blueShift := d.blueShift <|> h.blueShift, forceBold := d.forceBold <|> h.forceBold,
         vStems := d.vStems.getD h.vStems, hStems := d.hStems.getD h.hStems,
         blueValues := bv, otherBlues := ob, familyBlues := fb, familyOtherBlues := fo }

/-! ## 3. Features -/

def isWs (c : Char) : Bool :=
  c = ' ' || c = '\t' || c = '\n' || c = '\r' || c = '\x0b' || c = '\x0c'

def isWord (c : Char) : Bool := c.isAlphanum || c = '_'

/-- `str.strip()` -/
def strip (t : Text) : Text := ((t.dropWhile isWs).reverse.dropWhile isWs).reverse

/-- `text.strip() + "\n"` -/
def stripNl (t : Text) : Text := strip t ++ ['\n']

/-- a match of the header expression: `m.span()` and `m.group(1)` -/
structure Header where
  start : Nat
  stop : Nat
  tag : Text
deriving DecidableEq, Repr

abbrev Finder := Text → Option Header

inductive SplitRes where
  | ok (classes : Text) (feats : List (Text × Text))
  | assertion           -- `assert not classes`
  | diverge             -- the `while text:` loop would not terminate (an empty match)
deriving DecidableEq, Repr

/-- `text[a:b]` -/
def slice (t : Text) (a b : Nat) : Text := (t.take b).drop a

/-- the `while text:` loop of `_splitFeaturesForConversion`, one iteration per unit of fuel -/
def splitLoop (find : Finder) : Nat → Text → Text → List (Text × Text) → SplitRes
  | 0, _, _, _ => .diverge
  | fuel + 1, text, classes, feats =>
    if text = [] then .ok classes feats
    else match find text with
      | none => splitLoop find fuel [] text feats
      | some h =>
        if 0 < h.start ∧ classes ≠ [] then .assertion
        else
          let classes1 := if 0 < h.start then text.take h.start else classes
          let ftext := slice text h.start h.stop
          let rest := text.drop h.stop
          let p : Text × Text :=
            if rest = [] then (ftext, rest)
            else match find rest with
              | some h2 => (ftext ++ rest.take h2.start, rest.drop h2.start)
              | none => (ftext ++ rest, [])
          splitLoop find fuel p.2 classes1 (feats ++ [(h.tag, p.1)])

/-- `_splitFeaturesForConversion(text)`; a well-behaved finder consumes at least one character
per iteration, so `length + 1` iterations are enough -/
def split (find : Finder) (text : Text) : SplitRes := splitLoop find (text.length + 1) text [] []

/-- the three lib entries UFO 1 keeps the features in -/
structure V1Feat where
  classes : Option Text := none                    -- org.robofab.opentype.classes
  features : Option (List (Text × Text)) := none   -- org.robofab.opentype.features  {tag: text}
  order : Option (List Text) := none               -- org.robofab.opentype.featureorder
deriving DecidableEq, Repr

/-- feature part of `_convertToFormatVersion1RoboFabData`; `pre` = what the lib copy already holds
under the three keys (they are only overwritten, never removed) -/
def toV1 (pre : V1Feat) (classes : Text) (feats : List (Text × Text)) : V1Feat :=
  { classes := if classes ≠ [] then some (stripNl classes) else pre.classes,
    features := if feats ≠ [] then some (feats.foldl (fun d f => AL.set d f.1 (stripNl f.2)) []) else pre.features,
    order := if feats ≠ [] then some (feats.map Prod.fst) else pre.order }

def textLe (a b : Text) : Bool := decide (String.ofList a ≤ String.ofList b)

/-- `"\n".join(pieces)` -/
def joinNl : List Text → Text
  | [] => []
  | [p] => p
  | p :: q :: r => p ++ '\n' :: joinNl (q :: r)

/-- the pieces `_convertFromFormatVersion1RoboFabData` joins: the classes, then the text stored
for every tag of the order (tags without text are skipped; without an order: sorted keys) -/
def v1Pieces (v : V1Feat) : List Text :=
  (match v.classes with
    | some c => [c]
    | none => []) ++
  (match v.features with
    | none => []
    | some d =>
      let order := match v.order with
        | some o => o
        | none => (AL.keys d).mergeSort textLe
      order.filterMap (fun tag => AL.get? d tag))

/-- feature part of `_convertFromFormatVersion1RoboFabData` -/
def fromV1 (v : V1Feat) : Text := joinNl (v1Pieces v)

/-! ### the header expression -/

/-- `\s*feature\s+(\w{4})\s*\{` anchored at the beginning of `t`: length of the match and the tag.
(No alternative needs backtracking: each `\s*`/`\s+` is followed by a non-space.) -/
def matchHeaderAt (t : Text) : Option (Nat × Text) :=
  let t1 := t.dropWhile isWs
  if "feature".toList.isPrefixOf t1 then
    let t2 := t1.drop 7
    let t3 := t2.dropWhile isWs
    if t3.length = t2.length then none
    else
      let tag := t3.take 4
      if tag.length = 4 ∧ tag.all isWord then
        let t4 := t3.drop 4
        let t5 := t4.dropWhile isWs
        match t5 with
        | '{' :: r => some (t.length - r.length, tag)
        | _ => none
      else none
  else none

/-- `re.search` in multi-line mode: the first line start from which the expression matches -/
def searchFrom (pos : Nat) (bol : Bool) : Text → Option Header
  | [] => none
  | c :: r =>
    match (if bol then matchHeaderAt (c :: r) else none) with
    | some (n, tag) => some ⟨pos, pos + n, tag⟩
    | none => searchFrom (pos + 1) (c = '\n') r

/-- `Font.featureRE.search` -/
def featureHeader : Finder := searchFrom 0 true

/-! ## 4. Kerning-group rename maps -/

abbrev Name := String
abbrev Groups := List (Name × List Name)
abbrev Kerning := List ((Name × Name) × Int)

/-- `{"side1": {old: new}, "side2": {old: new}}` as `UFOReader.getKerningGroupConversionRenameMaps`
returns it -/
structure Maps where
  side1 : List (Name × Name) := []
  side2 : List (Name × Name) := []
deriving DecidableEq, Repr

/-- `setKerningGroupConversionRenameMaps`: `remap[dataName] = writeName`, side 1 then side 2 -/
def flip (m : Maps) : List (Name × Name) :=
  (m.side1 ++ m.side2).foldl (fun r p => AL.set r p.2 p.1) []

def rn (remap : List (Name × Name)) (n : Name) : Name := (AL.get? remap n).getD n

/-- first loop of the down conversion in `UFOWriter.writeGroups`: a group that is not renamed is
copied -/
def downKeep (remap : List (Name × Name)) (r : Groups) (p : Name × List Name) : Groups :=
  if AL.contains remap p.1 then r else AL.set r p.1 p.2

/-- second loop: a renamed group is stored under the name to write (overwriting) -/
def downMove (remap : List (Name × Name)) (r : Groups) (p : Name × List Name) : Groups :=
  match AL.get? remap p.1 with
  | none => r
  | some w => AL.set r w p.2

/-- down conversion in `UFOWriter.writeGroups` -/
def downGroups (remap : List (Name × Name)) (g : Groups) : Groups :=
  g.foldl (downMove remap) (g.foldl (downKeep remap) [])

/-- down conversion in `UFOWriter.writeKerning`: both sides through the one flat map -/
def downKerning (remap : List (Name × Name)) (k : Kerning) : Kerning :=
  k.foldl (fun r p => AL.set r (rn remap p.1.1, rn remap p.1.2) p.2) []

/-- `convertUFO1OrUFO2KerningToUFO3Kerning`, kerning: first members through side 1, second members
through side 2 -/
def upKerning (m : Maps) (k : Kerning) : Kerning :=
  k.foldl (fun r p => AL.set r (rn m.side1 p.1.1, rn m.side2 p.1.2) p.2) []

/-- … groups: a copy of every renamed group under its new name (the old one stays) -/
def upGroups (m : Maps) (g : Groups) : Groups :=
  (m.side1 ++ m.side2).foldl (fun r p => AL.set r p.2 ((AL.get? g p.1).getD [])) g

end Conv
end DefconModel
