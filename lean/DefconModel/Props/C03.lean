/-
C03 — Cached representations are never stale and are computed once per change.

Model: `DefconModel/Repr.lean` (M-Repr).  Specification side: `Spec/Repr.lean`.  Tables regenerated
from the defcon source on every run: `Gen/ReprTables.lean`.

Reading guide.  A *world* holds the glyphs of a layer (contours, components with their base-glyph
registrations), loose contours/components, the groups dict and, per object that has a dispatcher,
its `_representations`.  Contents are version stamps; a factory is any function `P.f` of the object's
*view* (`viewOf`: the stamps the factory can read — for a component and for a glyph that includes the
outline of every base glyph, to any depth) and of the sorted keyword items.  `Inv` says: every cached
value is `P.f` of the current view (never stale), objects without dispatcher cache nothing, only
registered names are cached.  `Dom` is the structural domain: component chains shorter than the fuel
(acyclic), ids and names unique, base-glyph registrations in place.
-/
import DefconModel.Lemmas.ReprRun
import DefconModel.Lemmas.ReprKey
import DefconModel.Lemmas.ReprGeom
import DefconModel.Gen.ReprTables

namespace DefconModel.Props.C03
open DefconModel DefconModel.Repr

variable {V : Type}

/-! ### cache keys -/

/-- Two requests share a cache entry only if they pass the same keyword items: distinct arguments
are cached separately (`_makeRepresentationSubKey` is injective on keyword sets). -/
theorem distinct_arguments_separate (a b : KwArgs) (h : makeSubKey a = makeSubKey b) : a.Perm b :=
  makeSubKey_injective a b h

/-- The order in which keywords are written does not matter: the same arguments always find the
same entry. -/
theorem keyword_order_irrelevant (a b : KwArgs) (hp : a.Perm b) (hn : (a.map Prod.fst).Nodup) :
    makeSubKey a = makeSubKey b := makeSubKey_perm a b hp hn

/-- Storing a value under one (name, sub-key) changes no other entry of the object's cache. -/
theorem store_touches_one_entry (c : Cache V) (n n' : String) (sk sk' : SubKey) (v : V)
    (h : ¬ (n = n' ∧ sk = sk')) : (c.store n sk v).get? n' sk' = c.get? n' sk' := by
  rw [Cache.get?_store]; simp [h]

example : makeSubKey [("b", 2), ("a", 1)] = makeSubKey [("a", 1), ("b", 2)] := by decide
example : makeSubKey [("a", 1)] ≠ makeSubKey [("a", 2)] := by decide
example : makeSubKey [] = none := rfl

/-! ### coverage of the regenerated tables -/

/-- The coverage obligation holds for the tables extracted from the source under test: every
declared mutator posts a notification that destroys every representation reading the cell it
rewrites — on the object, on its glyph, and (through ContoursChanged / ComponentsChanged →
`Component.BaseGlyphDataChanged` → `Glyph.ComponentsChanged` …) on everything that references the
glyph; the destructive sets are read as they execute (a parenthesised string is a substring test);
the `addObserver` routes the model walks exist in the source. -/
theorem coverage_holds : Coverage Gen.ReprTables.tables = true := by decide

/-- the substring semantics matters: a string spec is hit by every infix of it -/
example : (Destr.str "Contour.PointsChanged").hit "Points" = true := by decide
example : (Destr.str "Contour.PointsChanged").hit "Contour.Changed" = false := by decide
example : (Destr.names ["Contour.PointsChanged"]).hit "Points" = false := by decide

/-! ### never stale -/

/-- The full statement: from any world that satisfies the invariant, every sequence of public
operations whose intermediate states stay in the structural domain ends in a world that satisfies
it: whatever is requested next is answered with exactly what the factory computes now. -/
def CacheCoherentFull (P : Params V) (T : Tables) : Prop :=
  ∀ (w0 : World V) (ops : List Op), Inv P T w0 →
    (∀ pre, pre <+: ops → Dom (run P T w0 pre)) → Inv P T (run P T w0 ops)

/-- **cache_coherent** (partial: see below).  Under the coverage obligation and the correctness of
`Contour.move`'s patch, after ANY interleaving of requests (with any names / keyword arguments),
cache-API calls, registrations, Contour / Component / Glyph / Groups mutators, `move`, base-glyph
re-assignment, and insertion / removal of contours and components (including re-insertion of removed
ones) — every cached value of every object equals its factory applied to the object's current view,
the view of a component or glyph including its base glyphs' outlines to any nesting depth.
What is missing for `CacheCoherentFull`: the three operations that change which glyph a name denotes
(`newGlyph`, `delGlyph`, `rename`: a base glyph is added, deleted, renamed) are excluded by `hno`;
their eviction routes are in the model, in `coverage_holds` (the four switching callbacks) and in the
correspondence runs, but their preservation proof is not finished. -/
theorem cache_coherent_partial (P : Params V) (T : Tables) (hcov : Coverage T = true) (hpatch : PatchOK P)
    (w0 : World V) (ops : List Op) (h0 : Inv P T w0)
    (hno : ∀ op, op ∈ ops → op.isNameOp = false)
    (hdom : ∀ pre, pre <+: ops → Dom (run P T w0 pre)) : Inv P T (run P T w0 ops) := by
  induction ops generalizing w0 with
  | nil => exact h0
  | cons op rest ih =>
    have d0 : Dom w0 := hdom [] (List.nil_prefix)
    have d1 : Dom (step P T w0 op).1 := hdom [op] (by simp)
    have i1 := step_inv_local P T hcov hpatch w0 op (hno op (by simp)) h0 d0 d1
    refine ih (step P T w0 op).1 i1 (fun x hx => hno x (by simp [hx])) ?_
    intro pre hpre
    have := hdom (op :: pre) (by simpa using hpre)
    simpa [run] using this

/-- the world with nothing in it satisfies the invariant (so the theorem applies to every history
that starts with an empty font) -/
theorem inv_empty (P : Params V) (T : Tables) : Inv P T ({} : World V) := by
  refine ⟨?_, ?_, ?_, ?_⟩
  · intro o nm sk v h; simp [cacheOf, Cache.get?] at h
  · intro o _ nm sk; simp [cacheOf, Cache.get?]
  · intro o nm sk v h; simp [cacheOf, Cache.get?] at h
  · intro r hr; cases hr

/-- a single step, for the tables of the source under test -/
theorem step_coherent (P : Params V) (hpatch : PatchOK P) (w : World V) (op : Op)
    (hn : op.isNameOp = false) (hinv : Inv P Gen.ReprTables.tables w) (hdom : Dom w)
    (hdom' : Dom (step P Gen.ReprTables.tables w op).1) : Inv P Gen.ReprTables.tables (step P Gen.ReprTables.tables w op).1 :=
  step_inv_local P _ coverage_holds hpatch w op hn hinv hdom hdom'

/-! ### computed once per change -/

/-- **factory_runs_once.**  After a request on an attached object was answered, any number of
further requests / cache inspections (of any object, name, arguments) later, the same request — the
same name and the same keyword items in any order — is answered from the cache: the factory is not
invoked again (`got 0`).  So between two changes the factory runs at most once per (name, kwargs). -/
theorem factory_runs_once (P : Params V) (T : Tables) (w : World V) (o : Obj) (name : String) (kw kw' : KwArgs)
    (n : Nat) (hatt : attached w o = true) (hfirst : (step P T w (.get o name kw)).2 = .got n)
    (qs : List Op) (hq : ∀ q, q ∈ qs → q.isQuery = true) (hk : makeSubKey kw' = makeSubKey kw) :
    (step P T (run P T (step P T w (.get o name kw)).1 qs) (.get o name kw')).2 = .got 0 := by
  have e0 : (step P T w (.get o name kw)).1 = (doGet P T w o name kw).1 := rfl
  rw [e0]
  obtain ⟨h1, h2, h3, h5, v, hv⟩ := doGet_ok P T w o name kw n hatt hfirst
  have s0 := doGet_struct P T w o name kw
  obtain ⟨s1, hv1⟩ := queries_keep P T qs hq (doGet P T w o name kw).1 o name (makeSubKey kw) v hv
  have s := s0.trans s1
  show (doGet P T _ o name kw').2 = .got 0
  apply doGet_hit P T _ o name kw' v
  · rw [exists_congr s]; exact h1
  · rw [s.regs]; exact h2
  · rw [isEmpty_of_makeSubKey_eq hk]; exact h3
  · rw [attached_congr s]; exact hatt
  · intro inner hi
    rw [s.regs]
    exact h5 inner hi
  · rw [hk]; exact hv1

end DefconModel.Props.C03
