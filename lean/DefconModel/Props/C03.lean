/-
C03 — cached representations are never stale and are computed once per change.
(theorems follow; placeholder while the correspondence is being brought up)
-/
import DefconModel.Repr
import DefconModel.Gen.ReprTables

namespace DefconModel.Props.C03
open DefconModel.Repr

/-- placeholder -/
theorem placeholder : (1 : Nat) = 1 := rfl

end DefconModel.Props.C03
