/-
C03 — Cached representations are never stale and are computed once per change.

Model: `DefconModel/Repr.lean` (M-Repr).  Specification side: `Spec/Repr.lean`.  Tables regenerated
from the defcon source on every run: `Gen/ReprTables.lean`.

Reading guide.  A *world* holds the glyphs of a layer (contours, components with their base-glyph
registrations), loose contours/components, the groups dict and, per object that has a dispatcher,
its `_representations`.  Contents are version stamps; a factory is any function `P.f` of the object's
*view* (`viewOf`: the stamps the factory can read — for a component and for a glyph that includes the
outline of every base glyph, to any depth) and of the sorted keyword items.  `Inv` says: every cached
value is `P.f` of the current view (never stale), objects without dispatcher cache nothing, only
registered names are cached.  `Dom` is the structural domain: component chains shorter than the fuel
(acyclic), ids and names unique, base-glyph registrations in place.
-/
import DefconModel.Lemmas.ReprRun
import DefconModel.Lemmas.ReprName
import DefconModel.Lemmas.ReprKey
import DefconModel.Lemmas.ReprGeom
import DefconModel.Lemmas.ReprDom
import DefconModel.Lemmas.ReprDep
import DefconModel.Lemmas.ReprHoldMove
import DefconModel.ReprLayers
import DefconModel.Spec.ReprCells
import DefconModel.Gen.ReprTables

namespace DefconModel.Props.C03
open DefconModel DefconModel.Repr

variable {V : Type}

/-! ### cache keys -/

/-- Two requests share a cache entry only if they pass the same keyword items: distinct arguments
are cached separately (`_makeRepresentationSubKey` is injective on keyword sets). -/
theorem distinct_arguments_separate (a b : KwArgs) (h : makeSubKey a = makeSubKey b) : a.Perm b :=
  makeSubKey_injective a b h

/-- The order in which keywords are written does not matter: the same arguments always find the
same entry. -/
theorem keyword_order_irrelevant (a b : KwArgs) (hp : a.Perm b) (hn : (a.map Prod.fst).Nodup) :
    makeSubKey a = makeSubKey b := makeSubKey_perm a b hp hn

/-- Storing a value under one (name, sub-key) changes no other entry of the object's cache. -/
theorem store_touches_one_entry (c : Cache V) (n n' : String) (sk sk' : SubKey) (v : V)
    (h : ¬ (n = n' ∧ sk = sk')) : (c.store n sk v).get? n' sk' = c.get? n' sk' := by
  rw [Cache.get?_store]; simp [h]

example : makeSubKey [("b", 2), ("a", 1)] = makeSubKey [("a", 1), ("b", 2)] := by decide
example : makeSubKey [("a", 1)] ≠ makeSubKey [("a", 2)] := by decide
example : makeSubKey [] = none := rfl

/-! ### coverage of the regenerated tables -/

/-- The coverage obligation holds for the tables extracted from the source under test: every
declared mutator posts a notification that destroys every representation reading the cell it
rewrites — on the object, on its glyph, and (through ContoursChanged / ComponentsChanged →
`Component.BaseGlyphDataChanged` → `Glyph.ComponentsChanged` …) on everything that references the
glyph; the destructive sets are read as they execute (a parenthesised string is a substring test);
the `addObserver` routes the model walks exist in the source. -/
theorem coverage_holds : Coverage Gen.ReprTables.tables = true := by decide

/-- the substring semantics matters: a string spec is hit by every infix of it -/
example : (Destr.str "Contour.PointsChanged").hit "Points" = true := by decide
example : (Destr.str "Contour.PointsChanged").hit "Contour.Changed" = false := by decide
example : (Destr.names ["Contour.PointsChanged"]).hit "Points" = false := by decide

/-! ### never stale -/

/-- The statement: from any world that satisfies the invariant, every sequence of public operations
whose intermediate states stay in the structural domain ends in a world that satisfies it: whatever
is requested next is answered with exactly what the factory computes now. -/
def CacheCoherent (P : Params V) (T : Tables) : Prop :=
  ∀ (w0 : World V) (ops : List Op), Inv P T w0 →
    (∀ pre, pre <+: ops → Dom (run P T w0 pre)) → Inv P T (run P T w0 ops)

/-- **cache_coherent.**  Under the coverage obligation and the correctness of `Contour.move`'s
patch, after ANY interleaving of requests (any names / keyword arguments), cache-API calls,
registrations, Contour / Component / Glyph / Groups mutators, `move`, base-glyph re-assignment,
insertion / removal / re-insertion of contours and components, and creation, deletion and renaming of
glyphs (so also of base glyphs: the observation switching of `Component`) — every cached value of
every object equals its factory applied to the object's current view, where the view of a component
or glyph includes its base glyphs' outlines to any nesting depth; objects without a dispatcher cache
nothing.  The hypothesis `hdom` is the domain: component chains shorter than the fuel (acyclic), ids
and names unique, registrations in place — checked at run time by the driver on every generated
history (`domCheck`). -/
theorem cache_coherent (P : Params V) (T : Tables) (hcov : Coverage T = true) (hpatch : PatchOK P) :
    CacheCoherent P T := by
  intro w0 ops h0 hdom
  induction ops generalizing w0 with
  | nil => exact h0
  | cons op rest ih =>
    have d0 : Dom w0 := hdom [] (List.nil_prefix)
    have d1 : Dom (step P T w0 op).1 := hdom [op] (by simp)
    have i1 := step_inv P T hcov hpatch w0 op h0 d0 d1
    refine ih (step P T w0 op).1 i1 ?_
    intro pre hpre
    have := hdom (op :: pre) (by simpa using hpre)
    simpa [run] using this

/-- … for the tables of the source under test, from the empty font -/
theorem cache_coherent_here (P : Params V) (hpatch : PatchOK P) (ops : List Op)
    (hdom : ∀ pre, pre <+: ops → Dom (run P Gen.ReprTables.tables ({} : World V) pre)) :
    Inv P Gen.ReprTables.tables (run P Gen.ReprTables.tables ({} : World V) ops) :=
  cache_coherent P _ (by decide) hpatch _ ops (by
    refine ⟨?_, ?_, ?_, ?_⟩
    · intro o nm sk v h; simp [cacheOf, Cache.get?] at h
    · intro o _ nm sk; simp [cacheOf, Cache.get?]
    · intro o nm sk v h; simp [cacheOf, Cache.get?] at h
    · intro r hr; cases hr) hdom

/-- the world with nothing in it satisfies the invariant (so the theorem applies to every history
that starts with an empty font) -/
theorem inv_empty (P : Params V) (T : Tables) : Inv P T ({} : World V) := by
  refine ⟨?_, ?_, ?_, ?_⟩
  · intro o nm sk v h; simp [cacheOf, Cache.get?] at h
  · intro o _ nm sk; simp [cacheOf, Cache.get?]
  · intro o nm sk v h; simp [cacheOf, Cache.get?] at h
  · intro r hr; cases hr

/-- a single step, for the tables of the source under test -/
theorem step_coherent (P : Params V) (hpatch : PatchOK P) (w : World V) (op : Op)
    (hinv : Inv P Gen.ReprTables.tables w) (hdom : Dom w)
    (hdom' : Dom (step P Gen.ReprTables.tables w op).1) : Inv P Gen.ReprTables.tables (step P Gen.ReprTables.tables w op).1 :=
  step_inv P _ coverage_holds hpatch w op hinv hdom hdom'

/-! ### computed once per change -/

/-- **factory_runs_once.**  After a request on an attached object was answered, any number of
further requests / cache inspections (of any object, name, arguments) later, the same request — the
same name and the same keyword items in any order — is answered from the cache: the factory is not
invoked again (`got 0`).  So between two changes the factory runs at most once per (name, kwargs). -/
theorem factory_runs_once (P : Params V) (T : Tables) (w : World V) (o : Obj) (name : String) (kw kw' : KwArgs)
    (n : Nat) (hatt : attached w o = true) (hfirst : (step P T w (.get o name kw)).2 = .got n)
    (qs : List Op) (hq : ∀ q, q ∈ qs → q.isQuery = true) (hk : makeSubKey kw' = makeSubKey kw) :
    (step P T (run P T (step P T w (.get o name kw)).1 qs) (.get o name kw')).2 = .got 0 := by
  have e0 : (step P T w (.get o name kw)).1 = (doGet P T w o name kw).1 := rfl
  rw [e0]
  obtain ⟨h1, h2, h3, h5, v, hv⟩ := doGet_ok P T w o name kw n hatt hfirst
  have s0 := doGet_struct P T w o name kw
  obtain ⟨s1, hv1⟩ := queries_keep P T qs hq (doGet P T w o name kw).1 o name (makeSubKey kw) v hv
  have s := s0.trans s1
  show (doGet P T _ o name kw').2 = .got 0
  apply doGet_hit P T _ o name kw' v
  · rw [exists_congr s]; exact h1
  · rw [s.regs]; exact h2
  · rw [isEmpty_of_makeSubKey_eq hk]; exact h3
  · rw [attached_congr s]; exact hatt
  · intro inner hi
    rw [s.regs]
    exact h5 inner hi
  · rw [hk]; exact hv1

/-! ### `Contour.move` patches instead of evicting -/

/-- **move_patch_correct** (geometry).  The control-point box of a point list translated by `d` is
the box translated by `d`, and stays `None` for an empty contour — which is exactly what
`Contour.move` writes into the two cached bounds entries instead of recomputing them. -/
theorem move_patch_correct (d : Pt) (pts : List Pt) :
    boundsOf (translate d pts) = patchBounds d (boundsOf pts) := bounds_translate d pts

/-- … hence the hypothesis `PatchOK` of `cache_coherent` holds for the bounds factories over integer
point lists, whatever point list a content version stands for. -/
theorem move_patch_ok (shape : Nat → List Pt) : PatchOK (geomParams shape) := by
  intro nm _ ver ox oy dx dy
  simp only [geomParams]
  rw [← translate_translate (ox, oy) (dx, dy), bounds_translate]

example : boundsOf (translate (3, -2) [(0, 0), (10, 4), (-1, 7)]) = some (2, -2, 13, 5) := by decide
example : boundsOf (translate (3, -2) []) = none := rfl

/-! ### nested components -/

/-- **nested_base_eviction.**  Glyph `h` posts an outline change (`ns` contains ContoursChanged or
ComponentsChanged) and everything the model delivers for it is in `ds`.  Then every component whose
base glyph reads `h` through ANY number of component hops has lost its built-in representations
(bounds, controlPointBounds), and the glyph that holds it has lost its built-in ones (area).
(Induction on the nesting depth inside `cascade_complete`; acyclicity is `Dom.bounded`.) -/
theorem nested_base_eviction (T : Tables) (hcov : Coverage T = true) (w1 : World V) (h : String)
    (ns : List String) (ds : List (Obj × String)) (hdom : Dom w1) (hh : AL.contains w1.glyphs h = true)
    (hrel : relays ns = true) (hD : ∀ y, y ∈ glyphDeliv w1.fuel T w1.glyphs h ns → y ∈ ds)
    {x' : String} {gx : GlyphS} {k : CompS} {c : String} {m : Nat}
    (hgx : AL.get? w1.glyphs x' = some gx) (hk : k ∈ gx.comps) (hbase : k.base = some c)
    (hrd : ReadsN w1.glyphs m c h) :
    (∀ nm sk, isBuiltin T "Component" nm = true → (cacheOf (applyDeliv T w1 ds) (.comp k.id)).get? nm sk = none) ∧
    (∀ nm sk, isBuiltin T "Glyph" nm = true → (cacheOf (applyDeliv T w1 ds) (.glyph x')).get? nm sk = none) := by
  constructor
  · intro nm sk hbi
    cases hv : (cacheOf (applyDeliv T w1 ds) (.comp k.id)).get? nm sk with
    | none => rfl
    | some v =>
      exfalso
      obtain ⟨d, y, hd, hy, hhit⟩ := cascade_hits_comp T hcov w1.glyphs w1.fuel h ns hdom.bounded hdom.watch hh hrel
        hgx hk hbase hrd hbi
      exact not_survivor hv (mem_facsOf_builtin hd) (hD _ hy) hhit
  · intro nm sk hbi
    cases hv : (cacheOf (applyDeliv T w1 ds) (.glyph x')).get? nm sk with
    | none => rfl
    | some v =>
      exfalso
      have hbg := cov_glyphOutline hcov (m := "_componentBaseGlyphDataChanged") (by simp [glyphOutlineMethods])
      have hcb := cov_compCallback hcov (cb := "baseGlyphDataChangedNotificationCallback") (by simp [compCallbacks])
      unfold isBuiltin at hbi
      rw [List.any_eq_true] at hbi
      obtain ⟨p, hp, hpn⟩ := hbi
      simp only [decide_eq_true_eq] at hpn
      unfold hitsAll at hbg
      have h1 := hbg.1
      rw [Bool.and_eq_true] at h1
      have := List.all_eq_true.mp h1.1 p hp
      rw [List.any_eq_true] at this
      obtain ⟨y, hy, hhit⟩ := this
      have hdel := cascade_glyph T w1.glyphs w1.fuel h ns hbg.2 hcb.2 hdom.bounded
        (watch_of_dom hdom.watch hh) hrel hrd hgx hk hbase hy
      exact not_survivor hv (by rw [← hpn]; exact mem_facsOf_builtin hp) (hD _ hdel) hhit

/-! ### a concrete nested font (non-vacuity of the hypotheses) -/

section Example

/-- A → B → C by components, a contour in C; requests fill the caches -/
def exOps : List Op :=
  [.newGlyph "C", .newGlyph "B", .newGlyph "A", .mkContour 1, .insContour "C" 1 0,
   .mkComp 2 (some "C"), .insComp "B" 2 0, .mkComp 3 (some "B"), .insComp "A" 3 0,
   .get (.comp 3) "defcon.component.bounds" [], .get (.glyph "A") "defcon.glyph.area" [],
   .get (.contour 1) "defcon.contour.bounds" []]

def exParams : Params Nat := { f := fun _ _ toks _ => toks.length, patch := fun _ v _ _ => v }

def exWorld : World Nat := run exParams Gen.ReprTables.tables {} exOps

def exRank (x : String) : Nat := if x = "A" then 2 else if x = "B" then 1 else 0

/-- the example world is inside the structural domain … -/
theorem exWorld_dom : Dom exWorld := by
  apply dom_of_checks exWorld exRank (by decide) (by decide)
  · intro x g k c hg hk hb
    have hm := AL.mem_of_get? hg
    have : exWorld.glyphs = [("C", ⟨1, [⟨1, 4, 0, 0, 0⟩], []⟩), ("B", ⟨2, [], [⟨2, some "C", 5, 0, .base⟩]⟩),
        ("A", ⟨3, [], [⟨3, some "B", 6, 0, .base⟩]⟩)] := by decide
    rw [this] at hm
    simp only [List.mem_cons, Prod.mk.injEq, List.mem_nil_iff, or_false] at hm
    rcases hm with ⟨rfl, rfl⟩ | ⟨rfl, rfl⟩ | ⟨rfl, rfl⟩
    · cases hk
    · simp only [List.mem_cons, List.mem_nil_iff, or_false] at hk
      subst hk; cases hb; decide
    · simp only [List.mem_cons, List.mem_nil_iff, or_false] at hk
      subst hk; cases hb; decide
  · intro x; unfold exRank; have : exWorld.fuel = 64 := by decide
    rw [this]
    by_cases e1 : x = "A"
    · simp [e1]
    · by_cases e2 : x = "B" <;> simp [e1, e2]

/-- … its caches are filled … -/
example : (digest exWorld).length = 3 := by decide

/-- … the chain A → B → C is a two-hop read … -/
example : ReadsN exWorld.glyphs 1 "B" "C" :=
  ReadsN.step ⟨2, [], [⟨2, some "C", 5, 0, .base⟩]⟩ ⟨2, some "C", 5, 0, .base⟩ (by decide) (by simp) rfl (ReadsN.refl "C")

/-- … and reversing the contour in C empties the caches of the component in A, of A, and of the contour -/
example : digest (step exParams Gen.ReprTables.tables exWorld (.cmut 1 "reverse")).1 = [] := by decide

/-- while `move` keeps (patches) the contour's bounds entry and evicts the rest -/
example : (digest (step exParams Gen.ReprTables.tables exWorld (.cmove 1 5 5)).1).map
    (fun p => (p.1, p.2.map Prod.fst)) = [(Obj.contour 1, ["defcon.contour.bounds"])] := by decide

/-- deleting C (the base of the base) empties the caches of the component in A and of A; the
contour went with its glyph -/
example : digest (step exParams Gen.ReprTables.tables exWorld (.delGlyph "C")).1 = [] := by decide

/-- renaming C away does the same to A's component and A, and keeps the contour's entry -/
example : (digest (step exParams Gen.ReprTables.tables exWorld (.rename "C" "D")).1).map (fun p => p.1) =
    [Obj.contour 1] := by decide

/-- `PatchOK` is satisfiable -/
example : PatchOK exParams := by intro nm _ ver ox oy dx dy; rfl

end Example

/-! ### round 3: the dependency matrix as a table; user holds; a second layer -/

section Round3

/-- the universal factory: the value of a representation is the view it reads (so "stale" is visible as an inequality) -/
def hexWorld : HWorld (List Tok) := { w := run uniParams Gen.ReprTables.tables {} exOps }

/-- **cells_agree.**  The public table `mutSpecs` (per class and mutator: cells it may rewrite, cells an effective call must
rewrite, guard) and the cell codes the primitives of the model use say the same, row by row. -/
theorem cells_agree : cellsAgree = true := by decide

/-- **guards_hold.**  The guard of every row - does the method compare first and return without posting, or does it run
to its posts whatever it is given - is the one read off the method's body in the source under test (regenerated table). -/
theorem guards_hold : guardsAgree Gen.ReprTables.tables = true := by decide

/-- **direct_calls_hold.**  The direct `destroyRepresentation` calls in the mutators of the source under test are exactly
the ones the hold model performs inside a hold (`reverse`: the area; `move`: computed names, `moveCache`). -/
theorem direct_calls_hold : directAgree Gen.ReprTables.tables = true := by decide

example : (specOf "Component" "_set_transformation").map (·.guard) = some Guard.same := by decide
example : (specOf "Contour" "reverse").map (·.cells) = some [Cell.contourPoints, Cell.contourIdent] := by decide

/-- **dependency_sound.**  A representation's factory is any function of its row of the dependency matrix (`viewOf`: the
stamps of the cells the matrix lists for it - for a component or a glyph, to any nesting depth).  Take any call of an
*inner* mutator (every row of the table but `Contour.move` and `Component._set_baseGlyph`: point-list, identifier,
transformation, attribute, groups mutators, and calls that post although they rewrite nothing) on any world of the
structural domain, any attached object `o` and any name `nm` registered for its class.  Then
  * if the call leaves the cells `nm` reads on `o` unchanged, the factory's value is unchanged: whatever is cached
    may be served;
  * if the call rewrites one of them, every entry under `nm` on `o` is gone after the call.
Nothing here is supplied by the adaptor: the stamps are set by the model from the table, the notifications come from
the regenerated table of the source. -/
theorem dependency_sound (P : Params V) (T : Tables) (hcov : Coverage T = true) (w : World V) (op : Op)
    (hin : op.isInner = true) (hd : Dom w) (hd' : Dom (step P T w op).1) (hr : RegsDefault T w)
    (o : Obj) (nm : String) (hatt : attached w o = true)
    (hreg : (facsOf T w.regs o.cls).any (fun p => p.1 = nm) = true) :
    (viewOf T (step P T w op).1 o nm = viewOf T w o nm →
        ∀ sk, fresh P T (step P T w op).1 o nm sk = fresh P T w o nm sk) ∧
    (viewOf T (step P T w op).1 o nm ≠ viewOf T w o nm →
        ∀ sk, (cacheOf (step P T w op).1 o).get? nm sk = none) := by
  constructor
  · intro h sk; unfold fresh; rw [h]
  · intro h sk; exact dep_evicts P T hcov w op hin hd hd' hr o nm hatt hreg h sk

/-- reversing the contour in C rewrites a cell that the bounds of the component in A read (two hops away) … -/
example : viewOf Gen.ReprTables.tables (step exParams Gen.ReprTables.tables exWorld (.cmut 1 "reverse")).1 (.comp 3)
    "defcon.component.bounds" ≠ viewOf Gen.ReprTables.tables exWorld (.comp 3) "defcon.component.bounds" := by decide
/-- … giving the contour an identifier does not -/
example : viewOf Gen.ReprTables.tables (step exParams Gen.ReprTables.tables exWorld (.cmut 1 "_set_identifier")).1 (.comp 3)
    "defcon.component.bounds" = viewOf Gen.ReprTables.tables exWorld (.comp 3) "defcon.component.bounds" := by decide
example : (Op.cmut 1 "reverse").isInner = true := rfl

/-- **hold_free_is_plain.**  While the user holds and disables nothing, the model with holds IS the plain model: every
theorem above speaks about such histories unchanged. -/
theorem hold_free_is_plain (P : Params V) (T : Tables) (hw : HWorld V) (op : Op) (hq : hw.quiet = true) :
    (hstep P T hw (.base op)).1.w = (step P T hw.w op).1 ∧ (hstep P T hw (.base op)).2 = (step P T hw.w op).2 ∧
    (hstep P T hw (.base op)).1.holds = hw.holds ∧ (hstep P T hw (.base op)).1.queue = hw.queue := by
  simp [hstep, hq]

example : hexWorld.quiet = true := by decide

/-- cached under `nm` (no keyword arguments) on `o`, and not what the factory computes now -/
def StaleAt (w : World (List Tok)) (o : Obj) (nm : String) : Prop :=
  (cacheOf w o).get? nm none ≠ none ∧
  (cacheOf w o).get? nm none ≠ some (fresh uniParams Gen.ReprTables.tables w o nm none)

instance (w : World (List Tok)) (o : Obj) (nm : String) : Decidable (StaleAt w o nm) := by
  unfold StaleAt; exact inferInstance

/-- the user holds the contour of C and appends a point -/
def heldEdit : HWorld (List Tok) :=
  hrun uniParams Gen.ReprTables.tables hexWorld [.hold (.contour 1), .base (.cmut 1 "appendPoint")]

/-- **stale_inside_hold.**  Is a representation requested INSIDE a user hold stale?  YES: `contour.holdNotifications()`
queues every post of the contour, its own `selfNotificationCallback` included.  Witness (A → B → C by components, every
cache filled): the user holds the contour of C and appends a point.  The contour's cached bounds are still there and
differ from what the factory computes now; a request is answered from the cache (`got 0`); the same holds two component
hops up.  The property's histories are interleavings of requests and public mutators - `holdNotifications` is
neither -, so this is the edge of the property's domain, not a defect of the code. -/
theorem stale_inside_hold :
    StaleAt heldEdit.w (.contour 1) "defcon.contour.bounds" ∧
    (hstep uniParams Gen.ReprTables.tables heldEdit (.base (.get (.contour 1) "defcon.contour.bounds" []))).2 = .got 0 ∧
    StaleAt heldEdit.w (.comp 3) "defcon.component.bounds" := by decide +kernel

/-- … and the release delivers what was queued: nothing stale is left (the general statement is `release_restores`) -/
example : digest (hrun uniParams Gen.ReprTables.tables heldEdit [.release (.contour 1)]).w = [] := by decide +kernel

def heldMove : HWorld (List Tok) :=
  hrun uniParams Gen.ReprTables.tables hexWorld [.hold (.contour 1), .base (.cmove 1 5 7)]

/-- **move_is_direct_inside_hold.**  What a mutator does by DIRECT calls happens inside a hold too: `Contour.move` patches
the two bounds entries of the held contour in place (they stay right) - only what depends on the notification (the
glyph's area, the bounds of the components that reference the glyph) goes stale. -/
theorem move_is_direct_inside_hold :
    (cacheOf heldMove.w (.contour 1)).get? "defcon.contour.bounds" none =
      some (fresh uniParams Gen.ReprTables.tables heldMove.w (.contour 1) "defcon.contour.bounds" none) ∧
    StaleAt heldMove.w (.comp 3) "defcon.component.bounds" := by decide +kernel

def disabledEdit : HWorld (List Tok) :=
  hrun uniParams Gen.ReprTables.tables hexWorld
    [.disable (.contour 1), .base (.cmut 1 "appendPoint"), .enable (.contour 1)]

/-- **disable_loses_eviction.**  `disableNotifications` loses the eviction for good: after `enable` the stale value is
still served, until some later change evicts it.  (A disable is a request NOT to be told; the property's histories do
not contain it.) -/
theorem disable_loses_eviction :
    disabledEdit.quiet = true ∧ StaleAt disabledEdit.w (.contour 1) "defcon.contour.bounds" := by decide +kernel

/-- The statement of what the code guarantees around user holds: `InvH` - every cached value of every object is what
its factory computes now, OR a post that destroys it is waiting in the queue of a hold that is still in force - is kept
by every operation: holds and releases (counted, nested, of contours, components, glyphs, the groups, released in any
order), requests, cache calls, and every inner mutator and `Contour.move` while something is held, anything at all while
nothing is. -/
def HoldInvariant (P : Params V) (T : Tables) : Prop :=
  ∀ (hw0 : HWorld V) (ops : List HOp), InvH P T hw0 →
    (∀ pre op, pre ++ [op] <+: ops → op.okIn (hrun P T hw0 pre) = true) →
    (∀ pre, pre <+: ops → Dom (hrun P T hw0 pre).w) → InvH P T (hrun P T hw0 ops)

/-- **hold_invariant.**  See `HoldInvariant`.  Hypotheses: the coverage obligation (discharged over the regenerated
tables), the patch of `Contour.move`, the structural domain at every step, no `disableNotifications` (`HOp.okIn`). -/
theorem hold_invariant (P : Params V) (T : Tables) (hcov : Coverage T = true) (hpatch : PatchOK P) :
    HoldInvariant P T := by
  intro hw0 ops h0 hok hdom
  induction ops generalizing hw0 with
  | nil => exact h0
  | cons op rest ih =>
    have d0 : Dom hw0.w := hdom [] List.nil_prefix
    have d1 : Dom (hstep P T hw0 op).1.w := hdom [op] (by simp)
    have k0 : op.okIn hw0 = true := hok [] op (by simp)
    have i1 := hstep_invH P T hcov hpatch hw0 op k0 h0 d0 d1
    refine ih (hstep P T hw0 op).1 i1 ?_ ?_
    · intro pre o hpre
      have := hok (op :: pre) o (by simpa using hpre)
      simpa [hrun] using this
    · intro pre hpre
      have := hdom (op :: pre) (by simpa using hpre)
      simpa [hrun] using this

/-- **release_restores.**  Start from any world in which nothing is stale and nothing is held.  After ANY history of
holds, releases, requests, cache calls and mutators as in `hold_invariant`: once no hold is in force any more, nothing is
stale - every cached value of every object equals its factory applied to the object's current view, exactly as if the
user had never held anything.  (Inside the holds values may be stale: `stale_inside_hold`.) -/
theorem release_restores (P : Params V) (T : Tables) (hcov : Coverage T = true) (hpatch : PatchOK P)
    (w0 : World V) (ops : List HOp) (h0 : Inv P T w0)
    (hok : ∀ pre op, pre ++ [op] <+: ops → op.okIn (hrun P T { w := w0 } pre) = true)
    (hdom : ∀ pre, pre <+: ops → Dom (hrun P T { w := w0 } pre).w)
    (hrel : (hrun P T { w := w0 } ops).holds = []) : Inv P T (hrun P T { w := w0 } ops).w :=
  inv_of_invH (hold_invariant P T hcov hpatch { w := w0 } ops (invH_of_inv h0 rfl rfl) hok hdom) hrel

/-- … and while the holds are in force, a value that is stale is one whose eviction is queued -/
theorem stale_only_if_owed (P : Params V) (T : Tables) (hcov : Coverage T = true) (hpatch : PatchOK P)
    (w0 : World V) (ops : List HOp) (h0 : Inv P T w0)
    (hok : ∀ pre op, pre ++ [op] <+: ops → op.okIn (hrun P T { w := w0 } pre) = true)
    (hdom : ∀ pre, pre <+: ops → Dom (hrun P T { w := w0 } pre).w)
    (o : Obj) (nm : String) (sk : SubKey) (v : V)
    (hv : (cacheOf (hrun P T { w := w0 } ops).w o).get? nm sk = some v)
    (hstale : v ≠ fresh P T (hrun P T { w := w0 } ops).w o nm sk) :
    OwedBy T (hrun P T { w := w0 } ops).w (hrun P T { w := w0 } ops).queue o nm := by
  rcases (hold_invariant P T hcov hpatch { w := w0 } ops (invH_of_inv h0 rfl rfl) hok hdom).coh o nm sk v hv with h | h
  · exact absurd h hstale
  · exact h

/-- a history that meets the hypotheses: hold the contour of C, ask for its bounds, mark it dirty (the post is queued), hold
the glyph too, release both -/
def holdOps : List HOp :=
  [.hold (.contour 1), .base (.get (.contour 1) "defcon.contour.bounds" []), .base (.touch (.contour 1) "_set_dirty"),
   .hold (.glyph "C"), .release (.contour 1), .release (.glyph "C")]

def sameStructB {V : Type} (w w' : World V) : Bool :=
  decide (w'.glyphs = w.glyphs) && decide (w'.looseC = w.looseC) && decide (w'.looseK = w.looseK) &&
  decide (w'.fuel = w.fuel) && decide (w'.groupsVer = w.groupsVer) && decide (w'.regs = w.regs)

theorem sameStruct_of_B {V : Type} {w w' : World V} (h : sameStructB w w' = true) : SameStruct w w' := by
  unfold sameStructB at h
  simp only [Bool.and_eq_true, decide_eq_true_eq] at h
  obtain ⟨⟨⟨⟨⟨h1, h2⟩, h3⟩, h4⟩, h5⟩, h6⟩ := h
  exact ⟨h1, h2, h3, h4, h5, h6⟩

example : ∀ pre, pre <+: holdOps →
    Dom (hrun exParams Gen.ReprTables.tables { w := exWorld } pre).w ∧
    ∀ op, pre ++ [op] <+: holdOps → op.okIn (hrun exParams Gen.ReprTables.tables { w := exWorld } pre) = true := by
  intro pre hpre
  have hall : ∀ n, n ∈ List.range 7 →
      sameStructB exWorld (hrun exParams Gen.ReprTables.tables { w := exWorld } (holdOps.take n)).w = true ∧
      ∀ op, op ∈ holdOps → op.okIn (hrun exParams Gen.ReprTables.tables { w := exWorld } (holdOps.take n)) = true := by
    decide +kernel
  have hpt : pre = holdOps.take pre.length := List.prefix_iff_eq_take.mp hpre
  have hlen : pre.length ∈ List.range 7 := by
    have := hpre.length_le
    simp only [List.mem_range]
    have h6 : holdOps.length = 6 := rfl
    omega
  obtain ⟨h1, h2⟩ := hall pre.length hlen
  rw [← hpt] at h1 h2
  refine ⟨Dom.congr (sameStruct_of_B h1) exWorld_dom, ?_⟩
  intro op hop
  apply h2
  have : op ∈ pre ++ [op] := by simp
  exact (List.IsPrefix.sublist hop).subset this

/-- the queue is really used in that history (the post of `dirty = True` waits, then moves to the glyph's hold) … -/
example : ((hrun exParams Gen.ReprTables.tables { w := exWorld } (holdOps.take 5)).queue.map Prod.fst) = [Obj.glyph "C"] := by
  decide +kernel
/-- … and everything is released at the end -/
example : (hrun exParams Gen.ReprTables.tables { w := exWorld } holdOps).holds = [] ∧
    (hrun exParams Gen.ReprTables.tables { w := exWorld } holdOps).queue = [] := by decide +kernel

/-- **other_layer_invisible.**  Whatever happens in one layer - edits, renames, deletions, holds, requests - the other
layer keeps its glyphs, its caches, its holds and its queue: a component whose base name exists in the other layer only
does not follow that glyph (for it the name is missing), and no request in one layer is answered from the other.  (The
one thing that crosses is the record of an object that belongs to no glyph, when it is inserted on the other side.) -/
theorem other_layer_invisible (P : Params V) (T : Tables) (f : Font V) (l : Lay) (hop : HOp) :
    ((fstep P T f l hop).1.get l.other).w.glyphs = (f.get l.other).w.glyphs ∧
    ((fstep P T f l hop).1.get l.other).w.caches = (f.get l.other).w.caches ∧
    ((fstep P T f l hop).1.get l.other).holds = (f.get l.other).holds ∧
    ((fstep P T f l hop).1.get l.other).queue = (f.get l.other).queue := by
  have hsync : ∀ (g : Font V), ((g.sync).get l.other).w.glyphs = (g.get l.other).w.glyphs ∧
      ((g.sync).get l.other).w.caches = (g.get l.other).w.caches ∧
      ((g.sync).get l.other).holds = (g.get l.other).holds ∧
      ((g.sync).get l.other).queue = (g.get l.other).queue := by
    intro g; cases l <;> exact ⟨rfl, rfl, rfl, rfl⟩
  have hset : ∀ (g : Font V) (hw : HWorld V), (g.set l hw).get l.other = g.get l.other := by
    intro g hw; cases l <;> rfl
  have hset2 : ∀ (g : Font V) (hw : HWorld V), (g.set l.other hw).get l.other = hw := by
    intro g hw; cases l <;> rfl
  have hmig : ∀ op, ((migrate f l op).get l.other).w.glyphs = (f.get l.other).w.glyphs ∧
      ((migrate f l op).get l.other).w.caches = (f.get l.other).w.caches ∧
      ((migrate f l op).get l.other).holds = (f.get l.other).holds ∧
      ((migrate f l op).get l.other).queue = (f.get l.other).queue := by
    intro op
    unfold migrate
    cases op <;> try exact ⟨rfl, rfl, rfl, rfl⟩
    · rename_i g cid idx
      simp only
      cases (f.get l.other).w.looseC.find? (fun c => c.id = cid) with
      | none => exact ⟨rfl, rfl, rfl, rfl⟩
      | some c =>
        simp only
        split
        · exact ⟨rfl, rfl, rfl, rfl⟩
        · rw [hset2]; exact ⟨rfl, rfl, rfl, rfl⟩
    · rename_i g kid idx
      simp only
      cases (f.get l.other).w.looseK.find? (fun k => k.id = kid) with
      | none => exact ⟨rfl, rfl, rfl, rfl⟩
      | some k =>
        simp only
        split
        · exact ⟨rfl, rfl, rfl, rfl⟩
        · rw [hset2]; exact ⟨rfl, rfl, rfl, rfl⟩
  cases hop with
  | base op =>
    by_cases hreg : ∃ cls name, op = .register cls name
    · obtain ⟨cls, name, rfl⟩ := hreg
      have hs := hsync { l0 := (hstep P T f.l0 (.base (.register cls name))).1, l1 := (hstep P T f.l1 (.base (.register cls name))).1 }
      have e : (fstep P T f l (.base (.register cls name))).1 =
          Font.sync { l0 := (hstep P T f.l0 (.base (.register cls name))).1, l1 := (hstep P T f.l1 (.base (.register cls name))).1 } := rfl
      rw [e]
      obtain ⟨h1, h2, h3, h4⟩ := hs
      rw [h1, h2, h3, h4]
      cases l <;> simp only [hstep, step, Font.get, Lay.other] <;> split <;> exact ⟨rfl, rfl, rfl, rfl⟩
    · have : (fstep P T f l (.base op)).1 =
          ((migrate f l op).set l (hstep P T ((migrate f l op).get l) (.base op)).1).sync := by
        cases op <;> first | rfl | exact absurd ⟨_, _, rfl⟩ hreg
      rw [this]
      obtain ⟨h1, h2, h3, h4⟩ := hsync ((migrate f l op).set l (hstep P T ((migrate f l op).get l) (.base op)).1)
      rw [h1, h2, h3, h4, hset]; exact hmig op
  | hold o =>
    simp only [fstep]
    obtain ⟨h1, h2, h3, h4⟩ := hsync (f.set l (hstep P T (f.get l) (.hold o)).1)
    rw [h1, h2, h3, h4, hset]; exact ⟨rfl, rfl, rfl, rfl⟩
  | release o =>
    simp only [fstep]
    obtain ⟨h1, h2, h3, h4⟩ := hsync (f.set l (hstep P T (f.get l) (.release o)).1)
    rw [h1, h2, h3, h4, hset]; exact ⟨rfl, rfl, rfl, rfl⟩
  | disable o =>
    simp only [fstep]
    obtain ⟨h1, h2, h3, h4⟩ := hsync (f.set l (hstep P T (f.get l) (.disable o)).1)
    rw [h1, h2, h3, h4, hset]; exact ⟨rfl, rfl, rfl, rfl⟩
  | enable o =>
    simp only [fstep]
    obtain ⟨h1, h2, h3, h4⟩ := hsync (f.set l (hstep P T (f.get l) (.enable o)).1)
    rw [h1, h2, h3, h4, hset]; exact ⟨rfl, rfl, rfl, rfl⟩

def layOps : List (Lay × HOp) :=
  [(.a, .base (.newGlyph "A")), (.a, .base (.mkComp 1 (some "X"))), (.a, .base (.insComp "A" 1 0)),
   (.b, .base (.newGlyph "X")), (.b, .base (.mkContour 2)), (.b, .base (.insContour "X" 2 0)),
   (.a, .base (.get (.comp 1) "defcon.component.bounds" []))]

def layFont1 : Font Nat := layOps.foldl (fun f p => (fstep exParams Gen.ReprTables.tables f p.1 p.2).1) {}
def layFont2 : Font Nat := (fstep exParams Gen.ReprTables.tables layFont1 .b (.base (.cmut 2 "reverse"))).1

/-- the second layer has a glyph X; the first layer's component on X reads `missing` before and after X is edited there -/
example : viewOf Gen.ReprTables.tables layFont2.l0.w (.comp 1) "defcon.component.bounds" = [Tok.k 2, Tok.missing] := by
  decide +kernel
example : (digest layFont1.l0.w).map Prod.fst = [Obj.comp 1] := by decide +kernel
example : (digest layFont2.l0.w).map Prod.fst = [Obj.comp 1] := by decide +kernel

end Round3

end DefconModel.Props.C03
