/-
C04 — Notification centre delivers exactly the right notifications, once, in order.

Property theorems about M-Notify (`DefconModel/Notify.lean`, the executable model of
`Lib/defcon/tools/notifications.py`).  Helper lemmas are in `Lemmas/Notify.lean`.
`rec` is the interpreter for operations issued from inside observer callbacks; theorems that
quantify over `rec`/`fuel`/scripts hold for every re-entrant behaviour.
-/
import DefconModel.Lemmas.Notify
import DefconModel.Lemmas.NotifyGlob
import DefconModel.Lemmas.NotifyOnce
import DefconModel.Lemmas.NotifyBound

namespace DefconModel.Props.C04
open DefconModel DefconModel.Notify

/-! ## 1. Structural invariant of every reachable state (any history, any re-entrancy) -/

/-- One operation — whatever callbacks it triggers, whatever those callbacks do, to any nesting
depth — preserves the invariant: registry keys unique, no empty inner dict, one registration per
(key, observer), hold/disable counts positive, no duplicate pending notification in a hold. -/
theorem inv_exec (fuel : Nat) (c : Center) (op : Op) (h : Inv c) : Inv (exec fuel c op).1 :=
  inv_exec_aux fuel c op h

/-- Every state reachable from the empty centre by any operation sequence satisfies it. -/
theorem inv_reachable (fuel : Nat) (ops : List Op) : Inv (run fuel {} ops).1 :=
  runAll_preserves Inv (exec fuel) (fun c op h => inv_exec fuel c op h) {} ops inv_init

/-! ## 2. The two-level registry refines "one ordered list of registrations per key" -/

/-- addObserver on a fresh (key, observer): appended at the end of that key's list; other keys untouched. -/
theorem refines_add (c : Center) (o : Obj) (m : Meth) (k : RKey) (ident : Option String)
    (hno : hasReg c k o = false) (k2 : RKey) :
    (add c o m k ident).2 = .ok ∧
    regsAt (add c o m k ident).1 k2 = if k = k2 then regsAt c k ++ [⟨o, m, ident⟩] else regsAt c k2 := by
  refine ⟨?_, regsAt_add_ok hno k2⟩
  unfold add; simp [hno]

/-- a second registration of the same observer under the same key is rejected, state unchanged -/
theorem refines_add_dup (c : Center) (o : Obj) (m : Meth) (k : RKey) (ident : Option String)
    (h : hasReg c k o = true) : add c o m k ident = (c, .err .assertionError) := add_dup h

/-- removeObserver removes exactly that observer's registration under exactly that key -/
theorem refines_remove (c : Center) (h : Inv c) (o : Obj) (k k2 : RKey) :
    regsAt (removeKey c o k) k2 =
      if k = k2 then (regsAt c k).filter (fun r => r.observer ≠ o) else regsAt c k2 :=
  regsAt_removeKey h o k k2

/-- removeObserver(…, "all", observable) removes the observer from every key of that observable
and from no other key -/
theorem refines_removeAll (c : Center) (h : Inv c) (o : Obj) (s : Option Obj) (k2 : RKey) :
    regsAt (removeAll c o s).1 k2 =
      if k2.2 = s then (regsAt c k2).filter (fun r => r.observer ≠ o) else regsAt c k2 :=
  regsAt_removeAll h o s k2

/-- … and raises KeyError exactly when there is nothing to remove -/
theorem removeAll_rejects_iff (c : Center) (h : Inv c) (o : Obj) (s : Option Obj) :
    (removeAll c o s).2 = .err .keyError ↔ ∀ k : RKey, k.2 = s → hasReg c k o = false :=
  removeAll_err_iff h o s

/-- hasObserver answers membership in the key's list -/
theorem has_exact (c : Center) (k : RKey) (o : Obj) :
    hasReg c k o = true ↔ ∃ r ∈ regsAt c k, r.observer = o := by
  unfold hasReg; simp [List.any_eq_true]

/-! ## 3. Exact deliveries -/

/-- A post that no sender-side suspension catches delivers — when callbacks issue no operations —
exactly to the registrations under `(None,None)`, `(None,s)`, `(n,None)`, `(n,s)` in that key
order and registration order within a key, skipping precisely those that are disabled, held or
dead for that observer (or excluded by the private target of a re-post); only hold queues change. -/
theorem post_exact (rec : Center → Op → Center × List Ev) (c : Center) (n : Name) (s : Obj) (d : Data)
    (t : Option Obj) (hs : c.scripts = []) (hd : isDisabled c (senderKeys n s) = false)
    (hh : firstHold c (senderKeys n s) = none) :
    (post rec c n s d t).2 = ((matching c n s).filter (deliverable c n s t)).map (deliverEv n s d) ∧
    SameShape c (post rec c n s d t).1 :=
  ⟨(post_exact_aux rec c n s d t hs hd hh).2, (post_exact_aux rec c n s d t hs hd hh).1⟩

/-- Each registration is delivered once: a key's list never names an observer twice. -/
theorem each_once (c : Center) (h : Inv c) (k : RKey) : ((regsAt c k).map (·.observer)).Nodup :=
  regsAt_nodup h k

private theorem deliverOne_plain (rec : Center → Op → Center × List Ev) (n : Name) (s : Obj) (d : Data)
    (c : Center) (r : Reg) (hh : c.holds = []) (hd : c.disabled = []) (hs : c.scripts = []) :
    deliverOne rec n s d none c r =
      (c, if r.observer ∈ c.dead then [] else [deliverEv n s d r]) := by
  unfold deliverOne callback
  simp [isDisabled, firstHold, AL.contains, hh, hd, hs, observerKeys, deliverEv]
  split <;> rfl

private theorem runAll_deliverOne_plain (rec : Center → Op → Center × List Ev) (n : Name) (s : Obj) (d : Data)
    (c : Center) (regs : List Reg) (hh : c.holds = []) (hd : c.disabled = []) (hs : c.scripts = []) :
    runAll (deliverOne rec n s d none) c regs =
      (c, (regs.filter (fun r => r.observer ∉ c.dead)).map (deliverEv n s d)) := by
  induction regs with
  | nil => rfl
  | cons r rs ih =>
    rw [runAll_cons, deliverOne_plain rec n s d c r hh hd hs]
    simp only [ih]
    by_cases hdead : r.observer ∈ c.dead <;> simp [hdead]

private theorem runAll_deliverKey_plain (rec : Center → Op → Center × List Ev) (n : Name) (s : Obj) (d : Data)
    (c : Center) (ks : List RKey) (hh : c.holds = []) (hd : c.disabled = []) (hs : c.scripts = []) :
    runAll (deliverKey rec n s d none) c ks =
      (c, ((ks.flatMap (regsAt c)).filter (fun r => r.observer ∉ c.dead)).map (deliverEv n s d)) := by
  induction ks with
  | nil => rfl
  | cons k ks ih =>
    rw [runAll_cons]
    unfold deliverKey at ih ⊢
    rw [runAll_deliverOne_plain rec n s d c _ hh hd hs]
    simp only [ih]
    simp

/-- With nothing suspended: state unchanged, deliveries = all matching live registrations, in
order (least → most specific key, registration order within), one per registration. -/
theorem post_exact_unsuspended (rec : Center → Op → Center × List Ev) (c : Center) (n : Name) (s : Obj)
    (d : Data) (hh : c.holds = []) (hd : c.disabled = []) (hs : c.scripts = []) :
    post rec c n s d none =
      (c, ((matching c n s).filter (fun r => r.observer ∉ c.dead)).map (deliverEv n s d)) := by
  unfold post
  simp only [isDisabled, firstHold, AL.contains, hh, hd, senderKeys]
  simp only [AL.get?_nil, Option.isSome_none, List.any_cons, List.any_nil, Bool.or_self,
    Bool.false_eq_true, if_false, List.find?_cons, List.find?_nil]
  exact runAll_deliverKey_plain rec n s d c _ hh hd hs

/-- Nothing is ever delivered to a dead observer — for any callback interpreter. -/
theorem no_delivery_to_dead (rec : Center → Op → Center × List Ev) (n : Name) (s : Obj) (d : Data)
    (t : Option Obj) (c : Center) (r : Reg) (hdead : r.observer ∈ c.dead) :
    (deliverOne rec n s d t c r).2 = [] := by
  unfold deliverOne
  split
  · rfl
  · split
    · rfl
    · split
      · rfl
      · simp [hdead]

/-! ## 4. Disable, hold, release -/

/-- A post matched by a sender-side disable is dropped for good: no event, no state change. -/
theorem disable_drops (rec : Center → Op → Center × List Ev) (c : Center) (n : Name) (s : Obj) (d : Data)
    (t : Option Obj) (h : isDisabled c (senderKeys n s) = true) : post rec c n s d t = (c, []) := by
  unfold post; simp [h]

/-- A post matched by a sender-side hold (and no disable) delivers nothing and is appended to the
queue of the least specific matching hold — unless an equal notification is already pending. -/
theorem hold_queues (rec : Center → Op → Center × List Ev) (c : Center) (n : Name) (s : Obj) (d : Data)
    (t : Option Obj) (hk : HKey) (hd : isDisabled c (senderKeys n s) = false)
    (hh : firstHold c (senderKeys n s) = some hk) :
    post rec c n s d t = (enqueue c hk ⟨n, s, d, t⟩, []) := by
  unfold post; simp [hd, hh]

/-- equal pending notifications coalesce -/
theorem hold_coalesces (c : Center) (h : Inv c) (hk : HKey) (note : Note) :
    enqueue (enqueue c hk note) hk note = enqueue c hk note := by
  cases hg : AL.get? c.holds hk with
  | none => simp [enqueue, hg]
  | some hd =>
    by_cases hm : note ∈ hd.queue
    · simp [enqueue, hg, hm]
    · have : enqueue c hk note = { c with holds := AL.set c.holds hk { hd with queue := hd.queue ++ [note] } } := by
        simp [enqueue, hg, hm]
      rw [this]
      simp [enqueue]

/-- first-post order: a new pending notification goes to the end of the queue -/
theorem hold_fifo (c : Center) (hk : HKey) (hd : Hold) (note : Note)
    (hg : AL.get? c.holds hk = some hd) (hm : note ∉ hd.queue) :
    AL.get? (enqueue c hk note).holds hk = some { hd with queue := hd.queue ++ [note] } := by
  simp [enqueue, hg, hm]

/-- holds nest: releasing a hold requested more than once only decrements the count; nothing is
delivered and the queue is kept -/
theorem release_nests (rec : Center → Op → Center × List Ev) (c : Center) (hk : HKey) (hd : Hold)
    (hg : AL.get? c.holds hk = some hd) (hc : 1 < hd.count) :
    release rec c hk =
      ({ c with holds := AL.set c.holds hk { hd with count := hd.count - 1 } }, [.ret .ok]) := by
  unfold release
  have : ¬ (hd.count - 1 = 0) := by omega
  simp [hg, this]

/-- the last release removes the hold and re-posts the queue in first-post order -/
theorem release_last (rec : Center → Op → Center × List Ev) (c : Center) (hk : HKey) (hd : Hold)
    (hg : AL.get? c.holds hk = some hd) (hc : hd.count = 1) :
    release rec c hk =
      let r := runAll (repost rec) { c with holds := AL.erase c.holds hk } hd.queue
      (r.1, r.2 ++ [.ret .ok]) := by
  unfold release
  simp [hg, hc]

/-- releasing or enabling something that is not suspended raises KeyError and changes nothing -/
theorem release_unknown (rec : Center → Op → Center × List Ev) (c : Center) (hk : HKey)
    (hg : AL.get? c.holds hk = none) : release rec c hk = (c, [.ret (.err .keyError)]) := by
  unfold release; simp [hg]

theorem enable_unknown (c : Center) (hk : HKey) (hg : AL.get? c.disabled hk = none) :
    enable c hk = (c, .err .keyError) := by
  unfold enable; simp [hg]

/-- disables nest: n disables need n enables -/
theorem disable_nests (c : Center) (h : Inv c) (hk : HKey) :
    AL.contains (disable c hk).disabled hk = true ∧
    (enable (disable c hk) hk).1.disabled = c.disabled ∨
    AL.contains (enable (disable c hk) hk).1.disabled hk = true := by
  cases hg : AL.get? c.disabled hk with
  | none =>
    left
    refine ⟨by simp [disable], ?_⟩
    simp only [enable, disable, AL.get?_set_self, hg, Option.getD_none]
    simp only [Nat.zero_add, Nat.sub_self, if_true]
    have hnot : hk ∉ AL.keys c.disabled := by
      intro hm
      have : ∃ v, (hk, v) ∈ c.disabled := by
        simp only [AL.keys, List.mem_map] at hm
        obtain ⟨⟨k, v⟩, hm, rfl⟩ := hm
        exact ⟨v, hm⟩
      obtain ⟨v, hv⟩ := this
      rw [AL.get?_of_mem_nodup h.disKeys hv] at hg
      simp at hg
    clear hg
    generalize c.disabled = l at hnot
    induction l with
    | nil => simp [AL.set, AL.erase]
    | cons p r ih =>
      obtain ⟨k', v'⟩ := p
      simp only [AL.keys, List.map_cons, List.mem_cons, not_or] at hnot
      have hne : k' ≠ hk := fun e => hnot.1 e.symm
      simp only [AL.set, hne, if_false, AL.erase]
      rw [ih (by simpa [AL.keys] using hnot.2)]
  | some m =>
    right
    have hpos := h.disPos _ (AL.mem_of_get? hg)
    simp only at hpos
    have : m ≠ 0 := by omega
    simp [enable, disable, hg, this]

/-- A suspension under a key that is none of the candidate keys of a lookup does not affect it:
scopes are independent. -/
theorem scopes_independent_disable (c : Center) (hk : HKey) (ks : List HKey) (h : hk ∉ ks) :
    isDisabled (disable c hk) ks = isDisabled c ks := by
  unfold isDisabled disable
  simp only [AL.contains_set]
  induction ks with
  | nil => rfl
  | cons k ks ih =>
    simp only [List.mem_cons, not_or] at h
    simp only [List.any_cons, ih h.2]
    simp [h.1]

theorem scopes_independent_hold (c : Center) (hk : HKey) (note : Option Nat) (ks : List HKey) (h : hk ∉ ks) :
    firstHold (hold c hk note) ks = firstHold c ks := by
  unfold firstHold hold
  simp only [AL.contains_set]
  induction ks with
  | nil => rfl
  | cons k ks ih =>
    simp only [List.mem_cons, not_or] at h
    simp only [List.find?_cons, ih h.2]
    simp [h.1]

/-- hold/disable tables never influence each other or the registry -/
theorem suspend_leaves_registry (c : Center) (hk : HKey) (note : Option Nat) (k : RKey) :
    regsAt (hold c hk note) k = regsAt c k ∧ regsAt (disable c hk) k = regsAt c k ∧
    (hold c hk note).disabled = c.disabled ∧ (disable c hk).holds = c.holds := ⟨rfl, rfl, rfl, rfl⟩

/-- Whole-post form of scope independence: an extra disable under a key that is neither a
sender-side candidate of `(n, s)` nor an observer-side candidate of any matching registration
changes no delivery. -/
theorem post_scope_independent (rec : Center → Op → Center × List Ev) (c : Center) (n : Name) (s : Obj)
    (d : Data) (hk : HKey) (hs : c.scripts = [])
    (hd : isDisabled c (senderKeys n s) = false) (hh : firstHold c (senderKeys n s) = none)
    (h1 : hk ∉ senderKeys n s) (h2 : ∀ r ∈ matching c n s, hk ∉ observerKeys n s r.observer) :
    (post rec (disable c hk) n s d none).2 = (post rec c n s d none).2 := by
  have hd' : isDisabled (disable c hk) (senderKeys n s) = false := by
    rw [scopes_independent_disable c hk _ h1]; exact hd
  rw [(post_exact rec c n s d none hs hd hh).1,
      (post_exact rec (disable c hk) n s d none hs hd' hh).1]
  have hm : matching (disable c hk) n s = matching c n s := rfl
  rw [hm]
  congr 1
  apply List.filter_congr
  intro r hr
  unfold deliverable
  rw [scopes_independent_disable c hk _ (h2 r hr)]
  rfl

/-! ## 5. Observer-scoped hold is per observer -/

/-- With a single hold scoped to observer `o` (any name, any sender) and nothing else suspended,
a post is delivered immediately to every other live matching registration and to none of `o`'s. -/
theorem observer_scoped_hold_is_per_observer (rec : Center → Op → Center × List Ev) (c : Center)
    (o : Obj) (hd0 : Hold) (n : Name) (s : Obj) (d : Data)
    (hh : c.holds = [((none, none, some o), hd0)]) (hd : c.disabled = []) (hs : c.scripts = []) :
    (post rec c n s d none).2 =
      ((matching c n s).filter (fun r => r.observer ≠ o ∧ r.observer ∉ c.dead)).map (deliverEv n s d) := by
  have h1 : isDisabled c (senderKeys n s) = false := by simp [isDisabled, AL.contains, hd, senderKeys]
  have h2 : firstHold c (senderKeys n s) = none := by
    simp [firstHold, AL.contains, hh, senderKeys]
  rw [(post_exact rec c n s d none hs h1 h2).1]
  congr 1
  apply List.filter_congr
  intro r _
  unfold deliverable
  simp only [isDisabled, firstHold, AL.contains, hh, hd, observerKeys]
  by_cases e : r.observer = o
  · subst e; simp
  · have e' : ¬ o = r.observer := fun x => e x.symm
    simp [e, e']

/-- … and when that hold is released, the queued notifications are re-posted restricted to `o`:
the private target excludes every other observer. -/
theorem release_targets_only_holder (rec : Center → Op → Center × List Ev) (n : Name) (s : Obj) (d : Data)
    (o : Obj) (c : Center) (r : Reg) (h : r.observer ≠ o) :
    deliverOne rec n s d (some o) c r = (c, []) := by
  unfold deliverOne
  have : (some o : Option Obj) ≠ some r.observer := by
    intro e; injection e with e; exact h e.symm
  simp [this]

/-! ## 6. Lookup exactness -/

/-- findObservations reports exactly the registrations that match the filter: every reported
record comes from a registration stored under a matching key for a matching observer whose
identifier matches the pattern, and every such registration is reported. -/
theorem find_exact (c : Center) (o : Option Obj) (n : Option Name) (s : Option Obj) (pat : Option String)
    (f : Found) :
    f ∈ findObs c o n s pat ↔
      ∃ kr ∈ c.registry, ∃ r ∈ kr.2,
        keyOk n s kr.1 = true ∧ identOk pat r.ident = true ∧ obsOk o r.observer = true ∧
        f = ⟨liveRef c r.observer, liveRef? c kr.1.2, kr.1.1, r.ident⟩ := by
  unfold findObs
  simp only [List.mem_flatMap]
  constructor
  · rintro ⟨kr, hkr, hf⟩
    refine ⟨kr, hkr, ?_⟩
    by_cases hk : keyOk n s kr.1 = true
    · rw [if_pos hk] at hf
      simp only [List.mem_filterMap] at hf
      obtain ⟨r, hr, hsome⟩ := hf
      refine ⟨r, hr, hk, ?_⟩
      by_cases hok : (identOk pat r.ident && obsOk o r.observer) = true
      · rw [if_pos hok] at hsome
        simp only [Bool.and_eq_true] at hok
        exact ⟨hok.1, hok.2, (Option.some.inj hsome).symm⟩
      · rw [if_neg hok] at hsome; simp at hsome
    · rw [if_neg hk] at hf; simp at hf
  · rintro ⟨kr, hkr, r, hr, hk, hi, ho, hf⟩
    refine ⟨kr, hkr, ?_⟩
    rw [if_pos hk]
    simp only [List.mem_filterMap]
    refine ⟨r, hr, ?_⟩
    simp [hi, ho, hf]

/-- what the three filters mean -/
theorem keyOk_iff (n : Option Name) (s : Option Obj) (k : RKey) :
    keyOk n s k = true ↔ (n = none ∨ k.1 = n) ∧ (s = none ∨ k.2 = s) := by
  unfold keyOk
  cases n <;> cases s <;> simp

theorem obsOk_iff (o : Option Obj) (x : Obj) : obsOk o x = true ↔ (o = none ∨ o = some x) := by
  cases o with
  | none => simp [obsOk]
  | some y => simp [obsOk]; exact eq_comm

theorem identOk_iff (pat ident : Option String) :
    identOk pat ident = true ↔
      (pat = none ∨ ∃ p i, pat = some p ∧ ident = some i ∧ glob p.toList i.toList = true) := by
  cases pat with
  | none => simp [identOk]
  | some p =>
    cases ident with
    | none => simp [identOk]
    | some i => simp [identOk]


/-! ## 8. Overlapping holds of different widths: pending copies for ONE observer -/

/-- The end-to-end statement.  Take any history of posts, holds and releases - any of the eight
scopes, requested any number of times, opened and closed in any order, properly nested or
overlapping - on a centre whose callbacks issue no operations and in which nothing is disabled.
If `(n, s, d)` is posted exactly once in it (other notifications as often as one likes) and no
hold is left at the end, then every observer `o` has received `(n, s, d)` exactly once per
matching registration - in registration order from the least to the most specific key, never
twice, never zero times, nothing if it has died: the log filtered to `o` and `(n, s, d)` IS the
list `due`.  (Why "exactly once": through every step the notification is, for `o`, either pending
in exactly one queue entry - unrestricted, or restricted to `o` - or delivered in full; a narrow
hold that ends re-posts its entry into whatever wider hold is still active, and the entry keeps
its addressee.)  `pend c n s d o = 0` says no copy is pending at the start, e.g. no holds. -/
theorem overlapping_holds_deliver_once (fuel : Nat) (c : Center) (ops : List Op) (n : Name) (s : Obj) (d : Data)
    (o : Obj) (hs : c.scripts = []) (hd : c.disabled = []) (hq : pend c n s d o = 0) (hsl : s ∉ c.dead)
    (hops : ∀ op ∈ ops, isHoldOrPost op = true) (hone : postsOf n s d ops = 1)
    (hfin : (run (fuel + 1) c ops).1.holds = []) :
    delTo n s d o (run (fuel + 1) c ops).2 = due c n s d o := by
  have q0 : Quiet c := ⟨hs, hd⟩
  have h0 : St n s d o c false c [] [] := by
    unfold St
    exact ⟨by simpa [cntL] using hq, rfl⟩
  obtain ⟨_, h1⟩ := run_St_once n s d o fuel c q0 hsl ops c [] hops hone (Frame.refl c) h0
  exact St_final n s d o (by simpa using h1) hfin

/-- The same histories with `(n, s, d)` posted SEVERAL times: equal pending copies coalesce, so the
number of deliveries is bounded rather than determined - but it is never zero and never more than
the number of posts, and every time `o` is served it is served in full: the log filtered to `o`
and `(n, s, d)` is `j` repetitions of `due`, with `1 ≤ j ≤` the number of posts. -/
theorem repeated_posts_deliver_between_once_and_each (fuel : Nat) (c : Center) (ops : List Op) (n : Name) (s : Obj)
    (d : Data) (o : Obj) (hs : c.scripts = []) (hd : c.disabled = []) (hq : pend c n s d o = 0) (hsl : s ∉ c.dead)
    (hops : ∀ op ∈ ops, isHoldOrPost op = true) (hposted : 1 ≤ postsOf n s d ops)
    (hfin : (run (fuel + 1) c ops).1.holds = []) :
    ∃ j, 1 ≤ j ∧ j ≤ postsOf n s d ops ∧
      delTo n s d o (run (fuel + 1) c ops).2 = (List.replicate j (due c n s d o)).flatten := by
  have q0 : Quiet c := ⟨hs, hd⟩
  have h0 : Gd n s d o c 0 c [] [] := ⟨0, rfl, by simp [hq, cntL], fun h => absurd h (by omega)⟩
  obtain ⟨_, j, h1, h2, h3⟩ := run_Gd n s d o fuel c q0 hsl ops 0 c [] hops (Frame.refl c) h0
  have hp : pend (run (fuel + 1) c ops).1 n s d o = 0 := by rw [pend_eq, hfin]; rfl
  have hz : cntL n s d o [] = 0 := rfl
  rw [hp, hz] at h2 h3
  refine ⟨j, by have := h3 (by omega); omega, by omega, ?_⟩
  simpa [batches] using h1

/-- The same, started in the middle: when exactly one copy of `(n, s, d)` is pending for `o` (in
whichever queue, restricted to `o` or not), then whatever holds are requested and released and
whatever else is posted afterwards, in whatever order: once no hold is left, `o` has received it
exactly once per matching registration.  (Induction over the release order.) -/
theorem pending_copy_is_delivered_once (fuel : Nat) (c : Center) (ops : List Op) (n : Name) (s : Obj) (d : Data)
    (o : Obj) (hs : c.scripts = []) (hd : c.disabled = []) (hq : pend c n s d o = 1) (hsl : s ∉ c.dead)
    (hops : ∀ op ∈ ops, isHoldOrPost op = true) (hnone : postsOf n s d ops = 0)
    (hfin : (run (fuel + 1) c ops).1.holds = []) :
    delTo n s d o (run (fuel + 1) c ops).2 = due c n s d o := by
  have q0 : Quiet c := ⟨hs, hd⟩
  have h0 : St n s d o c true c [] [] := by
    unfold St
    left
    exact ⟨by simpa [cntL] using hq, rfl⟩
  obtain ⟨_, h1⟩ := run_St_quietly n s d o fuel c q0 hsl true ops c [] hops hnone (Frame.refl c) h0
  exact St_final n s d o (by simpa using h1) hfin

/-- Equal notifications destined for DIFFERENT observers do not coalesce: queued one after the
other into the same hold, both are kept, in first-post order; and if they are the only pending
copies, each of the two observers receives the notification exactly once per registration when
the holds have all ended - whatever narrow and wide holds are opened and closed in between, in
whatever order. -/
theorem restricted_entries_do_not_coalesce_across_observers (c : Center) (hk : HKey) (h : Hold)
    (n : Name) (s : Obj) (d : Data) (o1 o2 : Obj) (hne : o1 ≠ o2)
    (hg : AL.get? c.holds hk = some h)
    (h1 : (⟨n, s, d, some o1⟩ : Note) ∉ h.queue) (h2 : (⟨n, s, d, some o2⟩ : Note) ∉ h.queue) :
    AL.get? (enqueue (enqueue c hk ⟨n, s, d, some o1⟩) hk ⟨n, s, d, some o2⟩).holds hk =
      some { h with queue := h.queue ++ [⟨n, s, d, some o1⟩, ⟨n, s, d, some o2⟩] } ∧
    ∀ (fuel : Nat) (ops : List Op), c.scripts = [] → c.disabled = [] → s ∉ c.dead →
      pend c n s d o1 = 0 → pend c n s d o2 = 0 →
      (∀ op ∈ ops, isHoldOrPost op = true) → postsOf n s d ops = 0 →
      (run (fuel + 1) (enqueue (enqueue c hk ⟨n, s, d, some o1⟩) hk ⟨n, s, d, some o2⟩) ops).1.holds = [] →
      delTo n s d o1 (run (fuel + 1) (enqueue (enqueue c hk ⟨n, s, d, some o1⟩) hk ⟨n, s, d, some o2⟩) ops).2
        = due c n s d o1 ∧
      delTo n s d o2 (run (fuel + 1) (enqueue (enqueue c hk ⟨n, s, d, some o1⟩) hk ⟨n, s, d, some o2⟩) ops).2
        = due c n s d o2 := by
  have hg1 : AL.get? (enqueue c hk ⟨n, s, d, some o1⟩).holds hk =
      some { h with queue := h.queue ++ [⟨n, s, d, some o1⟩] } := get?_enqueue_fresh hg h1
  have h2' : (⟨n, s, d, some o2⟩ : Note) ∉ h.queue ++ [⟨n, s, d, some o1⟩] := by
    simp only [List.mem_append, List.mem_singleton, Note.mk.injEq, Option.some.injEq, true_and, not_or]
    exact ⟨h2, fun e => hne e.symm⟩
  refine ⟨?_, ?_⟩
  · rw [get?_enqueue_fresh hg1 h2']
    simp
  · intro fuel ops hs hd hsl hp1 hp2 hops hnone hfin
    have hsh : SameShape c (enqueue (enqueue c hk ⟨n, s, d, some o1⟩) hk ⟨n, s, d, some o2⟩) :=
      (sameShape_enqueue _ _ _).trans (sameShape_enqueue _ _ _)
    have hfor11 : Note.isFor n s d o1 ⟨n, s, d, some o1⟩ = true := by simp [Note.isFor]
    have hfor22 : Note.isFor n s d o2 ⟨n, s, d, some o2⟩ = true := by simp [Note.isFor]
    have hfor12 : Note.isFor n s d o1 ⟨n, s, d, some o2⟩ = false := by
      simp [Note.isFor]; exact fun e => hne e.symm
    have hfor21 : Note.isFor n s d o2 ⟨n, s, d, some o1⟩ = false := by
      simp [Note.isFor]; exact hne
    have hq1 : pend (enqueue (enqueue c hk ⟨n, s, d, some o1⟩) hk ⟨n, s, d, some o2⟩) n s d o1 = 1 := by
      rw [pend_enqueue_notFor n s d o1 _ _ _ hfor12, pend_enqueue_fresh n s d o1 hg h1, hp1, hfor11]; rfl
    have hq2 : pend (enqueue (enqueue c hk ⟨n, s, d, some o1⟩) hk ⟨n, s, d, some o2⟩) n s d o2 = 1 := by
      rw [pend_enqueue_fresh n s d o2 hg1 h2', pend_enqueue_notFor n s d o2 _ _ _ hfor21, hp2, hfor22]; rfl
    have hs' := hsh.scripts.trans hs
    have hd' := hsh.disabled.trans hd
    have hsl' : s ∉ (enqueue (enqueue c hk ⟨n, s, d, some o1⟩) hk ⟨n, s, d, some o2⟩).dead := by
      rw [hsh.dead]; exact hsl
    refine ⟨?_, ?_⟩
    · rw [pending_copy_is_delivered_once fuel _ ops n s d o1 hs' hd' hq1 hsl' hops hnone hfin]
      exact hsh.frame.due n s d o1
    · rw [pending_copy_is_delivered_once fuel _ ops n s d o2 hs' hd' hq2 hsl' hops hnone hfin]
      exact hsh.frame.due n s d o2

/-- A copy restricted to observer `o` (what a hold scoped to `o` queued, at whatever later release it
is posted again) reaches `o` only: every event of its post is a delivery to `o`, and for every
other observer neither the pending copies nor the deliveries change - also when a wider hold
catches it again (then it is queued with its addressee kept, see `hold_queues`). -/
theorem restricted_entry_reaches_only_its_observer (rec : Center → Op → Center × List Ev) (c : Center)
    (n : Name) (s : Obj) (d : Data) (o : Obj) (hs : c.scripts = []) :
    (∀ ev ∈ (post rec c n s d (some o)).2, ∃ m, ev = .deliver o m n s d) ∧
    (c.disabled = [] → ∀ o', o' ≠ o →
      pend (post rec c n s d (some o)).1 n s d o' = pend c n s d o' ∧
      delTo n s d o' (post rec c n s d (some o)).2 = []) := by
  refine ⟨?_, ?_⟩
  · by_cases hdis : isDisabled c (senderKeys n s) = true
    · rw [disable_drops rec c n s d _ hdis]; simp
    · have hdis' : isDisabled c (senderKeys n s) = false := by simpa using hdis
      cases hh : firstHold c (senderKeys n s) with
      | some hk => rw [hold_queues rec c n s d _ hk hdis' hh]; simp
      | none =>
        rw [(post_exact rec c n s d (some o) hs hdis' hh).1]
        intro ev hev
        simp only [List.mem_map, List.mem_filter] at hev
        obtain ⟨r, ⟨_, hdl⟩, rfl⟩ := hev
        unfold deliverable at hdl
        simp only [Option.isNone_some, Bool.false_or, Bool.and_eq_true, beq_iff_eq, Option.some.injEq] at hdl
        exact ⟨r.meth, by rw [deliverEv, ← hdl.1.1.1]⟩
  · intro hd o' hne
    exact post_irrelevant rec n s d o' n s d (some o) ⟨hs, hd⟩
      (Or.inr ⟨rfl, fun e => hne (Option.some.inj e).symm⟩)

/-- First-post order, for one hold: when the last hold in force ends (nothing else suspended,
callbacks passive) its queue is delivered entry by entry in queue order - the order of the first
posts - each entry to the live matching registrations it is meant for, in registration order; an
entry whose sender has died is skipped and the entries behind it still go out. -/
theorem release_delivers_in_queue_order (rec : Center → Op → Center × List Ev) (c : Center) (hk : HKey)
    (h : Hold) (hh : c.holds = [(hk, h)]) (hc : h.count = 1) (hd : c.disabled = []) (hs : c.scripts = []) :
    (release rec c hk).2 =
      h.queue.flatMap (fun x => if x.sender ∈ c.dead then [] else
        (plainTargets c x).map (deliverEv x.name x.sender x.data)) ++ [.ret .ok] := by
  have hg : AL.get? c.holds hk = some h := by simp [hh]
  rw [release_last_eq rec hg (by omega)]
  have he : AL.erase c.holds hk = [] := by simp [hh, AL.erase]
  have q1 : Quiet { c with holds := AL.erase c.holds hk } := ⟨hs, hd⟩
  rw [runAll_repost_noholds rec _ q1 he]
  rfl

/-! ## 9. `None` as an argument: a key for has / add / remove, a wildcard for find -/

/-- `hasObserver(observer, None, observable)` asks for the catch-all registration itself: it is
true exactly when the observer is registered under the key `(None, observable)`; registering it
for a name changes nothing to that, and removing the catch-all registration leaves the
registrations for names alone. -/
theorem has_none_is_a_key (c : Center) (hi : Inv c) (o : Obj) (s : Option Obj) :
    (hasReg c (none, s) o = true ↔ ∃ r ∈ regsAt c (none, s), r.observer = o) ∧
    (∀ (n : Name) (m : Meth) (i : Option String) (o' : Obj),
      hasReg (add c o m (some n, s) i).1 (none, s) o' = hasReg c (none, s) o') ∧
    (∀ (n : Name) (o' : Obj),
      hasReg (removeKey c o (none, s)) (some n, s) o' = hasReg c (some n, s) o') := by
  refine ⟨has_exact c (none, s) o, ?_, ?_⟩
  · intro n m i o'
    by_cases hno : hasReg c (some n, s) o = true
    · rw [add_dup hno]
    · have hno' : hasReg c (some n, s) o = false := by simpa using hno
      unfold hasReg
      rw [regsAt_add_ok hno' (none, s)]
      simp
  · intro n o'
    unfold hasReg
    rw [regsAt_removeKey hi o (none, s) (some n, s)]
    simp

/-- `findObservations(notification=None)` does not ask for the catch-all registrations: it places no
condition on the name.  It reports every registration whose sender, observer and identifier
match, whatever it was registered for; so it contains the answer for every given name (whose
records all carry that name), and the catch-all registrations besides. -/
theorem find_none_is_a_wildcard (c : Center) (o : Option Obj) (s : Option Obj) (pat : Option String) (f : Found) :
    (f ∈ findObs c o none s pat ↔
      ∃ kr ∈ c.registry, ∃ r ∈ kr.2,
        (s = none ∨ kr.1.2 = s) ∧ identOk pat r.ident = true ∧ obsOk o r.observer = true ∧
        f = ⟨liveRef c r.observer, liveRef? c kr.1.2, kr.1.1, r.ident⟩) ∧
    (∀ n : Name, f ∈ findObs c o (some n) s pat → f ∈ findObs c o none s pat ∧ f.notification = some n) := by
  refine ⟨?_, ?_⟩
  · rw [find_exact]
    constructor
    · rintro ⟨kr, hkr, r, hr, hk, h1, h2, h3⟩
      exact ⟨kr, hkr, r, hr, by simpa using ((keyOk_iff none s kr.1).mp hk).2, h1, h2, h3⟩
    · rintro ⟨kr, hkr, r, hr, hk, h1, h2, h3⟩
      exact ⟨kr, hkr, r, hr, (keyOk_iff none s kr.1).mpr ⟨Or.inl rfl, hk⟩, h1, h2, h3⟩
  · intro n hf
    rw [find_exact] at hf ⊢
    obtain ⟨kr, hkr, r, hr, hk, h1, h2, h3⟩ := hf
    have hk' := (keyOk_iff (some n) s kr.1).mp hk
    refine ⟨⟨kr, hkr, r, hr, (keyOk_iff none s kr.1).mpr ⟨Or.inl rfl, hk'.2⟩, h1, h2, h3⟩, ?_⟩
    rw [h3]
    rcases hk'.1 with e | e
    · exact absurd e (by simp)
    · exact e

/-! ## 10. Identifier patterns: `fnmatch.fnmatchcase`, bracket expressions included -/

/-- The matcher of the model decides exactly the declarative reading of the pattern: the
identifier is a concatenation of one piece per token - the character itself for a literal, any one
character for `?`, one character inside (outside) the listed ranges for `[seq]` (`[!seq]`), any
string for `*`. -/
theorem glob_matches_spec (p s : List Char) : glob p s = true ↔ Matches (tokenize p) s :=
  globT_iff (tokenize p) s

/-- a `[` that is never closed stands for itself, and the scan resumes right after it -/
theorem unclosed_bracket_is_literal (p : List Char) (h : ']' ∉ p) :
    tokenize ('[' :: p) = .lit '[' :: tokenize p := by
  have hsplit : splitSet p = none := by
    unfold splitSet
    have hsub : ∀ x ∈ (leadClose (dropBang p).2).2, x ∈ p := by
      intro x hx
      have h1 : ∀ (l : List Char), ∀ y ∈ (dropBang l).2, y ∈ l := by
        intro l y hy
        unfold dropBang at hy
        split at hy
        · simp only at hy; simp [hy]
        · exact hy
      have h2 : ∀ (l : List Char), ∀ y ∈ (leadClose l).2, y ∈ l := by
        intro l y hy
        unfold leadClose at hy
        split at hy
        · simp only at hy; simp [hy]
        · exact hy
      exact h1 p x (h2 _ x hx)
    have : untilClose (leadClose (dropBang p).2).2 = none := by
      rw [untilClose_none_iff]
      intro hm; exact h (hsub _ hm)
    rw [this]
  unfold tokenize
  simp only [List.length_cons]
  exact tokenizeF_open_unclosed _ p hsplit

/-! ## 11. Objects that die while something is pending -/

/-- A queued notification whose SENDER has died is dropped at release - no event, no change - and
the entries behind it are re-posted as if it had never been there (callbacks passive). -/
theorem dead_sender_entries_are_dropped (rec : Center → Op → Center × List Ev) (c : Center) (hs : c.scripts = [])
    (queue : List Note) :
    (∀ q : Note, q.sender ∈ c.dead → repost rec c q = (c, [])) ∧
    runAll (repost rec) c queue = runAll (repost rec) c (queue.filter (fun q => q.sender ∉ c.dead)) := by
  refine ⟨fun q hq => by simp [repost, hq], ?_⟩
  have key : ∀ c', SameShape c c' →
      runAll (repost rec) c' queue = runAll (repost rec) c' (queue.filter (fun q => q.sender ∉ c.dead)) := by
    induction queue with
    | nil => intro c' _; rfl
    | cons q qs ih =>
      intro c' hsh
      by_cases hq : q.sender ∈ c.dead
      · have hq' : q.sender ∈ c'.dead := by rw [hsh.dead]; exact hq
        have : repost rec c' q = (c', []) := by simp [repost, hq']
        rw [runAll_cons, this]
        simp only [List.nil_append]
        rw [List.filter_cons_of_neg (by simpa using hq)]
        exact ih c' hsh
      · rw [List.filter_cons_of_pos (by simpa using hq), runAll_cons, runAll_cons]
        have hsh' := hsh.trans (repost_sameShape_noscript rec c' (hsh.scripts.trans hs) q)
        rw [ih _ hsh']
  exact key c (SameShape.refl c)

/-- A pending copy restricted to an OBSERVER that has died meanwhile produces no delivery at all
when it is posted again (whatever else is suspended; callbacks passive). -/
theorem dead_observer_entry_vanishes (rec : Center → Op → Center × List Ev) (c : Center) (n : Name) (s : Obj)
    (d : Data) (o : Obj) (hs : c.scripts = []) (hdead : o ∈ c.dead) :
    (post rec c n s d (some o)).2 = [] := by
  have := (restricted_entry_reaches_only_its_observer rec c n s d o hs).1
  by_cases hdis : isDisabled c (senderKeys n s) = true
  · rw [disable_drops rec c n s d _ hdis]
  · have hdis' : isDisabled c (senderKeys n s) = false := by simpa using hdis
    cases hh : firstHold c (senderKeys n s) with
    | some hk => rw [hold_queues rec c n s d _ hk hdis' hh]
    | none =>
      rw [(post_exact rec c n s d (some o) hs hdis' hh).1]
      have : (matching c n s).filter (deliverable c n s (some o)) = [] := by
        rw [List.filter_eq_nil_iff]
        intro r _
        unfold deliverable
        by_cases e : r.observer = o
        · simp [e, hdead]
        · have : ¬ o = r.observer := fun x => e x.symm
          simp [this]
      rw [this]; rfl

/-! ## 7. Non-vacuity: concrete states meeting the hypotheses, and the laws in action -/

def demo : Center := (run 8 {} [.add 10 1 (some 1) (some 2) (some "a.b"), .add 11 1 none none none,
  .add 12 2 (some 1) none none, .add 10 2 none none none]).1

example : Inv demo := inv_reachable 8 _
example : demo.holds = [] ∧ demo.disabled = [] ∧ demo.scripts = [] := by decide
example : (post noRec demo 1 2 7 none).2 =
    [.deliver 11 1 1 2 7, .deliver 10 2 1 2 7, .deliver 12 2 1 2 7, .deliver 10 1 1 2 7] := by decide
/-- an observer-scoped hold: others receive now, the holder at release, nobody twice -/
example : (run 8 demo [.hold none none (some 10) none, .post 1 2 7 none, .release none none (some 10)]).2 =
    [.ret .ok, .deliver 11 1 1 2 7, .deliver 12 2 1 2 7, .ret .ok,
     .deliver 10 2 1 2 7, .deliver 10 1 1 2 7, .ret .ok] := by decide
/-- nested holds, coalescing, and a re-entrant self-removal from inside a callback -/
example : (run 8 demo [.hold (some 1) none none none, .hold (some 1) none none none, .post 1 2 7 none,
    .post 1 2 7 none, .release (some 1) none none, .script 11 1 [.remove 11 none none, .post 1 3 0 none],
    .release (some 1) none none, .post 1 2 1 none]).2 =
    [.ret .ok, .ret .ok, .ret .ok, .ret .ok, .ret .ok, .ret .ok,
     .deliver 11 1 1 2 7, .ret .ok, .deliver 10 2 1 3 0, .deliver 12 2 1 3 0, .ret .ok,
     .deliver 10 2 1 2 7, .deliver 12 2 1 2 7, .deliver 10 1 1 2 7, .ret .ok,
     .deliver 10 2 1 2 1, .deliver 12 2 1 2 1, .deliver 10 1 1 2 1, .ret .ok] := by decide


/-! ### non-vacuity of sections 8 - 11 -/

/-- a hold scoped to observer 10 and a hold on everything, opened narrow first and closed narrow
first: what the narrow hold queued for 10 moves into the wide queue, behind what was posted later -/
def overlapOps : List Op :=
  [.hold none none (some 10) none, .post 1 2 7 none, .hold none none none none, .post 1 2 5 none,
   .release none none (some 10), .release none none none]

example : demo.scripts = [] ∧ demo.disabled = [] ∧ pend demo 1 2 7 10 = 0 ∧ 2 ∉ demo.dead ∧
    (∀ op ∈ overlapOps, isHoldOrPost op = true) ∧ postsOf 1 2 7 overlapOps = 1 ∧
    (run 8 demo overlapOps).1.holds = [] := by decide
example : delTo 1 2 7 10 (run 8 demo overlapOps).2 = [.deliver 10 2 1 2 7, .deliver 10 1 1 2 7] ∧
    due demo 1 2 7 10 = [.deliver 10 2 1 2 7, .deliver 10 1 1 2 7] := by decide
/-- ... and the order in which ONE observer receives two notifications that went through different
holds is the order in which they entered the last queue, not the order of their first posts:
observer 10 gets `(1, 2, 5)` before `(1, 2, 7)`.  The property speaks of first-post order per hold. -/
example : (run 8 demo overlapOps).2 =
    [.ret .ok, .deliver 11 1 1 2 7, .deliver 12 2 1 2 7, .ret .ok, .ret .ok, .ret .ok, .ret .ok,
     .deliver 11 1 1 2 5, .deliver 10 2 1 2 5, .deliver 12 2 1 2 5, .deliver 10 1 1 2 5,
     .deliver 10 2 1 2 7, .deliver 10 1 1 2 7, .ret .ok] := by decide

/-- `(1, 2, 7)` posted three times - twice while observer 10 is held (they coalesce), once after -/
def repeatOps : List Op :=
  [.hold none none (some 10) none, .post 1 2 7 none, .post 1 2 7 none, .release none none (some 10), .post 1 2 7 none]
example : pend demo 1 2 7 10 = 0 ∧ (∀ op ∈ repeatOps, isHoldOrPost op = true) ∧ postsOf 1 2 7 repeatOps = 3 ∧
    (run 8 demo repeatOps).1.holds = [] ∧
    delTo 1 2 7 10 (run 8 demo repeatOps).2 = (List.replicate 2 (due demo 1 2 7 10)).flatten ∧
    delTo 1 2 7 11 (run 8 demo repeatOps).2 = (List.replicate 3 (due demo 1 2 7 11)).flatten := by decide

/-- one pending copy, restricted to 12, sitting in the queue of a hold on everything -/
def demoPending : Center :=
  (run 8 demo [.hold none none (some 12) none, .post 1 2 7 none, .hold none none none none,
               .release none none (some 12)]).1
example : demoPending.holds = [((none, none, none), ⟨1, [⟨1, 2, 7, some 12⟩], []⟩)] ∧
    pend demoPending 1 2 7 12 = 1 ∧ pend demoPending 1 2 7 10 = 0 := by decide
/-- a narrower hold is opened before the wide one ends: the copy moves once more, then arrives -/
def pendingOps : List Op := [.hold (some 1) none none none, .release none none none, .release (some 1) none none]
example : demoPending.scripts = [] ∧ demoPending.disabled = [] ∧ 2 ∉ demoPending.dead ∧
    (∀ op ∈ pendingOps, isHoldOrPost op = true) ∧ postsOf 1 2 7 pendingOps = 0 ∧
    (run 8 demoPending pendingOps).1.holds = [] := by decide
example : delTo 1 2 7 12 (run 8 demoPending pendingOps).2 = [.deliver 12 2 1 2 7] ∧
    due demoPending 1 2 7 12 = [.deliver 12 2 1 2 7] := by decide

/-- two equal notifications for two observers in one queue -/
def demoHeld : Center := (run 8 demo [.hold none none none none]).1
example : AL.get? demoHeld.holds (none, none, none) = some ⟨1, [], []⟩ ∧ (10 : Obj) ≠ 12 ∧
    pend demoHeld 1 2 7 10 = 0 ∧ pend demoHeld 1 2 7 12 = 0 := by decide
example : (run 8 (enqueue (enqueue demoHeld (none, none, none) ⟨1, 2, 7, some 10⟩) (none, none, none)
    ⟨1, 2, 7, some 12⟩) [.release none none none]).2 =
    [.deliver 10 2 1 2 7, .deliver 10 1 1 2 7, .deliver 12 2 1 2 7, .ret .ok] := by decide

/-- a restricted copy is served to its observer only -/
example : (post noRec demo 1 2 7 (some 10)).2 = [.deliver 10 2 1 2 7, .deliver 10 1 1 2 7] := by decide

/-- one hold, two queued notifications: delivered in queue order -/
def demoQueue : Center := (run 8 demo [.hold none none none none, .post 1 3 1 none, .post 1 2 7 none]).1
example : demoQueue.holds = [((none, none, none), ⟨1, [⟨1, 3, 1, none⟩, ⟨1, 2, 7, none⟩], []⟩)] ∧
    demoQueue.disabled = [] ∧ demoQueue.scripts = [] := by decide
example : (release noRec demoQueue (none, none, none)).2 =
    [.deliver 11 1 1 3 1, .deliver 10 2 1 3 1, .deliver 12 2 1 3 1,
     .deliver 11 1 1 2 7, .deliver 10 2 1 2 7, .deliver 12 2 1 2 7, .deliver 10 1 1 2 7, .ret .ok] := by decide

/-- `None` is a key for has (10 is registered for everything from everybody, and for name 1 of sender
2, but not for everything from sender 2) and a wildcard for find -/
example : Inv demo ∧ hasReg demo (none, none) 10 = true ∧ hasReg demo (some 1, some 2) 10 = true ∧
    hasReg demo (none, some 2) 10 = false := ⟨inv_reachable 8 _, by decide⟩
example : (findObs demo (some 10) none none none).length = 2 ∧
    (findObs demo (some 10) (some 1) none none).length = 1 ∧
    (findObs demo (some 10) none (some 2) none).length = 1 := by decide

/-- bracket expressions as `fnmatch.translate` reads them -/
example : glob ['a', '.', '[', 'b', '-', 'c', ']'] ['a', '.', 'c'] = true ∧
    glob ['a', '.', '[', '!', 'b', '-', 'c', ']'] ['a', '.', 'c'] = false ∧
    glob ['[', ']', 'a', ']', '*'] [']', 'x'] = true ∧
    glob ['[', '!', ']'] ['[', '!', ']'] = true ∧
    glob ['[', 'z', '-', 'a', ']'] ['z'] = false ∧
    glob ['[', '!', 'z', '-', 'a', ']'] ['q'] = true ∧
    glob ['[', 'a', '-', ']'] ['-'] = true ∧
    glob ['[', '^', 'a', ']'] ['^'] = true := by decide
/-- the `!` is looked for after the empty ranges have been dropped: `[b--!x]` reads `[!x]` -/
example : tokenize ['[', 'b', '-', '-', '!', 'x', ']'] = [.set true [('x', 'x')]] ∧
    glob ['[', 'b', '-', '-', '!', 'x', ']'] ['a'] = true ∧
    glob ['[', 'b', '-', '-', '!', 'x', ']'] ['x'] = false := by decide
example : ']' ∉ ['a', '!'] ∧ tokenize ['[', 'a', '!'] = [.lit '[', .lit 'a', .lit '!'] := by decide
example : Matches (tokenize ['a', '*', '[', 'x', 'y', ']']) ['a', 'b', 'c', 'y'] :=
  (glob_matches_spec _ _).mp (by decide)

/-- sender 3 dies while its notification waits in a queue: it is dropped, what was queued behind it
is delivered -/
example : (run 8 demo [.hold none none none none, .post 1 3 1 none, .post 1 2 7 none, .kill 3,
    .release none none none]).2 =
    [.ret .ok, .ret .ok, .ret .ok, .ret .ok,
     .deliver 11 1 1 2 7, .deliver 10 2 1 2 7, .deliver 12 2 1 2 7, .deliver 10 1 1 2 7, .ret .ok] := by decide
/-- observer 12 dies while a copy restricted to it waits in the wide queue it was re-posted into -/
example : (run 8 demoPending [.kill 12, .release none none none]).2 = [.ret .ok, .ret .ok] ∧
    (run 8 demoPending [.release none none none]).2 = [.deliver 12 2 1 2 7, .ret .ok] := by decide

end DefconModel.Props.C04
