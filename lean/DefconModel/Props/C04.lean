import DefconModel.Notify
namespace DefconModel.Props.C04
open DefconModel DefconModel.Notify

theorem placeholder_glob_star (s : List Char) : glob ['*'] s = true := by
  induction s with
  | nil => simp [glob]
  | cons c s ih => simp [glob, ih]

end DefconModel.Props.C04
