/-
C04 — Notification centre delivers exactly the right notifications, once, in order.

Property theorems about M-Notify (`DefconModel/Notify.lean`, the executable model of
`Lib/defcon/tools/notifications.py`).  Helper lemmas are in `Lemmas/Notify.lean`.
`rec` is the interpreter for operations issued from inside observer callbacks; theorems that
quantify over `rec`/`fuel`/scripts hold for every re-entrant behaviour.
-/
import DefconModel.Lemmas.Notify

namespace DefconModel.Props.C04
open DefconModel DefconModel.Notify

/-! ## 1. Structural invariant of every reachable state (any history, any re-entrancy) -/

/-- One operation — whatever callbacks it triggers, whatever those callbacks do, to any nesting
depth — preserves the invariant: registry keys unique, no empty inner dict, one registration per
(key, observer), hold/disable counts positive, no duplicate pending notification in a hold. -/
theorem inv_exec (fuel : Nat) (c : Center) (op : Op) (h : Inv c) : Inv (exec fuel c op).1 :=
  inv_exec_aux fuel c op h

/-- Every state reachable from the empty centre by any operation sequence satisfies it. -/
theorem inv_reachable (fuel : Nat) (ops : List Op) : Inv (run fuel {} ops).1 :=
  runAll_preserves Inv (exec fuel) (fun c op h => inv_exec fuel c op h) {} ops inv_init

/-! ## 2. The two-level registry refines "one ordered list of registrations per key" -/

/-- addObserver on a fresh (key, observer): appended at the end of that key's list; other keys untouched. -/
theorem refines_add (c : Center) (o : Obj) (m : Meth) (k : RKey) (ident : Option String)
    (hno : hasReg c k o = false) (k2 : RKey) :
    (add c o m k ident).2 = .ok ∧
    regsAt (add c o m k ident).1 k2 = if k = k2 then regsAt c k ++ [⟨o, m, ident⟩] else regsAt c k2 := by
  refine ⟨?_, regsAt_add_ok hno k2⟩
  unfold add; simp [hno]

/-- a second registration of the same observer under the same key is rejected, state unchanged -/
theorem refines_add_dup (c : Center) (o : Obj) (m : Meth) (k : RKey) (ident : Option String)
    (h : hasReg c k o = true) : add c o m k ident = (c, .err .assertionError) := add_dup h

/-- removeObserver removes exactly that observer's registration under exactly that key -/
theorem refines_remove (c : Center) (h : Inv c) (o : Obj) (k k2 : RKey) :
    regsAt (removeKey c o k) k2 =
      if k = k2 then (regsAt c k).filter (fun r => r.observer ≠ o) else regsAt c k2 :=
  regsAt_removeKey h o k k2

/-- removeObserver(…, "all", observable) removes the observer from every key of that observable
and from no other key -/
theorem refines_removeAll (c : Center) (h : Inv c) (o : Obj) (s : Option Obj) (k2 : RKey) :
    regsAt (removeAll c o s).1 k2 =
      if k2.2 = s then (regsAt c k2).filter (fun r => r.observer ≠ o) else regsAt c k2 :=
  regsAt_removeAll h o s k2

/-- … and raises KeyError exactly when there is nothing to remove -/
theorem removeAll_rejects_iff (c : Center) (h : Inv c) (o : Obj) (s : Option Obj) :
    (removeAll c o s).2 = .err .keyError ↔ ∀ k : RKey, k.2 = s → hasReg c k o = false :=
  removeAll_err_iff h o s

/-- hasObserver answers membership in the key's list -/
theorem has_exact (c : Center) (k : RKey) (o : Obj) :
    hasReg c k o = true ↔ ∃ r ∈ regsAt c k, r.observer = o := by
  unfold hasReg; simp [List.any_eq_true]

/-! ## 3. Exact deliveries -/

/-- A post that no sender-side suspension catches delivers — when callbacks issue no operations —
exactly to the registrations under `(None,None)`, `(None,s)`, `(n,None)`, `(n,s)` in that key
order and registration order within a key, skipping precisely those that are disabled, held or
dead for that observer (or excluded by the private target of a re-post); only hold queues change. -/
theorem post_exact (rec : Center → Op → Center × List Ev) (c : Center) (n : Name) (s : Obj) (d : Data)
    (t : Option Obj) (hs : c.scripts = []) (hd : isDisabled c (senderKeys n s) = false)
    (hh : firstHold c (senderKeys n s) = none) :
    (post rec c n s d t).2 = ((matching c n s).filter (deliverable c n s t)).map (deliverEv n s d) ∧
    SameShape c (post rec c n s d t).1 :=
  ⟨(post_exact_aux rec c n s d t hs hd hh).2, (post_exact_aux rec c n s d t hs hd hh).1⟩

/-- Each registration is delivered once: a key's list never names an observer twice. -/
theorem each_once (c : Center) (h : Inv c) (k : RKey) : ((regsAt c k).map (·.observer)).Nodup :=
  regsAt_nodup h k

private theorem deliverOne_plain (rec : Center → Op → Center × List Ev) (n : Name) (s : Obj) (d : Data)
    (c : Center) (r : Reg) (hh : c.holds = []) (hd : c.disabled = []) (hs : c.scripts = []) :
    deliverOne rec n s d none c r =
      (c, if r.observer ∈ c.dead then [] else [deliverEv n s d r]) := by
  unfold deliverOne callback
  simp [isDisabled, firstHold, AL.contains, hh, hd, hs, observerKeys, deliverEv]
  split <;> rfl

private theorem runAll_deliverOne_plain (rec : Center → Op → Center × List Ev) (n : Name) (s : Obj) (d : Data)
    (c : Center) (regs : List Reg) (hh : c.holds = []) (hd : c.disabled = []) (hs : c.scripts = []) :
    runAll (deliverOne rec n s d none) c regs =
      (c, (regs.filter (fun r => r.observer ∉ c.dead)).map (deliverEv n s d)) := by
  induction regs with
  | nil => rfl
  | cons r rs ih =>
    rw [runAll_cons, deliverOne_plain rec n s d c r hh hd hs]
    simp only [ih]
    by_cases hdead : r.observer ∈ c.dead <;> simp [hdead]

private theorem runAll_deliverKey_plain (rec : Center → Op → Center × List Ev) (n : Name) (s : Obj) (d : Data)
    (c : Center) (ks : List RKey) (hh : c.holds = []) (hd : c.disabled = []) (hs : c.scripts = []) :
    runAll (deliverKey rec n s d none) c ks =
      (c, ((ks.flatMap (regsAt c)).filter (fun r => r.observer ∉ c.dead)).map (deliverEv n s d)) := by
  induction ks with
  | nil => rfl
  | cons k ks ih =>
    rw [runAll_cons]
    unfold deliverKey at ih ⊢
    rw [runAll_deliverOne_plain rec n s d c _ hh hd hs]
    simp only [ih]
    simp

/-- With nothing suspended: state unchanged, deliveries = all matching live registrations, in
order (least → most specific key, registration order within), one per registration. -/
theorem post_exact_unsuspended (rec : Center → Op → Center × List Ev) (c : Center) (n : Name) (s : Obj)
    (d : Data) (hh : c.holds = []) (hd : c.disabled = []) (hs : c.scripts = []) :
    post rec c n s d none =
      (c, ((matching c n s).filter (fun r => r.observer ∉ c.dead)).map (deliverEv n s d)) := by
  unfold post
  simp only [isDisabled, firstHold, AL.contains, hh, hd, senderKeys]
  simp only [AL.get?_nil, Option.isSome_none, List.any_cons, List.any_nil, Bool.or_self,
    Bool.false_eq_true, if_false, List.find?_cons, List.find?_nil]
  exact runAll_deliverKey_plain rec n s d c _ hh hd hs

/-- Nothing is ever delivered to a dead observer — for any callback interpreter. -/
theorem no_delivery_to_dead (rec : Center → Op → Center × List Ev) (n : Name) (s : Obj) (d : Data)
    (t : Option Obj) (c : Center) (r : Reg) (hdead : r.observer ∈ c.dead) :
    (deliverOne rec n s d t c r).2 = [] := by
  unfold deliverOne
  split
  · rfl
  · split
    · rfl
    · split
      · rfl
      · simp [hdead]

/-! ## 4. Disable, hold, release -/

/-- A post matched by a sender-side disable is dropped for good: no event, no state change. -/
theorem disable_drops (rec : Center → Op → Center × List Ev) (c : Center) (n : Name) (s : Obj) (d : Data)
    (t : Option Obj) (h : isDisabled c (senderKeys n s) = true) : post rec c n s d t = (c, []) := by
  unfold post; simp [h]

/-- A post matched by a sender-side hold (and no disable) delivers nothing and is appended to the
queue of the least specific matching hold — unless an equal notification is already pending. -/
theorem hold_queues (rec : Center → Op → Center × List Ev) (c : Center) (n : Name) (s : Obj) (d : Data)
    (t : Option Obj) (hk : HKey) (hd : isDisabled c (senderKeys n s) = false)
    (hh : firstHold c (senderKeys n s) = some hk) :
    post rec c n s d t = (enqueue c hk ⟨n, s, d, t⟩, []) := by
  unfold post; simp [hd, hh]

/-- equal pending notifications coalesce -/
theorem hold_coalesces (c : Center) (h : Inv c) (hk : HKey) (note : Note) :
    enqueue (enqueue c hk note) hk note = enqueue c hk note := by
  cases hg : AL.get? c.holds hk with
  | none => simp [enqueue, hg]
  | some hd =>
    by_cases hm : note ∈ hd.queue
    · simp [enqueue, hg, hm]
    · have : enqueue c hk note = { c with holds := AL.set c.holds hk { hd with queue := hd.queue ++ [note] } } := by
        simp [enqueue, hg, hm]
      rw [this]
      simp [enqueue]

/-- first-post order: a new pending notification goes to the end of the queue -/
theorem hold_fifo (c : Center) (hk : HKey) (hd : Hold) (note : Note)
    (hg : AL.get? c.holds hk = some hd) (hm : note ∉ hd.queue) :
    AL.get? (enqueue c hk note).holds hk = some { hd with queue := hd.queue ++ [note] } := by
  simp [enqueue, hg, hm]

/-- holds nest: releasing a hold requested more than once only decrements the count; nothing is
delivered and the queue is kept -/
theorem release_nests (rec : Center → Op → Center × List Ev) (c : Center) (hk : HKey) (hd : Hold)
    (hg : AL.get? c.holds hk = some hd) (hc : 1 < hd.count) :
    release rec c hk =
      ({ c with holds := AL.set c.holds hk { hd with count := hd.count - 1 } }, [.ret .ok]) := by
  unfold release
  have : ¬ (hd.count - 1 = 0) := by omega
  simp [hg, this]

/-- the last release removes the hold and re-posts the queue in first-post order -/
theorem release_last (rec : Center → Op → Center × List Ev) (c : Center) (hk : HKey) (hd : Hold)
    (hg : AL.get? c.holds hk = some hd) (hc : hd.count = 1) :
    release rec c hk =
      let r := runAll (repost rec) { c with holds := AL.erase c.holds hk } hd.queue
      (r.1, r.2 ++ [.ret .ok]) := by
  unfold release
  simp [hg, hc]

/-- releasing or enabling something that is not suspended raises KeyError and changes nothing -/
theorem release_unknown (rec : Center → Op → Center × List Ev) (c : Center) (hk : HKey)
    (hg : AL.get? c.holds hk = none) : release rec c hk = (c, [.ret (.err .keyError)]) := by
  unfold release; simp [hg]

theorem enable_unknown (c : Center) (hk : HKey) (hg : AL.get? c.disabled hk = none) :
    enable c hk = (c, .err .keyError) := by
  unfold enable; simp [hg]

/-- disables nest: n disables need n enables -/
theorem disable_nests (c : Center) (h : Inv c) (hk : HKey) :
    AL.contains (disable c hk).disabled hk = true ∧
    (enable (disable c hk) hk).1.disabled = c.disabled ∨
    AL.contains (enable (disable c hk) hk).1.disabled hk = true := by
  cases hg : AL.get? c.disabled hk with
  | none =>
    left
    refine ⟨by simp [disable], ?_⟩
    simp only [enable, disable, AL.get?_set_self, hg, Option.getD_none]
    simp only [Nat.zero_add, Nat.sub_self, if_true]
    have hnot : hk ∉ AL.keys c.disabled := by
      intro hm
      have : ∃ v, (hk, v) ∈ c.disabled := by
        simp only [AL.keys, List.mem_map] at hm
        obtain ⟨⟨k, v⟩, hm, rfl⟩ := hm
        exact ⟨v, hm⟩
      obtain ⟨v, hv⟩ := this
      rw [AL.get?_of_mem_nodup h.disKeys hv] at hg
      simp at hg
    clear hg
    generalize c.disabled = l at hnot
    induction l with
    | nil => simp [AL.set, AL.erase]
    | cons p r ih =>
      obtain ⟨k', v'⟩ := p
      simp only [AL.keys, List.map_cons, List.mem_cons, not_or] at hnot
      have hne : k' ≠ hk := fun e => hnot.1 e.symm
      simp only [AL.set, hne, if_false, AL.erase]
      rw [ih (by simpa [AL.keys] using hnot.2)]
  | some m =>
    right
    have hpos := h.disPos _ (AL.mem_of_get? hg)
    simp only at hpos
    have : m ≠ 0 := by omega
    simp [enable, disable, hg, this]

/-- A suspension under a key that is none of the candidate keys of a lookup does not affect it:
scopes are independent. -/
theorem scopes_independent_disable (c : Center) (hk : HKey) (ks : List HKey) (h : hk ∉ ks) :
    isDisabled (disable c hk) ks = isDisabled c ks := by
  unfold isDisabled disable
  simp only [AL.contains_set]
  induction ks with
  | nil => rfl
  | cons k ks ih =>
    simp only [List.mem_cons, not_or] at h
    simp only [List.any_cons, ih h.2]
    simp [h.1]

theorem scopes_independent_hold (c : Center) (hk : HKey) (note : Option Nat) (ks : List HKey) (h : hk ∉ ks) :
    firstHold (hold c hk note) ks = firstHold c ks := by
  unfold firstHold hold
  simp only [AL.contains_set]
  induction ks with
  | nil => rfl
  | cons k ks ih =>
    simp only [List.mem_cons, not_or] at h
    simp only [List.find?_cons, ih h.2]
    simp [h.1]

/-- hold/disable tables never influence each other or the registry -/
theorem suspend_leaves_registry (c : Center) (hk : HKey) (note : Option Nat) (k : RKey) :
    regsAt (hold c hk note) k = regsAt c k ∧ regsAt (disable c hk) k = regsAt c k ∧
    (hold c hk note).disabled = c.disabled ∧ (disable c hk).holds = c.holds := ⟨rfl, rfl, rfl, rfl⟩

/-- Whole-post form of scope independence: an extra disable under a key that is neither a
sender-side candidate of `(n, s)` nor an observer-side candidate of any matching registration
changes no delivery. -/
theorem post_scope_independent (rec : Center → Op → Center × List Ev) (c : Center) (n : Name) (s : Obj)
    (d : Data) (hk : HKey) (hs : c.scripts = [])
    (hd : isDisabled c (senderKeys n s) = false) (hh : firstHold c (senderKeys n s) = none)
    (h1 : hk ∉ senderKeys n s) (h2 : ∀ r ∈ matching c n s, hk ∉ observerKeys n s r.observer) :
    (post rec (disable c hk) n s d none).2 = (post rec c n s d none).2 := by
  have hd' : isDisabled (disable c hk) (senderKeys n s) = false := by
    rw [scopes_independent_disable c hk _ h1]; exact hd
  rw [(post_exact rec c n s d none hs hd hh).1,
      (post_exact rec (disable c hk) n s d none hs hd' hh).1]
  have hm : matching (disable c hk) n s = matching c n s := rfl
  rw [hm]
  congr 1
  apply List.filter_congr
  intro r hr
  unfold deliverable
  rw [scopes_independent_disable c hk _ (h2 r hr)]
  rfl

/-! ## 5. Observer-scoped hold is per observer -/

/-- With a single hold scoped to observer `o` (any name, any sender) and nothing else suspended,
a post is delivered immediately to every other live matching registration and to none of `o`'s. -/
theorem observer_scoped_hold_is_per_observer (rec : Center → Op → Center × List Ev) (c : Center)
    (o : Obj) (hd0 : Hold) (n : Name) (s : Obj) (d : Data)
    (hh : c.holds = [((none, none, some o), hd0)]) (hd : c.disabled = []) (hs : c.scripts = []) :
    (post rec c n s d none).2 =
      ((matching c n s).filter (fun r => r.observer ≠ o ∧ r.observer ∉ c.dead)).map (deliverEv n s d) := by
  have h1 : isDisabled c (senderKeys n s) = false := by simp [isDisabled, AL.contains, hd, senderKeys]
  have h2 : firstHold c (senderKeys n s) = none := by
    simp [firstHold, AL.contains, hh, senderKeys]
  rw [(post_exact rec c n s d none hs h1 h2).1]
  congr 1
  apply List.filter_congr
  intro r _
  unfold deliverable
  simp only [isDisabled, firstHold, AL.contains, hh, hd, observerKeys]
  by_cases e : r.observer = o
  · subst e; simp
  · have e' : ¬ o = r.observer := fun x => e x.symm
    simp [e, e']

/-- … and when that hold is released, the queued notifications are re-posted restricted to `o`:
the private target excludes every other observer. -/
theorem release_targets_only_holder (rec : Center → Op → Center × List Ev) (n : Name) (s : Obj) (d : Data)
    (o : Obj) (c : Center) (r : Reg) (h : r.observer ≠ o) :
    deliverOne rec n s d (some o) c r = (c, []) := by
  unfold deliverOne
  have : (some o : Option Obj) ≠ some r.observer := by
    intro e; injection e with e; exact h e.symm
  simp [this]

/-! ## 6. Lookup exactness -/

/-- findObservations reports exactly the registrations that match the filter: every reported
record comes from a registration stored under a matching key for a matching observer whose
identifier matches the pattern, and every such registration is reported. -/
theorem find_exact (c : Center) (o : Option Obj) (n : Option Name) (s : Option Obj) (pat : Option String)
    (f : Found) :
    f ∈ findObs c o n s pat ↔
      ∃ kr ∈ c.registry, ∃ r ∈ kr.2,
        keyOk n s kr.1 = true ∧ identOk pat r.ident = true ∧ obsOk o r.observer = true ∧
        f = ⟨liveRef c r.observer, liveRef? c kr.1.2, kr.1.1, r.ident⟩ := by
  unfold findObs
  simp only [List.mem_flatMap]
  constructor
  · rintro ⟨kr, hkr, hf⟩
    refine ⟨kr, hkr, ?_⟩
    by_cases hk : keyOk n s kr.1 = true
    · rw [if_pos hk] at hf
      simp only [List.mem_filterMap] at hf
      obtain ⟨r, hr, hsome⟩ := hf
      refine ⟨r, hr, hk, ?_⟩
      by_cases hok : (identOk pat r.ident && obsOk o r.observer) = true
      · rw [if_pos hok] at hsome
        simp only [Bool.and_eq_true] at hok
        exact ⟨hok.1, hok.2, (Option.some.inj hsome).symm⟩
      · rw [if_neg hok] at hsome; simp at hsome
    · rw [if_neg hk] at hf; simp at hf
  · rintro ⟨kr, hkr, r, hr, hk, hi, ho, hf⟩
    refine ⟨kr, hkr, ?_⟩
    rw [if_pos hk]
    simp only [List.mem_filterMap]
    refine ⟨r, hr, ?_⟩
    simp [hi, ho, hf]

/-- what the three filters mean -/
theorem keyOk_iff (n : Option Name) (s : Option Obj) (k : RKey) :
    keyOk n s k = true ↔ (n = none ∨ k.1 = n) ∧ (s = none ∨ k.2 = s) := by
  unfold keyOk
  cases n <;> cases s <;> simp

theorem obsOk_iff (o : Option Obj) (x : Obj) : obsOk o x = true ↔ (o = none ∨ o = some x) := by
  cases o with
  | none => simp [obsOk]
  | some y => simp [obsOk]; exact eq_comm

theorem identOk_iff (pat ident : Option String) :
    identOk pat ident = true ↔
      (pat = none ∨ ∃ p i, pat = some p ∧ ident = some i ∧ glob p.toList i.toList = true) := by
  cases pat with
  | none => simp [identOk]
  | some p =>
    cases ident with
    | none => simp [identOk]
    | some i => simp [identOk]

/-! ## 7. Non-vacuity: concrete states meeting the hypotheses, and the laws in action -/

def demo : Center := (run 8 {} [.add 10 1 (some 1) (some 2) (some "a.b"), .add 11 1 none none none,
  .add 12 2 (some 1) none none, .add 10 2 none none none]).1

example : Inv demo := inv_reachable 8 _
example : demo.holds = [] ∧ demo.disabled = [] ∧ demo.scripts = [] := by decide
example : (post noRec demo 1 2 7 none).2 =
    [.deliver 11 1 1 2 7, .deliver 10 2 1 2 7, .deliver 12 2 1 2 7, .deliver 10 1 1 2 7] := by decide
/-- an observer-scoped hold: others receive now, the holder at release, nobody twice -/
example : (run 8 demo [.hold none none (some 10) none, .post 1 2 7 none, .release none none (some 10)]).2 =
    [.ret .ok, .deliver 11 1 1 2 7, .deliver 12 2 1 2 7, .ret .ok,
     .deliver 10 2 1 2 7, .deliver 10 1 1 2 7, .ret .ok] := by decide
/-- nested holds, coalescing, and a re-entrant self-removal from inside a callback -/
example : (run 8 demo [.hold (some 1) none none none, .hold (some 1) none none none, .post 1 2 7 none,
    .post 1 2 7 none, .release (some 1) none none, .script 11 1 [.remove 11 none none, .post 1 3 0 none],
    .release (some 1) none none, .post 1 2 1 none]).2 =
    [.ret .ok, .ret .ok, .ret .ok, .ret .ok, .ret .ok, .ret .ok,
     .deliver 11 1 1 2 7, .ret .ok, .deliver 10 2 1 3 0, .deliver 12 2 1 3 0, .ret .ok,
     .deliver 10 2 1 2 7, .deliver 12 2 1 2 7, .deliver 10 1 1 2 7, .ret .ok,
     .deliver 10 2 1 2 1, .deliver 12 2 1 2 1, .deliver 10 1 1 2 1, .ret .ok] := by decide

end DefconModel.Props.C04
